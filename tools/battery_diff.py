#!/venv/bin/python
"""Developer tool: write the edit of one battery entry as a unified diff (tools/battery_diff.py <PROP> <name> > x.diff)."""
import difflib
import re
import sys

sys.path.insert(0, "/verif")
from iodalint import battery  # noqa: E402

prop, name = sys.argv[1:3]
repo = sys.argv[3] if len(sys.argv) > 3 else "/repo"
for sp in battery._SPECS:
    if sp["prop"] == prop and sp["name"] == name:
        src = open(f"{repo}/{sp['rel']}").read()
        new, n = re.subn(sp["pattern"], sp["repl"], src, count=sp["count"], flags=sp["flags"])
        for p2, r2 in sp.get("also", ()):
            new, _ = re.subn(p2, r2, new, count=1, flags=sp["flags"])
        sys.stdout.writelines(difflib.unified_diff(src.splitlines(True), new.splitlines(True), "a/" + sp["rel"], "b/" + sp["rel"]))
        break
else:
    sys.exit("no such battery entry")
