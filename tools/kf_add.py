#!/usr/bin/env python3
"""Developer tool (never run by a check): add a triaged finding to known_findings.json.

usage: tools/kf_add.py <replay.json> "<what fails, one sentence>"
"""
import json
import os
import sys

HERE = os.path.dirname(os.path.dirname(os.path.abspath(__file__)))
rp, what = sys.argv[1], sys.argv[2]
fd = json.load(open(rp))
path = os.path.join(HERE, "known_findings.json")
kf = json.load(open(path))
entry = {
    "property": fd["property"],
    "rule": fd["rule"],
    "function": fd["function"],
    "construct": fd["construct"],
    "file": fd["file"],
    "what": what,
}
if not any(all(k.get(x) == entry[x] for x in ("property", "rule", "function", "construct")) for k in kf["findings"]):
    kf["findings"].append(entry)
json.dump(kf, open(path, "w"), indent=1)
print("added", entry["property"], entry["rule"], entry["function"])
