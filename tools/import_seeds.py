#!/usr/bin/env python3
"""Developer tool: copy validated seeded changes from /tmp/seed/*.out into /verif/seeded/<id>/."""
import glob, json, os, shutil, subprocess, sys
SEED = "/tmp/seed"
DEST = "/verif/seeded"
os.makedirs(DEST, exist_ok=True)
val = {}
for fn in sorted(glob.glob("/tmp/val/*.json"), key=lambda f: (os.path.basename(f).startswith("d"), f)):
    d = json.load(open(fn))
    val.setdefault(d["id"], {}).update(d)
for out in sorted(glob.glob(f"{SEED}/C*.out")):
    pid = os.path.basename(out)[:-4]
    for x in "ab":
        sid = f"{pid}{x}"
        cands = [f"{out}/{x}_patch_rebased.diff", f"{out}/{x}_patch.diff", f"{out}/{x}.patch.diff"]
        patch = next((c for c in cands if os.path.exists(c)), None)
        demo = next((c for c in (f"{out}/{x}_demo.py", f"{out}/{x}.demo.py") if os.path.exists(c)), None)
        meta = next((c for c in (f"{out}/{x}_meta.json", f"{out}/{x}.meta.json") if os.path.exists(c)), None)
        if not (patch and demo and meta):
            print("incomplete", sid); continue
        v = val.get(sid, {})
        ok = v.get("demo_exit_clean") == 0 and v.get("demo_exit_patched") not in (0, None) and "547 passed" in v.get("suite", "")
        if not ok:
            print("not validated", sid, v); continue
        # does it apply to the current head?
        r = subprocess.run(["git", "-C", "/repo", "apply", "--check", patch], capture_output=True)
        note = ""
        if r.returncode != 0:
            r = subprocess.run(["git", "-C", "/repo", "apply", "-C1", "--check", patch], capture_output=True)
            if r.returncode != 0:
                print("does not apply to HEAD:", sid); note = "does not apply to the current head (context changed by a fix: commit); kept against its base commit"
        d = f"{DEST}/{sid}"
        os.makedirs(d, exist_ok=True)
        shutil.copy(patch, f"{d}/patch.diff")
        shutil.copy(demo, f"{d}/demo.py")
        m = json.load(open(meta))
        pytest_style = x + "_demo.py" in demo
        newm = {
            "id": sid,
            "property": pid,
            "summary": m.get("summary"),
            "needs": m.get("needs"),
            "files": m.get("files"),
            "base_commit": v.get("base"),
            "origin": "written by an independent sub-agent given only the property text and a scratch worktree",
            "what_i_ran": [
                f"scratch worktree of /repo at {v.get('base')}: full suite with the patch ({v.get('suite')}; unmodified tree: 547 passed)",
                f"demonstration without the patch: exit {v.get('demo_exit_clean')}; with the patch: exit {v.get('demo_exit_patched')}",
            ],
            "demo_cmd": ("cd <tree> && cp <this dir>/demo.py zz_demo.py && /venv/bin/python -m pytest -q -p no:cacheprovider -n 0 zz_demo.py" if pytest_style else "cd <tree> && /venv/bin/python <this dir>/demo.py"),
            "note": note,
        }
        old = {}
        if os.path.exists(f"{d}/meta.json"):
            old = json.load(open(f"{d}/meta.json"))
        for k in ("detected_by", "detection_note"):
            if k in old:
                newm[k] = old[k]
        json.dump(newm, open(f"{d}/meta.json", "w"), indent=1)
        print("imported", sid, note)
