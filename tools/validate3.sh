#!/bin/sh
# usage: validate3.sh <srcdir> <x> <newid> <base-commit> <resultdir>
# e.g.   validate3.sh /tmp/seed3/C13.out a C13c 4e8e2c5 /tmp/val3
# Confirms in a scratch worktree of /repo: the suite passes with the patch, the demonstration fails with it and passes without it.
OUT=$1; X=$2; NEW=$3; BASE=$4; RES=$5
P=$OUT/${X}_patch.diff; D=$OUT/${X}_demo.py
W=$RES/w_$NEW
mkdir -p "$RES"; rm -rf "$W"
git -C /repo worktree add -q --detach "$W" "$BASE" || exit 3
cd "$W" || exit 3
cp "$D" "$W/zz_seed_demo.py"
rundemo() { /venv/bin/python -m pytest -q -p no:cacheprovider -n 0 -W "ignore::pytest.PytestRemovedIn10Warning" zz_seed_demo.py >/dev/null 2>&1; echo $?; }
CLEAN=$(rundemo)
git apply "$P" || { echo "{\"id\": \"$NEW\", \"error\": \"patch does not apply to $BASE\"}" > $RES/$NEW.json; cd /; git -C /repo worktree remove --force "$W"; exit 0; }
PATCHED=$(rundemo)
SUITE=$(/venv/bin/python -m pytest -q -p no:cacheprovider --timeout=900 -n 4 -W "ignore::pytest.PytestRemovedIn10Warning" --ignore=zz_seed_demo.py 2>&1 | tail -1)
echo "{\"id\": \"$NEW\", \"base\": \"$BASE\", \"demo_exit_clean\": $CLEAN, \"demo_exit_patched\": $PATCHED, \"suite\": \"$SUITE\"}" > $RES/$NEW.json
cd /; git -C /repo worktree remove --force "$W"
