#!/bin/sh
# Developer tool: apply every behaviour-preserving twin in /verif/twins to a scratch worktree of /repo's head and
# require all checks to stay silent (exit 0).  usage: tools/run_twins.sh [jobs]   (twins run in parallel, default 12)
cd /verif || exit 3
J=${1:-12}
one() {
  t="$1"
  w=/tmp/twin_wt_$$_$(basename "$t" .diff)
  git -C /repo worktree add -q --detach "$w" HEAD || { echo "TWIN-SETUP-FAILED $t"; return; }
  if git -C "$w" apply "/verif/$t"; then
    for id in C01 C02 C03 C04 C05 C06 C07 C08 C09 C10 C11 C12 C13 C14 C16 C17 C18 C19 C20; do
      ./check "$id" --repo "$w" --no-evidence > "$w.log" 2>&1 || { echo "TWIN-FIRED $t $id"; grep -E "VIOLATION|ANALYSIS-ERROR|\[C" "$w.log" | head -3; }
    done
  else
    echo "TWIN-DOES-NOT-APPLY $t"
  fi
  git -C /repo worktree remove --force "$w"
  rm -f "$w.log"
  echo "twin $t done"
}
if [ -n "$TWIN_ONE" ]; then one "$TWIN_ONE"; exit 0; fi
out=/tmp/twins_$$.out
ls twins/*.diff | TWIN_PARENT=$$ xargs -P "$J" -I{} env TWIN_ONE={} sh "$0" > "$out" 2>&1
cat "$out"
if grep -qE "TWIN-FIRED|TWIN-DOES-NOT-APPLY|TWIN-SETUP-FAILED" "$out"; then rm -f "$out"; exit 1; fi
rm -f "$out"
exit 0
