#!/bin/sh
# Developer tool: apply every behaviour-preserving twin in /verif/twins to a scratch worktree of /repo's head and
# require all checks to stay silent (exit 0).  usage: tools/run_twins.sh
cd /verif || exit 3
rc=0
for t in twins/*.diff; do
  w=/tmp/twin_wt_$$
  git -C /repo worktree add -q --detach "$w" HEAD || exit 3
  if git -C "$w" apply "/verif/$t"; then
    for id in C01 C02 C03 C04 C05 C06 C07 C08 C09 C10 C11 C12 C13 C14 C16 C17 C18 C19 C20; do
      ./check "$id" --repo "$w" --no-evidence > /tmp/twin_$$.log 2>&1 || { echo "TWIN-FIRED $t $id"; grep -E "VIOLATION|ANALYSIS-ERROR|\[C" /tmp/twin_$$.log | head -3; rc=1; }
    done
  else
    echo "TWIN-DOES-NOT-APPLY $t"; rc=1
  fi
  git -C /repo worktree remove --force "$w"
  echo "twin $t done"
done
rm -f /tmp/twin_$$.log
exit $rc
