#!/bin/sh
# usage: validate_demo.sh <ID> <x> <base>  -- re-checks only the demonstration (pytest style) clean vs patched
ID=$1; X=$2; BASE=$3
OUT=/tmp/seed/$ID.out
P=$OUT/${X}_patch.diff; D=$OUT/${X}_demo.py
W=/tmp/val/d$ID$X
rm -rf "$W"
git -C /repo worktree add -q --detach "$W" "$BASE" || exit 3
cd "$W" || exit 3
cp "$D" "$W/zz_seed_demo.py"
rundemo() { /venv/bin/python -m pytest -q -p no:cacheprovider -n 0 -W "ignore::pytest.PytestRemovedIn10Warning" zz_seed_demo.py >/dev/null 2>&1; echo $?; }
CLEAN=$(rundemo)
git apply "$P"
PATCHED=$(rundemo)
echo "{\"id\": \"$ID$X\", \"demo_exit_clean\": $CLEAN, \"demo_exit_patched\": $PATCHED}" > /tmp/val/d$ID$X.json
cd /; git -C /repo worktree remove --force "$W"
