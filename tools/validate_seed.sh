#!/bin/sh
# usage: validate_seed.sh <ID> <x> <base-commit>     e.g. validate_seed.sh C01 a 8ce698e
# Confirms in a scratch worktree: suite passes with the patch, demo fails with it, demo passes without it.
ID=$1; X=$2; BASE=$3
OUT=/tmp/seed/$ID.out
P=$OUT/${X}_patch.diff; [ -f "$P" ] || P=$OUT/$X.patch.diff
D=$OUT/${X}_demo.py; [ -f "$D" ] || D=$OUT/$X.demo.py
W=/tmp/val/$ID$X
rm -rf "$W"; mkdir -p /tmp/val
git -C /repo worktree add -q --detach "$W" "$BASE" || exit 3
cd "$W" || exit 3
cp "$D" "$W/zz_seed_demo.py"
rundemo() { /venv/bin/python zz_seed_demo.py >/dev/null 2>&1; echo $?; }
CLEAN=$(rundemo)
git apply "$P" || { echo "{\"id\": \"$ID$X\", \"error\": \"patch does not apply to $BASE\"}" > /tmp/val/$ID$X.json; git -C /repo worktree remove --force "$W"; exit 0; }
PATCHED=$(rundemo)
SUITE=$(/venv/bin/python -m pytest -q -p no:cacheprovider --timeout=900 -n 4 -W "ignore::pytest.PytestRemovedIn10Warning" 2>&1 | tail -1)
echo "{\"id\": \"$ID$X\", \"base\": \"$BASE\", \"demo_exit_clean\": $CLEAN, \"demo_exit_patched\": $PATCHED, \"suite\": \"$SUITE\"}" > /tmp/val/$ID$X.json
cd /; git -C /repo worktree remove --force "$W"
