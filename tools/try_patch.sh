#!/bin/sh
# usage: tools/try_patch.sh <patch.diff> <PROP> [<PROP>...]
# applies the patch to /repo, runs the given checks (no evidence written), reverts.
P="$1"; shift
cd /repo || exit 3
if [ -n "$(git status --porcelain --untracked-files=no)" ]; then echo "repo dirty, refusing"; exit 3; fi
git apply "$P" 2>/dev/null || git apply -C1 "$P" || { echo "patch does not apply"; exit 3; }
for id in "$@"; do
  (cd /verif && ./check "$id" --no-evidence 2>&1 | grep -E "VIOLATION|ANALYSIS-ERROR|\[C[0-9]+-R|new violation" | head -12)
done
git -C /repo checkout -- .
