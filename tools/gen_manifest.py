#!/usr/bin/env python3
"""Regenerate /verif/MANIFEST.json from the rule modules that exist."""
import importlib
import json
import os
import sys

HERE = os.path.dirname(os.path.dirname(os.path.abspath(__file__)))
sys.path.insert(0, HERE)

ALL = [f"C{i:02d}" for i in range(1, 21)]
NA_REASON = {
    "C15": "Idempotence of save/reload cycles is a fixpoint property of run-time float formatting and of "
    "reader heuristics applied to generated values; no sound static argument in reach bounds it. Its "
    "shape-visible necessary conditions (no mutation of the input: C09; inverse unit factors: C04; no "
    "ambient inputs: C16) are decided under those properties and not counted twice (DESIGN.md section 4, C15).",
}
NOT_BUILT = "static check for this property is not built yet in this tree (see DESIGN.md for the planned rules); not claimed until it exists"

checks, na = [], []
for pid in ALL:
    try:
        m = importlib.import_module(f"iodalint.rules.{pid.lower()}")
    except ModuleNotFoundError:
        na.append({"property_id": pid, "reason": NA_REASON.get(pid, NOT_BUILT)})
        continue
    checks.append(
        {
            "property_id": pid,
            "quick_cmd": f"./check {pid} --tier quick",
            "thorough_cmd": f"./check {pid} --tier thorough",
            "evidence_file": f"/verif/evidence/{pid}.json",
            "replay_cmd_template": f"./check {pid} --replay {{path}}",
            "engine": "iodalint",
            "level_claimed": {
                "category": getattr(m, "LEVEL", "other"),
                "text": m.EXPLANATION,
                "design_ref": f"DESIGN.md section 4, {pid}",
            },
            "level_note": "Trusted base: " + "; ".join(m.TRUSTED)
            + ". Decides the named structural clauses (necessary conditions) on every path of the current source, not the run-time behaviour as a whole.",
            "technique": getattr(m, "TECHNIQUE", "static analysis: repository-specific AST/CFG/dataflow rules (iodalint)"),
        }
    )
manifest = {
    "version": 1,
    "setup_cmd": "true",
    "hooks": {
        "guard": "IODATA_VERIF",
        "enable": "none needed: the checks parse /repo's working tree and execute nothing, so /repo carries no instrumentation",
        "baseline_off_cmd": "cd /repo && /venv/bin/python -m pytest -ra -q -p no:cacheprovider --timeout=900 --continue-on-collection-errors",
        "source_commits": [],
        "add_only": True,
    },
    "engines": [
        {
            "name": "iodalint",
            "path": "/verif/iodalint",
            "serves_properties": [c["property_id"] for c in checks],
            "kind_free_text": "static analysis over the stdlib ast: program model (bindings, registry, call graph), "
            "constant evaluator, CFG/dominators, exception flow, abstract interpreter with ownership/unit/nullness/"
            "origin domains, record-layout and table algebra; nothing under /repo is imported or run",
        }
    ],
    "checks": checks,
    "not_applicable": na,
    "notes": "Exit codes: 0 ok (KNOWN-FINDING lines for entries of known_findings.json), 1 VIOLATION, 2 ANALYSIS-ERROR (fail closed). "
    "Thorough tier adds the sensitivity battery (in-memory AST mutations that must fire, twins that must stay silent).",
}
with open(os.path.join(HERE, "MANIFEST.json"), "w") as fh:
    json.dump(manifest, fh, indent=1)
print(f"claimed: {[c['property_id'] for c in checks]}")
print(f"not_applicable: {[n['property_id'] for n in na]}")
