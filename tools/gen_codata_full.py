#!/usr/bin/env python3
"""Developer tool: freeze every scipy.constants value (physical_constants table and float attributes) into
spec/codata_full.json, so that C04-R3 can evaluate a unit constant that was re-defined through *another* CODATA key
and compare it with the reference.  Never run by a check."""
import json
import scipy
import scipy.constants as spc

out = {
    "_comment": f"scipy {scipy.__version__}: scipy.constants.physical_constants values and module-level float constants, frozen for constant evaluation (C04-R3)",
    "value": {k: v[0] for k, v in sorted(spc.physical_constants.items())},
    "attr": {k: float(getattr(spc, k)) for k in sorted(dir(spc)) if isinstance(getattr(spc, k), float)},
}
json.dump(out, open("/verif/spec/codata_full.json", "w"), indent=0)
print(len(out["value"]), len(out["attr"]))
