#!/usr/bin/env python3
"""Developer tool: freeze the format convention tables (order + signs) of the tree into spec/conventions.json.

Run once on a tree whose tables were confirmed by reading against the formats' documentation
(docs/basis.rst, the module comments citing the vendor documentation).  Never run by a check.
"""
import json, os, sys
HERE = os.path.dirname(os.path.dirname(os.path.abspath(__file__)))
sys.path.insert(0, HERE)
from iodalint.model import Program
from iodalint.consteval import ConstEval
from iodalint.tables import discover_convention_tables, spec_label

prog = Program(sys.argv[1] if len(sys.argv) > 1 else "/repo")
ce = ConstEval(prog)
out = {}
for label, relpath, lineno, table, f in discover_convention_tables(prog, ce):
    lab = spec_label(label)
    if lab.startswith("iodata.convert._get_default_conventions"):
        continue
    lim = 7 if lab.startswith("iodata.convert.") else 99
    out[lab] = {
        "source": f"{relpath} (confirmed on the pinned tree; vendor documentation cited in the module)",
        "entries": {f"{k[0]}{k[1]}": list(v) for k, v in sorted(table.items()) if k[0] <= lim},
    }
json.dump(out, open(os.path.join(HERE, "spec", "conventions.json"), "w"), indent=1)
print({k: len(v["entries"]) for k, v in out.items()})
