#!/usr/bin/env python3
"""Developer tool: copy validated seeded changes (batch lists of `srcdir x newid base resultdir`) into /verif/seeded/<newid>/."""
import json, os, shutil, subprocess, sys

DEST = "/verif/seeded"
for lst in sys.argv[1:]:
    for line in open(lst):
        src, x, new, base, res = line.split()
        vfn = f"{res}/{new}.json"
        if not os.path.exists(vfn):
            print("no validation result", new)
            continue
        v = json.load(open(vfn))
        ok = v.get("demo_exit_clean") == 0 and v.get("demo_exit_patched") not in (0, None) and "547 passed" in v.get("suite", "")
        if not ok:
            print("not validated", new, v)
            continue
        patch, demo, meta = f"{src}/{x}_patch.diff", f"{src}/{x}_demo.py", f"{src}/{x}_meta.json"
        r = subprocess.run(["git", "-C", "/repo", "apply", "--check", patch], capture_output=True)
        note = "" if r.returncode == 0 else "does not apply to the current head; kept against its base commit"
        d = f"{DEST}/{new}"
        os.makedirs(d, exist_ok=True)
        shutil.copy(patch, f"{d}/patch.diff")
        shutil.copy(demo, f"{d}/demo.py")
        m = json.load(open(meta))
        newm = {
            "id": new,
            "property": new[:3],
            "summary": m.get("summary"),
            "needs": m.get("needs"),
            "files": m.get("files"),
            "base_commit": v.get("base"),
            "origin": "written by an independent sub-agent given only the property text, the one-line summaries of earlier changes for this property, and a scratch worktree",
            "what_i_ran": [
                f"scratch worktree of /repo at {v.get('base')}: full suite with the patch ({v.get('suite')}; unmodified tree: 547 passed)",
                f"demonstration (pytest) without the patch: exit {v.get('demo_exit_clean')}; with the patch: exit {v.get('demo_exit_patched')}",
            ],
            "demo_cmd": "cd <tree> && cp <this dir>/demo.py zz_demo.py && /venv/bin/python -m pytest -q -p no:cacheprovider -n 0 -W ignore::pytest.PytestRemovedIn10Warning zz_demo.py",
            "note": note,
        }
        if os.path.exists(f"{d}/meta.json"):
            old = json.load(open(f"{d}/meta.json"))
            for k in ("detected_by", "detection_note"):
                if k in old:
                    newm[k] = old[k]
        json.dump(newm, open(f"{d}/meta.json", "w"), indent=1)
        print("imported", new, note)
