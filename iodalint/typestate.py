"""E8 -- nullness typestate interpreter for the IOData property getters / setters.

The bodies interpreted here use only: if/elif/else on `X is None` / `X is not None`
(and/or/not), assignments to self._field or self.property, reads of fields and
sibling properties, arithmetic, `raise`.  Over the nullness abstraction every test
is decided, so each operation is a deterministic function on abstract states.
Anything outside the fragment is an AnalysisError (never silently skipped).
"""

from __future__ import annotations

import ast

from . import AnalysisError
from .model import ClassInfo, Program, src_of

NONE, SET = "None", "Set"
MO_ABSENT, MO_OCCS, MO_NOOCCS = "absent", "with_occs", "without_occs"


class Raised(Exception):
    def __init__(self, cls, node):
        self.cls = cls
        self.node = node


class _Return(Exception):
    def __init__(self, val, node):
        self.val = val
        self.node = node


class TypeState:
    def __init__(self, prog: Program, ci: ClassInfo, hidden, plain, mo_field="mo"):
        self.prog = prog
        self.ci = ci
        self.hidden = list(hidden)  # private fields with property wrappers
        self.plain = list(plain)  # plain nullable fields consulted by the properties
        self.mo_field = mo_field
        self.vars = self.hidden + self.plain + [mo_field]
        self.writes = []  # (field, call stack) recorded during one operation
        self.stack = []
        self.return_nodes = []
        self.validated = set()  # hidden fields whose attrs validator may reject a value (TypeError)
        self.inject = None  # index of the validated store that is made to fail in this run
        self.vcount = 0

    # ------------------------------------------------------------------ state
    def make(self, **kw):
        return tuple(kw[v] for v in self.vars)

    def get(self, st, v):
        return st[self.vars.index(v)]

    def put(self, st, v, val):
        i = self.vars.index(v)
        return st[:i] + (val,) + st[i + 1:]

    # ------------------------------------------------------------- operations
    def call_getter(self, st, name):
        g = self.ci.getters.get(name)
        if g is None:
            raise AnalysisError(f"no getter {self.ci.name}.{name}")
        return self._run(g, st, {})

    def call_setter(self, st, name, val):
        s = self.ci.setters.get(name)
        if s is None:
            raise AnalysisError(f"no setter {self.ci.name}.{name}")
        st2, _ = self._run(s, st, {s.posparams[1]: val})
        return st2

    def call_method(self, st, name):
        m = self.ci.methods.get(name)
        if m is None:
            raise AnalysisError(f"no method {self.ci.name}.{name}")
        st2, _ = self._run(m, st, {})
        return st2

    def _run(self, func, st, env):
        if len(self.stack) > 12:
            raise AnalysisError("property recursion too deep in typestate interpreter")
        self.stack.append(func.name + ("=" if func.property_kind == "setter" else ""))
        self.cur = st
        saved_env = getattr(self, "env", None)
        self.env = dict(env)
        try:
            try:
                self._block(func.body)
                res = NONE
                self.return_nodes.append((func.qualname, None))
            except _Return as r:
                res = r.val
                self.return_nodes.append((func.qualname, r.node))
            return self.cur, res
        finally:
            self.stack.pop()
            self.env = saved_env if saved_env is not None else {}

    # ------------------------------------------------------------- statements
    def _block(self, stmts):
        for s in stmts:
            self._stmt(s)

    def _stmt(self, s):
        if isinstance(s, ast.Expr):
            if isinstance(s.value, ast.Constant):
                return
            self._eval(s.value)
            return
        if isinstance(s, ast.Pass):
            return
        if isinstance(s, ast.If):
            if self._test(s.test):
                self._block(s.body)
            else:
                self._block(s.orelse)
            return
        if isinstance(s, ast.For) and isinstance(s.iter, (ast.Tuple, ast.List)) and isinstance(s.target, ast.Name) and not s.orelse and not any(isinstance(x, (ast.Break, ast.Continue)) for b in s.body for x in ast.walk(b)):
            # a loop over a literal sequence of fields (`for array in (self.a, self.b): ...`) is unrolled
            for elt in s.iter.elts:
                self.env[s.target.id] = self._eval(elt)
                self._block(s.body)
            return
        if isinstance(s, ast.For) and isinstance(s.iter, ast.Name) and isinstance(self.env.get(s.iter.id), tuple) and isinstance(s.target, ast.Name) and not s.orelse and not any(isinstance(x, (ast.Break, ast.Continue)) for b in s.body for x in ast.walk(b)):
            # the same over a local that was bound to a literal sequence
            for item in self.env[s.iter.id]:
                self.env[s.target.id] = item
                self._block(s.body)
            return
        if isinstance(s, ast.Return):
            raise _Return(self._eval(s.value) if s.value is not None else NONE, s)
        if isinstance(s, ast.Raise):
            e = s.exc.func if isinstance(s.exc, ast.Call) else s.exc
            raise Raised(getattr(e, "id", "?"), s)
        if isinstance(s, ast.Assign) and len(s.targets) == 1:
            t = s.targets[0]
            val = self._eval(s.value)
            if isinstance(t, ast.Name):
                self.env[t.id] = val
                return
            if isinstance(t, ast.Tuple) and all(isinstance(x, ast.Name) for x in t.elts) and isinstance(val, tuple) and len(val) == len(t.elts):
                for x, v in zip(t.elts, val):
                    self.env[x.id] = v
                return
            if isinstance(t, ast.Attribute) and isinstance(t.value, ast.Name) and t.value.id == "self":
                nm = t.attr
                if nm in self.hidden or nm in self.plain:
                    if nm in self.validated and val == SET:
                        # attrs validates on assignment: a value of the wrong shape raises TypeError here
                        if self.inject is not None and self.vcount == self.inject:
                            self.vcount += 1
                            raise Raised("TypeError", s)
                        self.vcount += 1
                    self.writes.append((nm, tuple(self.stack), s))
                    self.cur = self.put(self.cur, nm, val)
                    return
                if nm in self.ci.setters:
                    saved = self.env
                    st2 = self.call_setter(self.cur, nm, val)
                    self.cur = st2
                    self.env = saved
                    return
                raise AnalysisError(f"assignment to self.{nm} outside the modelled fields in {self.ci.name}")
        raise AnalysisError(f"statement `{src_of(s)[:60]}` is outside the typestate fragment ({self.ci.name}.{self.stack[-1]})")

    def _test(self, t) -> bool:
        if isinstance(t, ast.BoolOp):
            if isinstance(t.op, ast.And):
                return all(self._test(v) for v in t.values)
            return any(self._test(v) for v in t.values)
        if isinstance(t, ast.UnaryOp) and isinstance(t.op, ast.Not):
            return not self._test(t.operand)
        if isinstance(t, ast.Compare) and len(t.ops) == 1 and isinstance(t.comparators[0], ast.Constant) and t.comparators[0].value is None:
            v = self._eval(t.left)
            if isinstance(t.ops[0], ast.Is):
                return v == NONE
            if isinstance(t.ops[0], ast.IsNot):
                return v != NONE
        if isinstance(t, ast.Compare) and len(t.ops) == 1 and isinstance(t.ops[0], (ast.Eq, ast.NotEq)) and isinstance(t.comparators[0], ast.Constant) and isinstance(t.comparators[0].value, str) and isinstance(t.left, ast.Attribute) and isinstance(t.left.value, ast.Attribute) and isinstance(t.left.value.value, ast.Name) and t.left.value.value.id == "self" and t.left.value.attr == self.mo_field:
            # `self.mo.kind == "generalized"`: the orbitals of this abstraction are restricted / unrestricted ones
            # (with or without occupations); generalized orbitals are decided by the evaluated getter / setter rows
            self.generic_truth = True
            is_gen = t.comparators[0].value == "generalized"
            eq = not is_gen if t.left.attr == "kind" else False
            return eq if isinstance(t.ops[0], ast.Eq) else (not eq)
        if isinstance(t, (ast.Name, ast.Attribute)):
            # truth value of a field: None is false; a set value is taken as generic (non-zero) -- the zero case is a
            # question about values, decided by the arithmetic rule on symbols and zero, not by this None/set typestate
            v = self._eval(t)
            if v in (NONE, SET):
                self.generic_truth = True
                return v == SET
        raise AnalysisError(f"test `{src_of(t)}` is outside the typestate fragment ({self.ci.name}.{self.stack[-1]})")

    # ------------------------------------------------------------ expressions
    def _eval(self, e):
        if isinstance(e, ast.Constant):
            return NONE if e.value is None else SET
        if isinstance(e, ast.Name):
            if e.id in self.env:
                return self.env[e.id]
            return SET  # module-level names (np, ...)
        if isinstance(e, ast.Attribute):
            if isinstance(e.value, ast.Name) and e.value.id == "self":
                nm = e.attr
                if nm in self.hidden or nm in self.plain:
                    return self.get(self.cur, nm)
                if nm == self.mo_field:
                    return NONE if self.get(self.cur, nm) == MO_ABSENT else SET
                if nm in self.ci.getters:
                    saved = self.env
                    st2, val = self.call_getter(self.cur, nm)
                    self.cur = st2
                    self.env = saved
                    return val
                # other plain attrs fields (atcoords, atgradient, ...) are independent inputs: modelled as Set/None by the caller
                return self.env.get("@" + nm, NONE)
            # self.mo.nelec / self.mo.spinpol
            if isinstance(e.value, ast.Attribute) and isinstance(e.value.value, ast.Name) and e.value.value.id == "self" and e.value.attr == self.mo_field:
                mo = self.get(self.cur, self.mo_field)
                if mo == MO_ABSENT:
                    raise Raised("AttributeError", e)
                return SET if mo == MO_OCCS else NONE
            base = self._eval(e.value)
            if base == NONE:
                raise Raised("AttributeError", e)
            return SET
        if isinstance(e, ast.BinOp):
            l, r = self._eval(e.left), self._eval(e.right)
            if l == NONE or r == NONE:
                raise Raised("TypeError", e)
            return SET
        if isinstance(e, ast.UnaryOp):
            v = self._eval(e.operand)
            if v == NONE and not isinstance(e.op, ast.Not):
                raise Raised("TypeError", e)
            return SET
        if isinstance(e, ast.Call):
            # method call on a value: obj.sum(), obj.astype(float); or np.asarray(x, ...), len(x)
            if isinstance(e.func, ast.Attribute):
                base = self._eval(e.func.value) if not (isinstance(e.func.value, ast.Name) and e.func.value.id in ("np", "numpy")) else SET
                if base == NONE:
                    raise Raised("AttributeError", e)
            for a in e.args:
                v = self._eval(a)
                if v == NONE and isinstance(e.func, ast.Name) and e.func.id == "len":
                    raise Raised("TypeError", e)
            return SET
        if isinstance(e, ast.Subscript):
            base = self._eval(e.value)
            if base == NONE:
                raise Raised("TypeError", e)
            return SET
        if isinstance(e, ast.IfExp):
            return self._eval(e.body) if self._test(e.test) else self._eval(e.orelse)
        if isinstance(e, ast.Tuple):
            return tuple(self._eval(x) for x in e.elts)
        raise AnalysisError(f"expression `{src_of(e)[:60]}` is outside the typestate fragment")
