"""Statement-level control-flow graph, dominators and reachability queries.

Hand-built for exactly the statement kinds the repository uses; an unknown
statement kind is an AnalysisError (fail closed).
"""

from __future__ import annotations

import ast
from typing import Optional

from . import AnalysisError

ENTRY, EXIT, RAISE = 0, 1, 2


class Node:
    __slots__ = ("idx", "stmt", "kind")

    def __init__(self, idx, stmt, kind):
        self.idx = idx
        self.stmt = stmt
        self.kind = kind

    def __repr__(self):
        ln = getattr(self.stmt, "lineno", "-")
        return f"<{self.kind}@{ln}#{self.idx}>"


def may_raise(stmt) -> bool:
    """Conservative: anything that evaluates a call/subscript/attribute/arithmetic may raise."""
    if isinstance(stmt, (ast.Raise, ast.Assert)):
        return True
    for n in ast.walk(stmt) if not isinstance(stmt, (ast.FunctionDef, ast.ClassDef, ast.AsyncFunctionDef)) else []:
        if isinstance(n, (ast.Call, ast.Subscript, ast.Attribute, ast.BinOp, ast.Yield, ast.YieldFrom, ast.Await, ast.Starred)):
            return True
    return False


class CFG:
    def __init__(self, body, name="?"):
        self.name = name
        self.nodes: list[Node] = [Node(0, None, "entry"), Node(1, None, "exit"), Node(2, None, "raise")]
        self.succ: dict[int, list] = {0: [], 1: [], 2: []}
        self.node_of: dict[int, int] = {}  # id(stmt) -> node idx (header node for compound stmts)
        self.handler_entry: dict[int, int] = {}  # id(ExceptHandler) -> idx
        self.with_exit: dict[int, int] = {}
        self.loop_exit_edges = []
        self._build(body)
        self.pred = {i: [] for i in self.succ}
        for a, outs in self.succ.items():
            for b, lab in outs:
                self.pred[b].append((a, lab))
        self._dom = None
        self._pdom = None

    # ----------------------------------------------------------------- build
    def _new(self, stmt, kind):
        n = Node(len(self.nodes), stmt, kind)
        self.nodes.append(n)
        self.succ[n.idx] = []
        if stmt is not None and kind not in ("with_exit", "finally_exc"):
            self.node_of.setdefault(id(stmt), n.idx)
        return n.idx

    def _edge(self, a, b, lab="next"):
        if (b, lab) not in self.succ[a]:
            self.succ[a].append((b, lab))

    def _build(self, body):
        # frontier: list of (node, label) whose next edge is pending
        ctx = {"exc": [RAISE], "break": None, "continue": None, "finally": []}
        out = self._seq(body, [(ENTRY, "next")], ctx)
        for a, lab in out:
            self._edge(a, EXIT, lab)

    def _connect(self, frontier, target):
        for a, lab in frontier:
            self._edge(a, target, lab)

    def _exc_edges(self, idx, ctx):
        for t in ctx["exc"]:
            self._edge(idx, t, "exc")

    def _seq(self, stmts, frontier, ctx):
        for st in stmts:
            if not frontier:
                # unreachable code: still build nodes so that lookups work
                frontier = []
            frontier = self._stmt(st, frontier, ctx)
        return frontier

    def _stmt(self, st, frontier, ctx):
        T = type(st)
        if T in (ast.Assign, ast.AugAssign, ast.AnnAssign, ast.Expr, ast.Pass, ast.Delete, ast.Import,
                 ast.ImportFrom, ast.Global, ast.Nonlocal, ast.Assert, ast.FunctionDef, ast.ClassDef,
                 ast.AsyncFunctionDef):
            n = self._new(st, "stmt")
            self._connect(frontier, n)
            if may_raise(st):
                self._exc_edges(n, ctx)
            return [(n, "next")]
        if T is ast.Return:
            n = self._new(st, "return")
            self._connect(frontier, n)
            if st.value is not None and may_raise(st):
                self._exc_edges(n, ctx)
            tgt = ctx["finally"][-1] if ctx["finally"] else EXIT
            self._edge(n, tgt, "return")
            return []
        if T is ast.Raise:
            n = self._new(st, "raise")
            self._connect(frontier, n)
            self._exc_edges(n, ctx)
            return []
        if T is ast.Break:
            n = self._new(st, "break")
            self._connect(frontier, n)
            if ctx["break"] is None:
                raise AnalysisError(f"break outside loop in {self.name}")
            ctx["break"].append((n, "break"))
            return []
        if T is ast.Continue:
            n = self._new(st, "continue")
            self._connect(frontier, n)
            self._edge(n, ctx["continue"], "continue")
            return []
        if T is ast.If:
            n = self._new(st, "test")
            self._connect(frontier, n)
            if may_raise(st.test):
                self._exc_edges(n, ctx)
            out = self._seq(st.body, [(n, "true")], ctx)
            out += self._seq(st.orelse, [(n, "false")], ctx) if st.orelse else [(n, "false")]
            return out
        if T in (ast.For, ast.AsyncFor):
            n = self._new(st, "loop")
            self._connect(frontier, n)
            self._exc_edges(n, ctx)  # evaluating the iterator / next() may raise
            brk = []
            sub = dict(ctx, **{"break": brk, "continue": n})
            out = self._seq(st.body, [(n, "true")], sub)
            for a, lab in out:
                self._edge(a, n, "back")
            exits = self._seq(st.orelse, [(n, "false")], ctx) if st.orelse else [(n, "false")]
            return exits + brk
        if T is ast.While:
            n = self._new(st, "loop")
            self._connect(frontier, n)
            if may_raise(st.test):
                self._exc_edges(n, ctx)
            brk = []
            sub = dict(ctx, **{"break": brk, "continue": n})
            out = self._seq(st.body, [(n, "true")], sub)
            for a, lab in out:
                self._edge(a, n, "back")
            infinite = isinstance(st.test, ast.Constant) and bool(st.test.value)
            exits = [] if infinite else (self._seq(st.orelse, [(n, "false")], ctx) if st.orelse else [(n, "false")])
            return exits + brk
        if T in (ast.With, ast.AsyncWith):
            n = self._new(st, "with_enter")
            self._connect(frontier, n)
            self._exc_edges(n, ctx)
            x = self._new(st, "with_exit")
            self.with_exit[id(st)] = x
            # exceptions inside the body run __exit__ and then propagate
            xe = self._new(st, "with_exit")
            for t in ctx["exc"]:
                self._edge(xe, t, "exc")
            sub = dict(ctx, exc=[xe], **{"finally": ctx["finally"] + [x]})
            # a return inside the with body passes through the exit node
            out = self._seq(st.body, [(n, "next")], sub)
            self._connect(out, x)
            # x continues normally; if reached by a `return`, flow goes on to the outer return target
            rt = ctx["finally"][-1] if ctx["finally"] else EXIT
            if any(lab == "return" for a in range(len(self.nodes)) for (b, lab) in self.succ.get(a, []) if b == x):
                self._edge(x, rt, "return")
            return [(x, "next")]
        if T is ast.Try or T.__name__ == "TryStar":
            return self._try(st, frontier, ctx)
        if T is ast.Match:
            n = self._new(st, "test")
            self._connect(frontier, n)
            self._exc_edges(n, ctx)
            out = [(n, "false")]
            for c in st.cases:
                out += self._seq(c.body, [(n, "true")], ctx)
            return out
        raise AnalysisError(f"statement kind {T.__name__} not modelled by the CFG builder ({self.name})")

    def _try(self, st, frontier, ctx):
        hentries = []
        for h in st.handlers:
            hn = self._new(h, "handler")
            self.handler_entry[id(h)] = hn
            hentries.append(hn)
        catches_all = any(
            h.type is None or (isinstance(h.type, ast.Name) and h.type.id in ("Exception", "BaseException"))
            for h in st.handlers
        )
        fin_n = fin_x = None
        if st.finalbody:
            # normal-path copy and exceptional-path copy of the finally block share nodes;
            # the block's exit goes both to the continuation and to the outer exception target.
            fin_n = self._new(st, "finally")
        outer_exc = ctx["exc"]
        body_exc = list(hentries)
        if not catches_all:
            body_exc += [fin_n] if fin_n is not None else outer_exc
        sub = dict(ctx, exc=body_exc)
        if fin_n is not None:
            sub["finally"] = ctx["finally"] + [fin_n]
        tn = self._new(st, "try")
        self._connect(frontier, tn)
        out = self._seq(st.body, [(tn, "next")], sub)
        if st.orelse:
            sube = dict(ctx, exc=[fin_n] if fin_n is not None else outer_exc)
            if fin_n is not None:
                sube["finally"] = ctx["finally"] + [fin_n]
            out = self._seq(st.orelse, out, sube)
        hsub = dict(ctx, exc=[fin_n] if fin_n is not None else outer_exc)
        if fin_n is not None:
            hsub["finally"] = ctx["finally"] + [fin_n]
        for h, hn in zip(st.handlers, hentries):
            out += self._seq(h.body, [(hn, "next")], hsub)
        if fin_n is not None:
            self._connect(out, fin_n)
            fout = self._seq(st.finalbody, [(fin_n, "next")], ctx)
            # exceptional continuation after finally
            for a, lab in fout:
                for t in outer_exc:
                    self._edge(a, t, "exc")
                rt = ctx["finally"][-1] if ctx["finally"] else EXIT
                self._edge(a, rt, "return")
            return fout
        return out

    # --------------------------------------------------------------- queries
    def idx(self, stmt) -> int:
        i = self.node_of.get(id(stmt))
        if i is None:
            raise AnalysisError(f"statement at line {getattr(stmt, 'lineno', '?')} has no CFG node in {self.name}")
        return i

    def reachable(self, start=ENTRY, avoid=(), labels_excluded=()):
        avoid = set(avoid)
        seen = set()
        stack = [start]
        while stack:
            a = stack.pop()
            if a in seen or (a in avoid and a != start):
                continue
            seen.add(a)
            for b, lab in self.succ[a]:
                if lab in labels_excluded:
                    continue
                if b not in seen and b not in avoid:
                    stack.append(b)
        return seen

    def dominators(self):
        if self._dom is None:
            self._dom = self._domtree(self.succ, self.pred, ENTRY)
        return self._dom

    def _domtree(self, succ, pred, root):
        reach = set()
        st = [root]
        while st:
            a = st.pop()
            if a in reach:
                continue
            reach.add(a)
            st.extend(b for b, _ in succ[a])
        alln = set(reach)
        dom = {n: set(alln) for n in reach}
        dom[root] = {root}
        changed = True
        order = sorted(reach)
        while changed:
            changed = False
            for n in order:
                if n == root:
                    continue
                ps = [p for p, _ in pred[n] if p in reach]
                if not ps:
                    new = {n}
                else:
                    new = set.intersection(*(dom[p] for p in ps)) | {n}
                if new != dom[n]:
                    dom[n] = new
                    changed = True
        return dom

    def dominates(self, a_stmt, b_stmt) -> bool:
        """Every path from entry to b passes through a."""
        a = a_stmt if isinstance(a_stmt, int) else self.idx(a_stmt)
        b = b_stmt if isinstance(b_stmt, int) else self.idx(b_stmt)
        d = self.dominators()
        return b in d and a in d[b]

    def must_pass(self, targets, through, start=ENTRY) -> bool:
        """Every path from start to any node of ``targets`` passes through a node of ``through``."""
        reach = self.reachable(start, avoid=set(through))
        return not (set(targets) & reach)

    def edge_label_between(self, a, b):
        return [lab for (x, lab) in self.succ[a] if x == b]

    def normal_exit_preds(self):
        return [(a, lab) for a, lab in self.pred[EXIT]]

    def stmts(self):
        return [n for n in self.nodes if n.stmt is not None]


_cache: dict[int, CFG] = {}


def cfg_of(func) -> CFG:
    # cached on the function object itself: a table keyed by id(func) hands out the graph of a dead object when a later
    # program model re-uses the address (battery workers build many models in one process)
    c = getattr(func, "_cfg_cache", None)
    if c is None or c[0] is not func.body:
        c = (func.body, CFG(func.body, func.qualname))
        try:
            func._cfg_cache = c
        except AttributeError:
            key = id(func)
            _cache[key] = c[1]
    return c[1]


def branch_nodes(cfg: CFG, test_stmt, label):
    """Nodes reachable only through the `label` ('true'/'false') edge of an If test node
    (i.e. dominated by that edge)."""
    t = cfg.idx(test_stmt)
    starts = [b for b, lab in cfg.succ[t] if lab == label]
    out = set()
    for s in starts:
        # nodes reachable from s without passing back through t, minus nodes reachable from entry avoiding the edge
        out |= cfg.reachable(s, avoid={t})
    # remove nodes reachable from entry without using this edge
    other = set()
    stack = [ENTRY]
    seen = set()
    while stack:
        a = stack.pop()
        if a in seen:
            continue
        seen.add(a)
        for b, lab in cfg.succ[a]:
            if a == t and lab == label:
                continue
            stack.append(b)
    return out - seen
