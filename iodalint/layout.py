"""E6 -- record layouts: column intervals of written records and constant slices of readers."""

from __future__ import annotations

import ast
import re
from typing import Optional

from .astutil import single_def
from .consteval import ConstEval, NotConstant
from .model import Func, src_of

_SPEC_RE = re.compile(r"^(?:(?P<fill>.)?(?P<align>[<>=^]))?(?P<sign>[-+ ])?(?P<z>z)?(?P<alt>#)?(?P<zero>0)?(?P<width>\d+)?(?P<grouping>[_,])?(?:\.(?P<precision>\d+))?(?P<type>[bcdeEfFgGnosxX%])?$")
_PCT_RE = re.compile(r"%(?P<flags>[-+ #0]*)(?P<width>\d+)?(?:\.(?P<precision>\d+))?(?P<type>[diouxXeEfFgGcrsa%])")


def parse_spec(spec: str) -> Optional[dict]:
    m = _SPEC_RE.match(spec)
    if not m:
        return None
    d = m.groupdict()
    d["width"] = int(d["width"]) if d["width"] else None
    d["precision"] = int(d["precision"]) if d["precision"] else None
    return d


class Seg:
    def __init__(self, kind, width=None, text="", expr=None, spec=None, node=None, parts=None):
        self.kind = kind  # lit | fmt | repeat | unknown
        self.width = width
        self.text = text
        self.expr = expr
        self.spec = spec
        self.node = node
        self.parts = parts or []

    def __repr__(self):
        if self.kind == "lit":
            return f"lit{self.text!r}"
        if self.kind == "fmt":
            return f"fmt({self.expr}:{self.width})"
        if self.kind == "repeat":
            return f"repeat{self.parts}"
        return "unknown"


def segments(func: Func, e, ce: ConstEval, depth=4):
    """Flatten a string-valued expression into layout segments."""
    if isinstance(e, ast.Constant) and isinstance(e.value, str):
        return [Seg("lit", len(e.value), e.value, node=e)]
    if isinstance(e, ast.JoinedStr):
        out = []
        for v in e.values:
            if isinstance(v, ast.Constant):
                out.append(Seg("lit", len(str(v.value)), str(v.value), node=v))
            else:
                spec = ""
                if v.format_spec is None and v.conversion == -1 and isinstance(v.value, ast.Name) and depth > 0:
                    sub = segments(func, v.value, ce, depth - 1)
                    if sub and not (len(sub) == 1 and sub[0].kind == "unknown"):
                        out.extend(sub)
                        continue
                if v.format_spec is not None:
                    try:
                        spec = ce.eval_in_func(func, v.format_spec)
                    except NotConstant:
                        out.append(Seg("unknown", node=v))
                        continue
                ps = parse_spec(spec)
                out.append(Seg("fmt", ps["width"] if ps else None, expr=src_of(v.value), spec=ps, node=v))
        return out
    if isinstance(e, ast.BinOp) and isinstance(e.op, ast.Add):
        return segments(func, e.left, ce, depth) + segments(func, e.right, ce, depth)
    if isinstance(e, ast.BinOp) and isinstance(e.op, ast.Mod) and isinstance(e.left, ast.Constant) and isinstance(e.left.value, str):
        return pct_segments(e.left.value, e.right, e)
    if isinstance(e, ast.Name) and depth > 0:
        d = single_def(func, e.id)
        if d is not None:
            return segments(func, d, ce, depth - 1)
        try:
            val = ce.eval_in_func(func, e)
            if isinstance(val, str):
                return [Seg("lit", len(val), val, node=e)]
        except NotConstant:
            pass
        return [Seg("unknown", node=e)]
    if isinstance(e, ast.Call) and isinstance(e.func, ast.Attribute):
        # "".join(<genexp of string expr>)
        if e.func.attr == "join" and isinstance(e.func.value, ast.Constant) and e.func.value.value == "" and e.args and isinstance(e.args[0], (ast.GeneratorExp, ast.ListComp)):
            inner = segments(func, e.args[0].elt, ce, depth)
            seg = Seg("repeat", None, parts=inner, node=e)
            seg.count = None
            gens = e.args[0].generators
            if len(gens) == 1 and isinstance(gens[0].iter, ast.Subscript) and isinstance(gens[0].iter.slice, ast.Slice):
                sl = gens[0].iter.slice
                if sl.lower is not None and isinstance(sl.upper, ast.BinOp) and isinstance(sl.upper.op, ast.Add) and isinstance(sl.upper.right, ast.Constant) and src_of(sl.upper.left) == src_of(sl.lower):
                    seg.count = sl.upper.right.value
                elif sl.lower is None and isinstance(sl.upper, ast.Constant):
                    seg.count = sl.upper.value
            return [seg]
        # TEMPLATE.format(...)
        if e.func.attr == "format":
            try:
                tmpl = ce.eval_in_func(func, e.func.value)
            except NotConstant:
                tmpl = None
            if isinstance(tmpl, str):
                return brace_segments(tmpl, e)
    return [Seg("unknown", node=e)]


def brace_segments(tmpl: str, call: ast.Call):
    out = []
    pos = 0
    argi = 0
    for m in re.finditer(r"\{([^{}:!]*)(?:![rsa])?(?::([^{}]*))?\}", tmpl):
        if m.start() > pos:
            out.append(Seg("lit", m.start() - pos, tmpl[pos:m.start()], node=call))
        name, spec = m.group(1), m.group(2) or ""
        ps = parse_spec(spec)
        expr = name
        if name == "" and argi < len(call.args):
            expr = src_of(call.args[argi])
            argi += 1
        elif name.isdigit() and int(name) < len(call.args):
            expr = src_of(call.args[int(name)])
        else:
            for k in call.keywords:
                if k.arg == name:
                    expr = src_of(k.value)
        out.append(Seg("fmt", ps["width"] if ps else None, expr=expr, spec=ps, node=call))
        pos = m.end()
    if pos < len(tmpl):
        out.append(Seg("lit", len(tmpl) - pos, tmpl[pos:], node=call))
    return out


def pct_segments(tmpl: str, right, node):
    out = []
    pos = 0
    args = right.elts if isinstance(right, ast.Tuple) else [right]
    argi = 0
    for m in _PCT_RE.finditer(tmpl):
        if m.start() > pos:
            out.append(Seg("lit", m.start() - pos, tmpl[pos:m.start()], node=node))
        if m.group("type") == "%":
            out.append(Seg("lit", 1, "%", node=node))
        else:
            w = int(m.group("width")) if m.group("width") else None
            expr = src_of(args[argi]) if argi < len(args) else "?"
            argi += 1
            out.append(Seg("fmt", w, expr=expr, spec={"width": w, "precision": int(m.group("precision")) if m.group("precision") else None, "type": m.group("type"), "grouping": None, "align": "<" if "-" in (m.group("flags") or "") else None}, node=node))
        pos = m.end()
    if pos < len(tmpl):
        out.append(Seg("lit", len(tmpl) - pos, tmpl[pos:], node=node))
    return out


def intervals(segs):
    """[(start, end, Seg)] for the prefix of the record with static widths; repeat groups are expanded once
    and flagged; returns (fields, complete)."""
    out = []
    pos = 0
    for s in segs:
        if s.kind == "repeat":
            inner, ok = intervals(s.parts)
            if not ok or not inner:
                return out, False
            w = inner[-1][1]
            for k in range(getattr(s, "count", None) or 1):
                for a, b, sg in inner:
                    out.append((pos + k * w + a, pos + k * w + b, sg))
            return out, False  # what follows a repeat group has no static position
        if s.kind == "unknown" or s.width is None:
            return out, False
        out.append((pos, pos + s.width, s))
        pos += s.width
    return out, True


def reader_slices(func: Func, var: str, ce: ConstEval):
    """Constant slices / indices applied to local `var` in func: [(start, end_or_None, node)].

    Slices whose bounds are affine in a loop variable iterating a constant tuple are expanded."""
    out = []
    loopvals = {}
    for n in func.own_nodes():
        if isinstance(n, (ast.For, ast.comprehension)) and isinstance(n.target, ast.Name) and isinstance(n.iter, (ast.Tuple, ast.List)) and all(isinstance(x, ast.Constant) and isinstance(x.value, int) for x in n.iter.elts):
            loopvals[n.target.id] = [x.value for x in n.iter.elts]
        elif isinstance(n, (ast.For, ast.comprehension)) and isinstance(n.target, ast.Name) and isinstance(n.iter, ast.Call) and isinstance(n.iter.func, ast.Name) and n.iter.func.id == "range" and 1 <= len(n.iter.args) <= 3 and all(isinstance(x, ast.Constant) and isinstance(x.value, int) for x in n.iter.args):
            loopvals[n.target.id] = list(range(*[x.value for x in n.iter.args]))

    def ev(e, env):
        if e is None:
            return None
        if isinstance(e, ast.Constant) and isinstance(e.value, int):
            return e.value
        if isinstance(e, ast.Name) and e.id in env:
            return env[e.id]
        if isinstance(e, ast.BinOp) and isinstance(e.op, (ast.Add, ast.Sub, ast.Mult)):
            a, b = ev(e.left, env), ev(e.right, env)
            if a is None or b is None:
                raise ValueError
            return a + b if isinstance(e.op, ast.Add) else (a - b if isinstance(e.op, ast.Sub) else a * b)
        try:
            v = ce.eval_in_func(func, e)
            if isinstance(v, int):
                return v
        except NotConstant:
            pass
        raise ValueError

    for n in func.own_nodes():
        if isinstance(n, ast.Subscript) and isinstance(n.value, ast.Name) and n.value.id == var:
            sl = n.slice
            names = {x.id for x in ast.walk(sl) if isinstance(x, ast.Name)} & set(loopvals)
            envs = [{}]
            for nm in names:
                envs = [dict(e, **{nm: v}) for e in envs for v in loopvals[nm]]
            for env in envs:
                try:
                    if isinstance(sl, ast.Slice):
                        if sl.step is not None:
                            continue
                        a = ev(sl.lower, env) if sl.lower is not None else 0
                        b = ev(sl.upper, env) if sl.upper is not None else None
                        out.append((a, b, n))
                    else:
                        a = ev(sl, env)
                        if a is not None and a >= 0:
                            out.append((a, a + 1, n))
                except ValueError:
                    out.append((None, None, n))
    return out


def grouping_specs(func: Func, ce: ConstEval):
    """Numeric format specs with a grouping option (',' or '_') in func: [(node, spec text, type)]."""
    out = []
    for n in func.own_nodes():
        if isinstance(n, ast.FormattedValue) and n.format_spec is not None:
            try:
                spec = ce.eval_in_func(func, n.format_spec)
            except NotConstant:
                continue
            ps = parse_spec(spec)
            if ps and ps["grouping"]:
                out.append((n, spec, ps["type"] or ""))
        elif isinstance(n, ast.Constant) and isinstance(n.value, str) and "{" in n.value:
            for m in re.finditer(r"\{[^{}:!]*(?:![rsa])?:([^{}]*)\}", n.value):
                ps = parse_spec(m.group(1))
                if ps and ps["grouping"]:
                    out.append((n, m.group(1), ps["type"] or ""))
    return out
