"""Symbolic index-map evaluation of numpy expressions (no execution of repository code).

A reshaping / broadcasting / transposing expression of the repository is evaluated on arrays whose entries are
*symbols* (``a[0,1]``, ``n[2]`` ...) instead of numbers.  The result says, entry by entry, which input entry (or which
product of input entries) lands where -- the index map of the expression -- and that is compared with the map the file
format prescribes or with the inverse map of the sibling reader/writer.  Only whitelisted numpy operations whose
semantics are pure index bookkeeping (plus ring arithmetic on the symbols) are evaluated; anything else raises
``NotSymbolic`` and the rule that asked fails closed.

The evaluator works on the syntax tree of the expression; numpy itself is used only as the implementation of
broadcasting and reshaping over ``dtype=object`` arrays of ``Sym`` values.
"""

from __future__ import annotations

import ast
from fractions import Fraction

import numpy as np


class NotSymbolic(Exception):
    pass


class SymbolicBranch(NotSymbolic):
    """The program asked for the truth value of a symbol: the path taken depends on the data."""


class Sym:
    """A polynomial with rational coefficients over named atoms (commutative)."""

    __slots__ = ("terms",)

    def __init__(self, terms=None):
        # terms: {monomial: coeff}, monomial = tuple(sorted((atom, exponent)))
        self.terms = {m: c for m, c in (terms or {}).items() if c != 0}

    @staticmethod
    def atom(name):
        return Sym({((name, 1),): Fraction(1)})

    @staticmethod
    def const(v):
        if isinstance(v, Sym):
            return v
        if isinstance(v, bool) or not isinstance(v, (int, float, Fraction, np.integer, np.floating)):
            raise NotSymbolic(f"cannot lift {v!r}")
        if isinstance(v, (float, np.floating)):
            if v != v or v in (float("inf"), float("-inf")):
                raise NotSymbolic(f"cannot lift {v!r}")
            return Sym({(): Fraction(float(v))})  # floats are dyadic rationals: exact
        return Sym({(): Fraction(int(v))})

    def __add__(self, o):
        o = Sym.const(o)
        t = dict(self.terms)
        for m, c in o.terms.items():
            t[m] = t.get(m, 0) + c
        return Sym(t)

    __radd__ = __add__

    def __neg__(self):
        return Sym({m: -c for m, c in self.terms.items()})

    def __sub__(self, o):
        return self + (-Sym.const(o))

    def __rsub__(self, o):
        return Sym.const(o) - self

    def __mul__(self, o):
        if isinstance(o, np.ndarray):
            return NotImplemented
        o = Sym.const(o)
        t = {}
        for m1, c1 in self.terms.items():
            for m2, c2 in o.terms.items():
                e = dict(m1)
                for a, k in m2:
                    e[a] = e.get(a, 0) + k
                # sqrt(x)^2 = x for the uninterpreted square root of a single symbol
                for a in [a for a, k in e.items() if a.startswith("sqrt(") and abs(k) >= 2]:
                    fa = OPAQUE_ARGS.get(a)
                    if fa and fa[0] == "sqrt" and len(fa[1].terms) == 1:
                        (mono, coef), = fa[1].terms.items()
                        if coef == 1 and len(mono) == 1 and mono[0][1] == 1:
                            k = e[a]
                            half = int(k / 2) if k > 0 else -int(-k / 2)
                            e[a] = k - 2 * half
                            e[mono[0][0]] = e.get(mono[0][0], 0) + half
                m = tuple(sorted((a, k) for a, k in e.items() if k != 0))
                t[m] = t.get(m, 0) + c1 * c2
        return Sym(t)

    __rmul__ = __mul__

    def __pow__(self, e):
        if isinstance(e, Sym):
            if any(m != () for m in e.terms):
                raise NotSymbolic("symbolic exponent")
            e = e.terms.get((), 0)
        if isinstance(e, float) and float(e).is_integer():
            e = int(e)
        if isinstance(e, Fraction) and e.denominator == 1:
            e = int(e)
        if not isinstance(e, int) or isinstance(e, bool):
            # half-integer power of a single symbol: an integer power of its (uninterpreted) square root
            fe = Fraction(e).limit_denominator(1000) if isinstance(e, (float, Fraction)) else None
            if fe is not None and fe.denominator == 2 and len(self.terms) == 1:
                (mono, coef), = self.terms.items()
                if coef == 1 and len(mono) == 1 and mono[0][1] == 1:
                    return _opaque1("sqrt", self) ** int(fe.numerator)
            raise NotSymbolic(f"non-integer power {e!r}")
        if e < 0:
            return Sym.const(1) / (self ** (-e))
        out = Sym.const(1)
        for _ in range(e):
            out = out * self
        return out

    def __truediv__(self, o):
        o = Sym.const(o)
        if len(o.terms) != 1:
            raise NotSymbolic("division by a sum")
        (m2, c2), = o.terms.items()
        inv = Sym({tuple(sorted((a, -k) for a, k in m2)): Fraction(1) / c2})
        return self * inv

    def __rtruediv__(self, o):
        return Sym.const(o) / self

    def __eq__(self, o):
        try:
            o = Sym.const(o)
        except NotSymbolic:
            return False
        return self.terms == o.terms

    def __hash__(self):
        return hash(tuple(sorted(self.terms.items())))

    def __bool__(self):
        if all(m == () for m in self.terms):
            return bool(self.terms.get((), 0))
        raise SymbolicBranch(f"truth value of the symbolic quantity `{self!r}`")

    def __repr__(self):
        if not self.terms:
            return "0"
        out = []
        for m, c in sorted(self.terms.items()):
            f = "*".join(a if k == 1 else f"{a}^{k}" for a, k in m)
            if not m:
                out.append(str(c))
            elif c == 1:
                out.append(f)
            elif c == -1:
                out.append("-" + f)
            else:
                out.append(f"{c}*{f}")
        return " + ".join(out)


def sym_array(name, shape):
    """Object array whose entries are the atoms name[i,j,...]."""
    a = np.empty(shape, dtype=object)
    for idx in np.ndindex(*shape):
        a[idx] = Sym.atom(f"{name}[{','.join(map(str, idx))}]")
    return a


def same(a, b) -> bool:
    a, b = np.asarray(a, dtype=object), np.asarray(b, dtype=object)
    if a.shape != b.shape:
        return False
    return all(Sym.const(x) == Sym.const(y) for x, y in zip(a.ravel(), b.ravel()))


def first_difference(a, b):
    a, b = np.asarray(a, dtype=object), np.asarray(b, dtype=object)
    if a.shape != b.shape:
        return f"shape {a.shape} instead of {b.shape}"
    for idx in np.ndindex(*a.shape):
        if not (Sym.const(a[idx]) == Sym.const(b[idx])):
            return f"entry {list(idx)} is {a[idx]!r}, expected {b[idx]!r}"
    return None


_NP_FUNCS = {
    "array": lambda x, *a, **k: _arr(x),
    "asarray": lambda x, *a, **k: _arr(x),
    "copy": lambda x, **k: _arr(x).copy(),
    "dot": lambda a, b: np.dot(_arr(a), _arr(b)),
    "matmul": lambda a, b: np.dot(_arr(a), _arr(b)),
    "outer": lambda a, b: np.multiply.outer(_arr(a).ravel(), _arr(b).ravel()),
    "reshape": lambda a, shp, order="C": _arr(a).reshape(shp, order=_order(order)),
    "transpose": lambda a, axes=None: np.transpose(_arr(a), axes),
    "ravel": lambda a, order="C": _arr(a).ravel(order=_order(order)),
    "concatenate": lambda seq, axis=0: np.concatenate([_arr(x) for x in seq], axis=axis),
    "stack": lambda seq, axis=0: np.stack([_arr(x) for x in seq], axis=axis),
    "hstack": lambda seq: np.hstack([x if isinstance(x, np.ndarray) else _arr(x) for x in seq]),
    "vstack": lambda seq: np.vstack([x if isinstance(x, np.ndarray) else _arr(x) for x in seq]),
    "diag": lambda a, k=0: np.diag(_arr(a), k),
    "diagonal": lambda a, offset=0, **k: np.diagonal(_arr(a), offset, **k).copy(),
    "trace": lambda a, offset=0: np.trace(_arr(a), offset),
    "round": lambda a, decimals=0: _round(a, decimals),
    "around": lambda a, decimals=0: _round(a, decimals),
    "rint": lambda a: _round(a, 0),
    "swapaxes": lambda a, i, j: np.swapaxes(_arr(a), i, j),
    "take": lambda a, idx, axis=None: np.take(_arr(a), np.asarray(_index_numbers(idx)), axis=axis),
    "cross": lambda a, b: _cross(_arr(a), _arr(b)),
    "zeros_like": lambda a, **k: _zeros_like(a, **k),
    "empty_like": lambda a, **k: np.full(_arr(a).shape, Sym.atom("<uninitialised>"), dtype=object) if _arr(a).dtype == object else np.full(_arr(a).shape, np.nan),
    "ones_like": lambda a, **k: np.ones(_arr(a).shape),
    "atleast_2d": lambda a: np.atleast_2d(_arr(a)),
    "atleast_1d": lambda a: np.atleast_1d(_arr(a)),
    "ix_": lambda *a: np.ix_(*[np.asarray(x, dtype=int) for x in a]),
    "sqrt": lambda a: _opaque("sqrt", a),
    "exp": lambda a: _opaque("exp", a),
    "abs": lambda a: _opaque("abs", a),
    "absolute": lambda a: _opaque("abs", a),
    "einsum": lambda spec, *ops: _einsum(spec, *[_arr(o) for o in ops]),
}
_METHODS = {
    "reshape": lambda a, *shp, order="C": a.reshape(*shp, order=_order(order)),
    "transpose": lambda a, *axes: a.transpose(*axes),
    "ravel": lambda a, order="C": a.ravel(order=_order(order)),
    "flatten": lambda a, order="C": a.flatten(order=_order(order)),
    "copy": lambda a, **k: a.copy(),
    "astype": lambda a, *x, **k: a,
    "swapaxes": lambda a, i, j: a.swapaxes(i, j),
    "take": lambda a, idx, axis=None: np.take(a, np.asarray(_index_numbers(idx)), axis=axis),
    "dot": lambda a, b: np.dot(a, _arr(b)),
    "tolist": lambda a: a.tolist(),
    "diagonal": lambda a, offset=0, **k: a.diagonal(offset, **k).copy(),
    "trace": lambda a, offset=0: a.trace(offset),
    "prod": lambda a, axis=None: a.prod(axis=axis),
    "nonzero": lambda a: _numeric_only(a, "nonzero").nonzero(),
    "argsort": lambda a, **k: _numeric_only(a, "argsort").argsort(**k),
    "cumsum": lambda a, **k: _numeric_only(a, "cumsum").cumsum(**k),
    "round": lambda a, decimals=0: _round(a, decimals),
}


def _index_numbers(idx):
    """An index array given as numbers (possibly constant Sym entries): plain integers."""
    a = np.asarray(idx, dtype=object) if not (isinstance(idx, np.ndarray) and idx.dtype != object) else idx
    if a.dtype != object:
        return a.astype(int)
    out = np.empty(a.shape, dtype=int)
    for i in np.ndindex(*a.shape):
        v = Sym.const(a[i])
        if any(m != () for m in v.terms):
            raise NotSymbolic("symbolic index")
        out[i] = int(v.terms.get((), 0))
    return out


def _zeros_like(a, dtype=None, **k):
    """np.zeros_like keeps the dtype of its argument (an integer array gives integer zeros, which truncate what is
    stored into them later); symbolic arrays give symbolic zeros."""
    a = a if isinstance(a, np.ndarray) else _arr(a)
    if dtype is not None:
        return np.zeros(a.shape, dtype=dtype)
    if a.dtype == object:
        out = np.empty(a.shape, dtype=object)
        out.fill(Sym.const(0))
        return out
    return np.zeros_like(a)


def _numeric_only(a, what):
    if a.dtype == object:
        raise NotSymbolic(f"{what} of symbolic values")
    return a


def _order(o):
    if o not in ("C", "F"):
        raise NotSymbolic(f"memory-layout dependent order {o!r}")
    return o


def _arr(x):
    if isinstance(x, np.ndarray):
        return x
    if isinstance(x, (list, tuple)):
        return np.array([_arr(e) if isinstance(e, (list, tuple, np.ndarray)) else Sym.const(e) for e in x], dtype=object)
    return np.array(Sym.const(x), dtype=object)


OPAQUE_ARGS = {}  # atom name -> (function name, argument): lets a rule look inside an uninterpreted application


def _opaque1(fname, x):
    x = Sym.const(x)
    name = f"{fname}({x!r})"
    OPAQUE_ARGS[name] = (fname, x)
    return Sym.atom(name)


def _round(a, decimals=0):
    """Rounding: exact on numbers, an uninterpreted application on symbols (equal only to itself)."""
    if isinstance(a, np.ndarray) and a.dtype != object:
        return np.round(a, decimals)
    if isinstance(a, (int, float)) and not isinstance(a, bool):
        return round(a, decimals) if decimals else float(round(a))
    if isinstance(a, Sym) and all(m == () for m in a.terms):
        return Sym.const(round(float(a.terms.get((), 0)), decimals))
    return _opaque("round", a)


def _opaque(fname, a):
    """An uninterpreted function applied entry-wise: equal only to itself applied to an equal argument."""
    if isinstance(a, np.ndarray):
        out = np.empty(a.shape, dtype=object)
        for idx in np.ndindex(*a.shape):
            out[idx] = _opaque1(fname, a[idx])
        return out
    return _opaque1(fname, a)


def _det(a):
    """Determinant of a small square symbolic matrix (Laplace expansion): ring arithmetic only."""
    a = _arr(a)
    if a.ndim != 2 or a.shape[0] != a.shape[1]:
        raise ProgramError("LinAlgError")
    n = a.shape[0]
    if n > 4:
        raise NotSymbolic("determinant of a matrix larger than 4x4")
    if n == 0:
        return Sym.const(1)
    if n == 1:
        return Sym.const(a[0, 0])
    tot = Sym.const(0)
    for j in range(n):
        minor = np.delete(np.delete(a, 0, axis=0), j, axis=1)
        term = Sym.const(a[0, j]) * _det(minor)
        tot = tot + term if j % 2 == 0 else tot - term
    return tot


def _norm(a, **kw):
    """Euclidean / Frobenius norm: the (uninterpreted) square root of the sum of squares."""
    if kw:
        raise NotSymbolic("norm with options")
    a = _arr(a)
    tot = Sym.const(0)
    for x in a.ravel():
        tot = tot + Sym.const(x) * Sym.const(x)
    return _opaque1("sqrt", tot)


class ProgramError(Exception):
    """The evaluated program text would raise (e.g. numpy's LinAlgError for a non-square determinant)."""


def _inv(a):
    """Inverse of a small numeric matrix (numbers only: a symbolic inverse is outside the fragment)."""
    a = a if isinstance(a, np.ndarray) else np.array(a)
    if a.dtype == object:
        try:
            a = np.array([[float(Sym.const(x).terms.get((), 0)) if all(m == () for m in Sym.const(x).terms) else None for x in row] for row in a], dtype=float)
        except TypeError:
            raise NotSymbolic("inverse of a symbolic matrix") from None
        if np.isnan(a).any():
            raise NotSymbolic("inverse of a symbolic matrix")
    if a.ndim != 2 or a.shape[0] != a.shape[1]:
        raise ProgramError("LinAlgError")
    if abs(np.linalg.det(a)) < 1e-300:
        raise ProgramError("LinAlgError")
    return np.linalg.inv(a)


_LINALG_FUNCS = {"det": _det, "norm": _norm, "inv": _inv}


def _einsum(spec, *ops):
    if "->" not in spec or "." in spec:
        raise NotSymbolic("implicit / ellipsis einsum")
    if all(isinstance(o, np.ndarray) and o.dtype != object for o in ops):
        try:
            return np.einsum(spec, *ops)  # plain numbers: numpy's own contraction
        except ValueError as exc:
            raise ProgramError("ValueError") from exc
    ins, outs = spec.replace(" ", "").split("->")
    ins = ins.split(",")
    if len(ins) != len(ops):
        raise NotSymbolic("einsum arity")
    dims = {}
    for sub, op in zip(ins, ops):
        if len(sub) != op.ndim:
            raise NotSymbolic("einsum subscripts")
        for ch, n in zip(sub, op.shape):
            if dims.setdefault(ch, n) != n:
                raise NotSymbolic("einsum dimension mismatch")
    letters = sorted(dims)
    res = np.empty([dims[c] for c in outs], dtype=object)
    for idx in np.ndindex(*res.shape) if outs else [()]:
        res[idx] = Sym.const(0)
    import itertools

    for combo in itertools.product(*[range(dims[c]) for c in letters]):
        pos = dict(zip(letters, combo))
        term = Sym.const(1)
        for sub, op in zip(ins, ops):
            term = term * Sym.const(op[tuple(pos[c] for c in sub)])
        oi = tuple(pos[c] for c in outs)
        res[oi] = res[oi] + term
    return res if outs else res[()]


def _cross(a, b):
    if a.shape != (3,) or b.shape != (3,):
        raise NotSymbolic("cross of non 3-vectors")
    return np.array([a[1] * b[2] - a[2] * b[1], a[2] * b[0] - a[0] * b[2], a[0] * b[1] - a[1] * b[0]], dtype=object)


class SymEval:
    """Evaluate an expression tree on symbolic arrays.

    env: name -> value (object ndarray, Sym, int, list...).  `resolve(name)` is asked for names missing from env and
    may return a value or raise NotSymbolic.  `np_names`: names bound to the numpy module in the analysed module.
    """

    def __init__(self, env, resolve=None, np_names=("np", "numpy")):
        self.env = dict(env)
        self.resolve = resolve
        self.np_names = set(np_names)

    def eval(self, n):
        m = getattr(self, "e_" + type(n).__name__, None)
        if m is None:
            raise NotSymbolic(f"expression kind {type(n).__name__}")
        return m(n)

    def e_Constant(self, n):
        return n.value

    def e_Name(self, n):
        if n.id in self.env:
            return self.env[n.id]
        if n.id in ("int", "float"):
            return n.id
        if self.resolve is not None:
            v = self.resolve(n.id)
            self.env[n.id] = v
            return v
        raise NotSymbolic(f"free name {n.id}")

    def e_Tuple(self, n):
        return tuple(self.eval(e) for e in n.elts)

    def e_List(self, n):
        return [self.eval(e) for e in n.elts]

    def e_UnaryOp(self, n):
        v = self.eval(n.operand)
        if isinstance(n.op, ast.USub):
            return -v
        if isinstance(n.op, ast.UAdd):
            return v
        raise NotSymbolic("unary operator")

    def e_BinOp(self, n):
        a, b = self.eval(n.left), self.eval(n.right)
        if isinstance(a, (list, tuple)) or isinstance(b, (list, tuple)):
            if isinstance(n.op, ast.Add) and type(a) is type(b):
                return a + b
            if isinstance(n.op, ast.Mult) and (isinstance(a, int) or isinstance(b, int)):
                return a * b
            raise NotSymbolic("list arithmetic")
        def _plain(v):
            return (isinstance(v, (int, float, np.number)) and not isinstance(v, bool)) or (isinstance(v, np.ndarray) and v.dtype != object)

        if _plain(a) and _plain(b) and (isinstance(a, (float, np.floating, np.ndarray)) or isinstance(b, (float, np.floating, np.ndarray))) and isinstance(n.op, (ast.Pow, ast.Mod, ast.FloorDiv)):
            # purely numeric operands (no symbol involved): ordinary floating-point arithmetic
            import operator as _op

            return {ast.Pow: _op.pow, ast.Mod: _op.mod, ast.FloorDiv: _op.floordiv}[type(n.op)](a, b)
        lift = lambda v: v if isinstance(v, (np.ndarray, Sym)) else (v if isinstance(v, int) and not isinstance(v, bool) else Sym.const(v))
        a, b = lift(a), lift(b)
        if isinstance(n.op, ast.Add):
            return a + b
        if isinstance(n.op, ast.Sub):
            return a - b
        if isinstance(n.op, ast.Mult):
            return a * b
        if isinstance(n.op, ast.Div):
            if isinstance(a, int) and isinstance(b, int):
                return Sym.const(a) / Sym.const(b)
            if isinstance(b, int):
                b = Sym.const(b)
            if isinstance(a, int):
                a = Sym.const(a)
            return a / b
        if isinstance(n.op, ast.FloorDiv) and isinstance(a, int) and isinstance(b, int):
            return a // b
        if isinstance(n.op, ast.Mod) and isinstance(a, int) and isinstance(b, int):
            return a % b
        if isinstance(n.op, ast.MatMult):
            return np.dot(_arr(a), _arr(b))
        if isinstance(n.op, ast.Pow):
            if isinstance(a, int) and isinstance(b, int) and b >= 0:
                return a ** b
            if isinstance(a, np.ndarray):
                out = np.empty(a.shape, dtype=object)
                for idx in np.ndindex(*a.shape):
                    out[idx] = Sym.const(a[idx]) ** b
                return out
            return Sym.const(a) ** b
        raise NotSymbolic(f"operator {type(n.op).__name__}")

    def e_Attribute(self, n):
        if isinstance(n.value, ast.Name) and n.value.id in self.np_names:
            if n.attr == "newaxis":
                return None
            if n.attr in ("pi", "e"):
                return {"pi": float(np.pi), "e": float(np.e)}[n.attr]  # numeric constants (symbolic callers bind their own atom)
            if n.attr in ("float32", "float64", "int32", "int64", "float16", "uint8", "bool_", "str_", "nan", "inf"):
                return getattr(np, n.attr)  # dtype objects (only ever passed on as dtype arguments)
            raise NotSymbolic(f"numpy attribute {n.attr} used as a value")
        v = self.eval(n.value)
        if isinstance(v, np.ndarray):
            if n.attr == "T":
                return v.T
            if n.attr == "shape":
                return v.shape
            if n.attr == "size":
                return v.size
            if n.attr == "ndim":
                return v.ndim
            if n.attr == "flat":
                return v.ravel(order="C")
        if isinstance(v, dict) and n.attr in v:
            return v[n.attr]
        raise NotSymbolic(f"attribute {n.attr}")

    def e_Subscript(self, n):
        return self._subscript(self.eval(n.value), n)

    def _subscript(self, v, n):
        """Subscript of an already evaluated base (the base expression may have side effects: evaluate it once)."""
        idx = self._index(n.slice)
        if isinstance(v, dict):
            return v[idx]
        if isinstance(v, (list, tuple)):
            return v[idx]
        if isinstance(v, np.ndarray):
            return v[idx]
        raise NotSymbolic("subscript of a scalar")

    def _index(self, s):
        if isinstance(s, ast.Slice):
            return slice(*(self.eval(x) if x is not None else None for x in (s.lower, s.upper, s.step)))
        if isinstance(s, ast.Tuple):
            return tuple(self._index(e) for e in s.elts)
        v = self.eval(s)
        if isinstance(v, np.ndarray):
            if v.dtype == object:
                try:
                    v = np.array([int(Sym.const(x).terms.get((), None)) if all(m == () for m in Sym.const(x).terms) else None for x in v.ravel()]).reshape(v.shape)
                except (TypeError, ValueError):
                    raise NotSymbolic("fancy index with a symbolic array") from None
                if v.dtype == object:
                    raise NotSymbolic("fancy index with a symbolic array")
            elif v.dtype.kind not in "iub":
                raise NotSymbolic("fancy index with a non-integer array")
        return v

    def e_Call(self, n):
        # a subclass that has already evaluated the arguments (they may have side effects: `next(lit)`, `d.pop(k)`)
        # hands them over instead of having them evaluated a second time
        pre = self.__dict__.pop("_preargs", None)
        if pre is not None and pre[0] is n:
            pre_args, kwargs = list(pre[1]), dict(pre[2])
        else:
            pre_args = None
            kwargs = {k.arg: self.eval(k.value) for k in n.keywords if k.arg is not None}
        if any(k.arg is None for k in n.keywords):
            raise NotSymbolic("**kwargs")
        f = n.func
        if (
            isinstance(f, ast.Attribute)
            and isinstance(f.value, ast.Attribute)
            and f.value.attr == "linalg"
            and isinstance(f.value.value, ast.Name)
            and f.value.value.id in self.np_names
        ):
            fn = _LINALG_FUNCS.get(f.attr)
            if fn is None:
                raise NotSymbolic(f"numpy.linalg function {f.attr}")
            return fn(*[self.eval(a) for a in n.args], **kwargs)
        if isinstance(f, ast.Attribute) and isinstance(f.value, ast.Name) and f.value.id in self.np_names:
            fn = _NP_FUNCS.get(f.attr)
            if fn is None and f.attr in ("seterr", "set_printoptions", "errstate"):
                # settings of the numerical library: no effect on any value followed here (the effect on process-wide
                # state is C16's business, decided there from the call itself)
                return None
            if fn is None:
                raise NotSymbolic(f"numpy function {f.attr}")
            args = pre_args if pre_args is not None else [self.eval(a) for a in n.args]
            kwargs.pop("dtype", None)
            if f.attr in ("array", "asarray") and len(args) > 1:
                args = args[:1]
            return fn(*args, **kwargs)
        if isinstance(f, ast.Attribute):
            # a subclass that has already evaluated the receiver (it may have side effects) hands it over
            base = self.__dict__.pop("_receiver", None) if "_receiver" in self.__dict__ else self.eval(f.value)
            if isinstance(base, np.ndarray):
                fn = _METHODS.get(f.attr)
                if fn is None:
                    raise NotSymbolic(f"array method {f.attr}")
                return fn(base, *[self.eval(a) for a in n.args], **kwargs)
            raise NotSymbolic(f"method {f.attr} on a non-array")
        if isinstance(f, ast.Name):
            if f.id in ("float", "int") and len(n.args) == 1:
                return self.eval(n.args[0])
            if f.id == "list" and len(n.args) == 1:
                v = self.eval(n.args[0])
                return list(v) if not isinstance(v, np.ndarray) else list(v)
            if f.id == "abs" and len(n.args) == 1:
                return _opaque("abs", self.eval(n.args[0]))
            if f.id == "len" and len(n.args) == 1:
                return len(self.eval(n.args[0]))
            if f.id == "range":
                return list(range(*[self.eval(a) for a in n.args]))
        raise NotSymbolic(f"call of {ast.unparse(f)}")

    def e_ListComp(self, n):
        if len(n.generators) != 1 or n.generators[0].ifs:
            raise NotSymbolic("comprehension shape")
        g = n.generators[0]
        it = self.eval(g.iter)
        out = []
        for item in list(it):
            sub = SymEval(self.env, self.resolve, self.np_names)
            sub._bind(g.target, item)
            out.append(sub.eval(n.elt))
        return out

    def _bind(self, target, value):
        if isinstance(target, ast.Name):
            self.env[target.id] = value
        elif isinstance(target, (ast.Tuple, ast.List)):
            vals = list(value)
            if len(vals) != len(target.elts):
                raise NotSymbolic("unpacking arity")
            for t, v in zip(target.elts, vals):
                self._bind(t, v)
        else:
            raise NotSymbolic("assignment target")
