"""Small AST helpers shared by the rules."""

from __future__ import annotations

import ast
from typing import Optional

from .model import Func


def bind_call(call: ast.Call, func: Func, skip_self=False):
    """Bind the arguments of ``call`` to the parameters of ``func``.

    Returns (bound: dict param -> expr, extra_kwargs: dict, ok: bool).
    ``ok`` is False when *args/**kwargs in the call prevent an exact binding.
    """
    pos = list(func.posparams)
    if skip_self and pos and pos[0] in ("self", "cls"):
        pos = pos[1:]
    bound, extra = {}, {}
    ok = True
    i = 0
    for a in call.args:
        if isinstance(a, ast.Starred):
            ok = False
            continue
        if i < len(pos):
            bound[pos[i]] = a
        elif func.vararg:
            bound.setdefault("*" + func.vararg, []).append(a)
        else:
            ok = False
        i += 1
    for kw in call.keywords:
        if kw.arg is None:
            extra["**"] = kw.value
            continue
        if kw.arg in pos or kw.arg in func.kwonly:
            if kw.arg in bound:
                ok = False
            bound[kw.arg] = kw.value
        else:
            extra[kw.arg] = kw.value
    return bound, extra, ok


def assignments_to(func: Func, name: str):
    """All value expressions assigned to local ``name`` in ``func`` (own scope).

    Each item is (stmt, value_expr, index) where index is the tuple position for
    unpacking assignments (else None).  For/with/except/comprehension bindings are
    returned with value None.
    """
    out = []
    for n in func.own_nodes():
        if isinstance(n, ast.Assign):
            for t in n.targets:
                _collect_target(t, name, n, n.value, out)
        elif isinstance(n, ast.AnnAssign) and n.value is not None:
            _collect_target(n.target, name, n, n.value, out)
        elif isinstance(n, ast.AugAssign):
            if isinstance(n.target, ast.Name) and n.target.id == name:
                out.append((n, None, "aug"))
        elif isinstance(n, (ast.For, ast.comprehension)):
            if _binds(n.target, name):
                out.append((n, None, "iter"))
        elif isinstance(n, ast.With):
            for it in n.items:
                if it.optional_vars is not None and _binds(it.optional_vars, name):
                    out.append((n, it.context_expr, "with"))
        elif isinstance(n, ast.ExceptHandler) and n.name == name:
            out.append((n, None, "except"))
        elif isinstance(n, ast.NamedExpr) and n.target.id == name:
            out.append((n, n.value, None))
    return out


def _binds(target, name):
    if isinstance(target, ast.Name):
        return target.id == name
    if isinstance(target, (ast.Tuple, ast.List)):
        return any(_binds(e, name) for e in target.elts)
    if isinstance(target, ast.Starred):
        return _binds(target.value, name)
    return False


def _collect_target(t, name, stmt, value, out):
    if isinstance(t, ast.Name):
        if t.id == name:
            out.append((stmt, value, None))
    elif isinstance(t, (ast.Tuple, ast.List)):
        for i, e in enumerate(t.elts):
            if isinstance(e, ast.Name) and e.id == name:
                out.append((stmt, value, i))
            elif isinstance(e, (ast.Tuple, ast.List)) and _binds(e, name):
                out.append((stmt, value, ("nested", i)))


def single_def(func: Func, name: str) -> Optional[ast.AST]:
    """The unique plain assignment ``name = expr`` in func, else None."""
    if name in func.params:
        return None
    defs = assignments_to(func, name)
    if len(defs) == 1 and defs[0][2] is None and defs[0][1] is not None:
        return defs[0][1]
    return None


def deref(func: Func, expr, depth=4):
    """Follow single-definition local names to the defining expression."""
    while depth > 0 and isinstance(expr, ast.Name) and expr.id in func.locals:
        d = single_def(func, expr.id)
        if d is None:
            break
        expr = d
        depth -= 1
    return expr


def names_in(node) -> set[str]:
    return {n.id for n in ast.walk(node) if isinstance(n, ast.Name)}


def is_const(node, value=None) -> bool:
    if not isinstance(node, ast.Constant):
        return False
    return value is None or node.value == value


def attr_chain(node) -> Optional[list[str]]:
    """['data', 'mo', 'coeffs'] for data.mo.coeffs, else None."""
    parts = []
    while isinstance(node, ast.Attribute):
        parts.append(node.attr)
        node = node.value
    if isinstance(node, ast.Name):
        parts.append(node.id)
        return list(reversed(parts))
    return None


def call_name(call: ast.Call) -> Optional[str]:
    f = call.func
    if isinstance(f, ast.Name):
        return f.id
    if isinstance(f, ast.Attribute):
        return f.attr
    return None


def raises_class(stmt: ast.Raise) -> Optional[str]:
    """Name of the exception class raised by ``raise X(...)`` / ``raise X``."""
    e = stmt.exc
    if e is None:
        return None
    if isinstance(e, ast.Call):
        e = e.func
    if isinstance(e, ast.Name):
        return e.id
    if isinstance(e, ast.Attribute):
        return e.attr
    return None


def walk_stmts(stmts):
    """Yield every statement (recursively) in a statement list, not entering defs."""
    for st in stmts:
        yield st
        for fld in ("body", "orelse", "finalbody"):
            sub = getattr(st, fld, None)
            if sub and not isinstance(st, (ast.FunctionDef, ast.AsyncFunctionDef, ast.ClassDef, ast.Lambda)):
                if isinstance(sub, list):
                    yield from walk_stmts(sub)
        for h in getattr(st, "handlers", []) or []:
            yield from walk_stmts(h.body)
        if isinstance(st, ast.Match):
            for c in st.cases:
                yield from walk_stmts(c.body)


def straightline_def(func: Func, name: str, before_stmt) -> Optional[ast.AST]:
    """Value of the last top-level ``name = expr`` before ``before_stmt`` in func's body.

    Only used for small straight-line helpers; returns None when the name is
    (re)bound inside a compound statement before ``before_stmt``.
    """
    last = None
    for st in func.body:
        if st is before_stmt:
            break
        if isinstance(st, ast.Assign):
            for t in st.targets:
                if isinstance(t, ast.Name) and t.id == name:
                    last = st.value
                elif isinstance(t, (ast.Tuple, ast.List)):
                    for i, e in enumerate(t.elts):
                        if isinstance(e, ast.Name) and e.id == name:
                            last = ("unpack", st.value, i)
        elif isinstance(st, (ast.If, ast.For, ast.While, ast.Try, ast.With)):
            for sub in walk_stmts([st]):
                if isinstance(sub, (ast.Assign, ast.AugAssign, ast.AnnAssign)):
                    tg = sub.targets if isinstance(sub, ast.Assign) else [sub.target]
                    if any(_binds(t, name) for t in tg):
                        last = None
    return last


def unpacked_pair(func, call_node, parents):
    """Names that receive the two results of `call_node`: `a, b = call(...)`, or `t = call(...)` followed by
    `a, b = t` (t bound once).  None when the pair is not bound to two names."""
    import ast as _ast

    par = parents.get(id(call_node))
    two = lambda t: isinstance(t, _ast.Tuple) and len(t.elts) == 2 and all(isinstance(x, _ast.Name) for x in t.elts)
    if isinstance(par, _ast.Assign) and len(par.targets) == 1 and two(par.targets[0]):
        return tuple(x.id for x in par.targets[0].elts)
    if isinstance(par, _ast.Assign) and len(par.targets) == 1 and isinstance(par.targets[0], _ast.Name):
        tmp = par.targets[0].id
        defs = [n for n in func.own_nodes() if isinstance(n, _ast.Assign) and any(isinstance(t, _ast.Name) and t.id == tmp for t in n.targets)]
        if len(defs) != 1:
            return None
        for n in func.own_nodes():
            if isinstance(n, _ast.Assign) and len(n.targets) == 1 and two(n.targets[0]) and isinstance(n.value, _ast.Name) and n.value.id == tmp:
                return tuple(x.id for x in n.targets[0].elts)
    return None
