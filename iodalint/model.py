"""E1 -- program model: modules, bindings, functions, classes, registry, call graph.

Everything is derived from the source text of the tree under analysis
(``root``), optionally with an in-memory overlay ``{relpath: source}`` used by
the sensitivity battery.  Nothing is imported or executed.
"""

from __future__ import annotations

import ast
import hashlib
import os
from dataclasses import dataclass, field
from typing import Optional

from . import AnalysisError

PKG = "iodata"
EXTRA_FILES = ("docs/gen_formats.py", "docs/gen_formats_tab.py", "docs/gen_inputs.py")


@dataclass
class Binding:
    """A module-level (or class-level) name binding."""

    kind: str  # func | class | assign | import_mod | import_from
    name: str
    stmt: ast.AST
    value: Optional[ast.AST] = None  # for assign: the value expression
    index: Optional[int] = None  # for tuple-unpacking assign: element index
    target_mod: Optional[str] = None  # for imports: dotted module
    target_name: Optional[str] = None  # for import_from: imported name
    all_values: list = field(default_factory=list)  # every value assigned to the name


class Func:
    """A function, method, nested function or lambda."""

    def __init__(self, node, module, parent, cls, qualname):
        self.node = node
        self.module = module
        self.parent = parent
        self.cls = cls
        self.qualname = qualname
        self.name = getattr(node, "name", "<lambda>")
        a = node.args
        self.posparams = [x.arg for x in a.posonlyargs + a.args]
        self.kwonly = [x.arg for x in a.kwonlyargs]
        self.vararg = a.vararg.arg if a.vararg else None
        self.kwarg = a.kwarg.arg if a.kwarg else None
        self.params = (
            self.posparams
            + self.kwonly
            + ([self.vararg] if self.vararg else [])
            + ([self.kwarg] if self.kwarg else [])
        )
        self.nested: dict[str, Func] = {}
        self.locals: set[str] = set(self.params)
        self.globals_decl: set[str] = set()
        self.nonlocals_decl: set[str] = set()
        self.is_generator = False
        self.decorators = getattr(node, "decorator_list", [])
        self.calls: list[CallSite] = []
        self.property_kind: Optional[str] = None  # getter | setter
        self.local_imports: dict[str, str] = {}  # local name -> dotted external module / object
        self._own_nodes = None

    @property
    def body(self):
        if isinstance(self.node, ast.Lambda):
            return [ast.Return(value=self.node.body, lineno=self.node.lineno, col_offset=0)]
        return self.node.body

    @property
    def lineno(self):
        return self.node.lineno

    @property
    def where(self):
        return f"{self.module.relpath}:{self.node.lineno}"

    def own_nodes(self):
        """All AST nodes of the body, not descending into nested defs/lambdas/classes."""
        if self._own_nodes is None:
            out = []
            stack = list(reversed(self.body))
            while stack:
                n = stack.pop()
                out.append(n)
                if isinstance(n, (ast.FunctionDef, ast.AsyncFunctionDef, ast.ClassDef, ast.Lambda)):
                    # nested scope: only decorators and argument defaults are evaluated here
                    if not isinstance(n, ast.Lambda):
                        for d in reversed(n.decorator_list):
                            stack.append(d)
                    if not isinstance(n, ast.ClassDef):
                        for d in reversed(n.args.defaults + [x for x in n.args.kw_defaults if x is not None]):
                            stack.append(d)
                    continue
                for c in reversed(list(ast.iter_child_nodes(n))):
                    stack.append(c)
            self._own_nodes = out
        return self._own_nodes

    def default_of(self, pname):
        a = self.node.args
        pos = a.posonlyargs + a.args
        nd = len(a.defaults)
        for i, p in enumerate(pos):
            if p.arg == pname:
                j = i - (len(pos) - nd)
                return a.defaults[j] if j >= 0 else None
        for p, d in zip(a.kwonlyargs, a.kw_defaults):
            if p.arg == pname:
                return d
        return None

    def __repr__(self):
        return f"<Func {self.qualname}>"


class ClassInfo:
    def __init__(self, node, module, qualname):
        self.node = node
        self.module = module
        self.qualname = qualname
        self.name = node.name
        self.methods: dict[str, Func] = {}
        self.getters: dict[str, Func] = {}
        self.setters: dict[str, Func] = {}
        self.fields: dict[str, ast.AST] = {}  # annotated class-level fields -> stmt
        self.bases = node.bases

    def __repr__(self):
        return f"<Class {self.qualname}>"


@dataclass
class CallSite:
    node: ast.Call
    caller: Func
    callees: list  # list[Func] (resolved package functions)
    external: Optional[str] = None  # dotted name of an external callee
    method: Optional[str] = None  # unresolved method name on a value
    cls: Optional[ClassInfo] = None  # constructor call of a package class
    registry_op: Optional[str] = None  # format_module.<op>(...)

    @property
    def resolved(self):
        return bool(self.callees or self.external or self.cls or self.method)


class Module:
    def __init__(self, name, relpath, src):
        self.name = name
        self.relpath = relpath
        self.src = src
        try:
            self.tree = ast.parse(src, filename=relpath)
        except SyntaxError as exc:
            raise AnalysisError(f"cannot parse {relpath}: {exc}") from exc
        self.bindings: dict[str, Binding] = {}
        self.funcs: list[Func] = []
        self.classes: dict[str, ClassInfo] = {}
        self.is_pkg = relpath.endswith("__init__.py")
        self.lines = src.splitlines()
        # module-level code as a pseudo function
        self.toplevel: Optional[Func] = None

    @property
    def short(self):
        return self.name.rsplit(".", 1)[-1]

    def __repr__(self):
        return f"<Module {self.name}>"


def _assigned_names(target, out):
    if isinstance(target, ast.Name):
        out.add(target.id)
    elif isinstance(target, (ast.Tuple, ast.List)):
        for e in target.elts:
            _assigned_names(e, out)
    elif isinstance(target, ast.Starred):
        _assigned_names(target.value, out)


class _ToplevelNode:
    """Pseudo FunctionDef wrapping module-level statements."""

    def __init__(self, tree):
        self.body = tree.body
        self.lineno = 1
        self.name = "<module>"
        self.decorator_list = []
        self.args = ast.arguments(
            posonlyargs=[], args=[], kwonlyargs=[], kw_defaults=[], defaults=[], vararg=None, kwarg=None
        )


class Program:
    """The package under analysis."""

    def __init__(self, root="/repo", overlay=None):
        self.root = root
        self.overlay = overlay or {}
        self.modules: dict[str, Module] = {}
        self.funcs: dict[str, Func] = {}
        self.classes: dict[str, ClassInfo] = {}
        self.func_of_node: dict[int, Func] = {}
        self.digest = None
        self._load()
        self._collect()
        self._registry = None
        self._callgraph_done = False
        self.parent_map_cache: dict[str, dict] = {}

    # ------------------------------------------------------------------ loading
    def _read(self, relpath):
        if relpath in self.overlay:
            return self.overlay[relpath]
        with open(os.path.join(self.root, relpath), encoding="utf-8") as fh:
            return fh.read()

    def _load(self):
        h = hashlib.sha256()
        pkgdir = os.path.join(self.root, PKG)
        if not os.path.isdir(pkgdir):
            raise AnalysisError(f"package directory {pkgdir} not found")
        rels = []
        for dirpath, dirnames, filenames in os.walk(pkgdir):
            dirnames[:] = sorted(d for d in dirnames if d not in ("test", "__pycache__"))
            for fn in sorted(filenames):
                if fn.endswith(".py"):
                    rels.append(os.path.relpath(os.path.join(dirpath, fn), self.root))
        for rel in self.overlay:
            if rel.startswith(PKG + "/") and rel not in rels and "/test/" not in rel:
                rels.append(rel)
        for rel in sorted(rels):
            src = self._read(rel)
            h.update(rel.encode() + b"\0" + src.encode() + b"\0")
            dotted = rel[:-3].replace("/", ".")
            if dotted.endswith(".__init__"):
                dotted = dotted[: -len(".__init__")]
            self.modules[dotted] = Module(dotted, rel, src)
        for rel in EXTRA_FILES:
            p = os.path.join(self.root, rel)
            if os.path.exists(p) or rel in self.overlay:
                src = self._read(rel)
                h.update(rel.encode() + b"\0" + src.encode() + b"\0")
                dotted = rel[:-3].replace("/", ".")
                self.modules[dotted] = Module(dotted, rel, src)
        self.digest = h.hexdigest()

    # ------------------------------------------------------------- collection
    def _collect(self):
        for mod in self.modules.values():
            self._collect_module(mod)

    def _abs_import(self, mod: Module, level: int, name: Optional[str]) -> str:
        if level == 0:
            return name or ""
        parts = mod.name.split(".")
        if not mod.is_pkg:
            parts = parts[:-1]
        if level > 1:
            parts = parts[: len(parts) - (level - 1)]
        if name:
            parts = parts + name.split(".")
        return ".".join(parts)

    def _collect_bindings(self, mod, stmts, bindings):
        for st in stmts:
            if isinstance(st, (ast.FunctionDef, ast.AsyncFunctionDef)):
                bindings[st.name] = Binding("func", st.name, st)
            elif isinstance(st, ast.ClassDef):
                bindings[st.name] = Binding("class", st.name, st)
            elif isinstance(st, ast.Import):
                for al in st.names:
                    nm = al.asname or al.name.split(".")[0]
                    tgt = al.name if al.asname else al.name.split(".")[0]
                    bindings[nm] = Binding("import_mod", nm, st, target_mod=tgt)
            elif isinstance(st, ast.ImportFrom):
                base = self._abs_import(mod, st.level, st.module)
                for al in st.names:
                    nm = al.asname or al.name
                    bindings[nm] = Binding(
                        "import_from", nm, st, target_mod=base, target_name=al.name
                    )
            elif isinstance(st, ast.Assign):
                for tg in st.targets:
                    self._bind_target(bindings, tg, st.value, st)
            elif isinstance(st, ast.AnnAssign):
                if st.value is not None:
                    self._bind_target(bindings, st.target, st.value, st)
            elif isinstance(st, ast.AugAssign):
                if isinstance(st.target, ast.Name) and st.target.id in bindings:
                    bindings[st.target.id].all_values.append(st)
            elif isinstance(st, (ast.If, ast.Try)):
                # module-level conditional definitions (try: import ... except ImportError)
                for blk in ("body", "orelse", "finalbody"):
                    self._collect_bindings(mod, getattr(st, blk, []), bindings)
                for hd in getattr(st, "handlers", []):
                    self._collect_bindings(mod, hd.body, bindings)
            elif isinstance(st, (ast.For, ast.While, ast.With)):
                self._collect_bindings(mod, st.body, bindings)

    @staticmethod
    def _bind_target(bindings, tg, value, st):
        if isinstance(tg, ast.Name):
            b = Binding("assign", tg.id, st, value=value)
            if tg.id in bindings and bindings[tg.id].kind == "assign":
                b.all_values = bindings[tg.id].all_values
            b.all_values.append(value)
            bindings[tg.id] = b
        elif isinstance(tg, (ast.Tuple, ast.List)):
            for i, e in enumerate(tg.elts):
                if isinstance(e, ast.Name):
                    b = Binding("assign", e.id, st, value=value, index=i)
                    b.all_values.append((value, i))
                    bindings[e.id] = b

    def _collect_module(self, mod: Module):
        self._collect_bindings(mod, mod.tree.body, mod.bindings)
        top = Func(_ToplevelNode(mod.tree), mod, None, None, mod.name + ".<module>")
        mod.toplevel = top
        self._scan_scope(top, mod.tree.body, mod, None, mod.name)
        top.locals = set()  # module-level names are globals, not locals

    def _new_func(self, node, mod, parent, cls, prefix):
        name = getattr(node, "name", f"<lambda@{node.lineno}:{node.col_offset}>")
        qual = f"{prefix}.{name}"
        base = qual
        k = 2
        while qual in self.funcs:  # property getter/setter share a name
            qual = f"{base}#{k}"
            k += 1
        f = Func(node, mod, parent, cls, qual)
        self.funcs[qual] = f
        self.func_of_node[id(node)] = f
        mod.funcs.append(f)
        return f

    def _scan_scope(self, owner: Func, stmts, mod, cls, prefix):
        """Find nested functions/classes/lambdas, locals and generator-ness of ``owner``."""

        def visit(n, in_owner=True):
            if isinstance(n, (ast.FunctionDef, ast.AsyncFunctionDef)):
                f = self._new_func(n, mod, owner if owner.name != "<module>" else None, None, prefix)
                owner.nested[n.name] = f
                owner.locals.add(n.name)
                for d in n.decorator_list:
                    visit(d)
                for d in n.args.defaults + [x for x in n.args.kw_defaults if x is not None]:
                    visit(d)
                self._scan_scope(f, n.body, mod, None, f.qualname)
                return
            if isinstance(n, ast.Lambda):
                f = self._new_func(n, mod, owner if owner.name != "<module>" else None, None, prefix)
                self._scan_scope(f, [n.body], mod, None, f.qualname)
                return
            if isinstance(n, ast.ClassDef):
                owner.locals.add(n.name)
                self._collect_class(n, mod, prefix)
                return
            if isinstance(n, (ast.Yield, ast.YieldFrom)):
                owner.is_generator = True
            if isinstance(n, ast.Global):
                owner.globals_decl.update(n.names)
            if isinstance(n, ast.Nonlocal):
                owner.nonlocals_decl.update(n.names)
            if isinstance(n, ast.Assign):
                for t in n.targets:
                    _assigned_names(t, owner.locals)
            elif isinstance(n, (ast.AugAssign, ast.AnnAssign)):
                _assigned_names(n.target, owner.locals)
            elif isinstance(n, (ast.For, ast.AsyncFor)):
                _assigned_names(n.target, owner.locals)
            elif isinstance(n, ast.comprehension):
                _assigned_names(n.target, owner.locals)
            elif isinstance(n, (ast.With, ast.AsyncWith)):
                for it in n.items:
                    if it.optional_vars is not None:
                        _assigned_names(it.optional_vars, owner.locals)
            elif isinstance(n, ast.ExceptHandler):
                if n.name:
                    owner.locals.add(n.name)
            elif isinstance(n, ast.NamedExpr):
                _assigned_names(n.target, owner.locals)
            elif isinstance(n, ast.Import):
                for al in n.names:
                    owner.locals.add(al.asname or al.name.split(".")[0])
                    owner.local_imports[al.asname or al.name.split(".")[0]] = al.name if al.asname else al.name.split(".")[0]
            elif isinstance(n, ast.ImportFrom):
                for al in n.names:
                    owner.locals.add(al.asname or al.name)
                    if n.level == 0 and n.module:
                        owner.local_imports[al.asname or al.name] = f"{n.module}.{al.name}"
            for c in ast.iter_child_nodes(n):
                visit(c)

        for st in stmts:
            visit(st)
        owner.locals -= owner.globals_decl
        owner.locals -= owner.nonlocals_decl

    def _collect_class(self, node: ast.ClassDef, mod: Module, prefix):
        ci = ClassInfo(node, mod, f"{prefix}.{node.name}")
        self.classes[ci.qualname] = ci
        mod.classes[node.name] = ci
        for st in node.body:
            if isinstance(st, (ast.FunctionDef, ast.AsyncFunctionDef)):
                f = self._new_func(st, mod, None, ci, ci.qualname)
                f.cls = ci
                kind = None
                for d in st.decorator_list:
                    if isinstance(d, ast.Name) and d.id == "property":
                        kind = "getter"
                    elif (isinstance(d, ast.Name) and d.id == "cached_property") or (isinstance(d, ast.Attribute) and d.attr == "cached_property"):
                        kind = "getter"
                        f.cached_property = True
                    elif isinstance(d, ast.Attribute) and d.attr == "setter":
                        kind = "setter"
                f.property_kind = kind
                if kind == "getter":
                    ci.getters[st.name] = f
                elif kind == "setter":
                    ci.setters[st.name] = f
                else:
                    ci.methods[st.name] = f
                self._scan_scope(f, st.body, mod, None, f.qualname)
            elif isinstance(st, ast.AnnAssign) and isinstance(st.target, ast.Name):
                ci.fields[st.target.id] = st
            elif isinstance(st, ast.Assign):
                for t in st.targets:
                    if isinstance(t, ast.Name):
                        ci.fields[t.id] = st

    # ------------------------------------------------------------- resolution
    def resolve_global(self, mod: Module, name: str, _depth=0):
        """Resolve a module-level name.  Returns a tuple:

        ('func', Func) | ('class', ClassInfo) | ('global', Module, name, Binding) |
        ('module', Module) | ('external', dotted) | None
        """
        if _depth > 10:
            return None
        b = mod.bindings.get(name)
        if b is None:
            return None
        if b.kind == "func":
            f = self.funcs.get(f"{mod.name}.{name}")
            return ("func", f) if f else None
        if b.kind == "class":
            return ("class", mod.classes[name])
        if b.kind == "assign":
            return ("global", mod, name, b)
        if b.kind == "import_mod":
            if b.target_mod in self.modules:
                return ("module", self.modules[b.target_mod])
            return ("external", b.target_mod)
        if b.kind == "import_from":
            full = f"{b.target_mod}.{b.target_name}" if b.target_mod else b.target_name
            if full in self.modules:
                return ("module", self.modules[full])
            if b.target_mod in self.modules:
                r = self.resolve_global(self.modules[b.target_mod], b.target_name, _depth + 1)
                if r is not None:
                    return r
                return None
            return ("external", full)
        return None

    def lookup(self, func: Optional[Func], mod: Module, name: str):
        """Resolve ``name`` as seen from inside ``func`` (lexical scoping).

        Returns ('local', Func, name) for a local variable / parameter,
        ('func', Func) for nested defs, or whatever resolve_global returns.
        """
        f = func
        while f is not None:
            if name in f.nested and name in f.locals:
                return ("func", f.nested[name])
            if name in f.locals:
                if name in f.local_imports:
                    tgt = f.local_imports[name]
                    if tgt in self.modules:
                        return ("module", self.modules[tgt])
                    if not tgt.startswith(PKG + "."):
                        return ("external", tgt)
                return ("local", f, name)
            f = f.parent
        r = self.resolve_global(mod, name)
        if r is None and name in _BUILTINS:
            return ("external", "builtins." + name)
        return r

    def resolve_expr(self, func: Optional[Func], mod: Module, expr):
        """Resolve a Name / dotted Attribute chain to a program entity (or None)."""
        if isinstance(expr, ast.Name):
            return self.lookup(func, mod, expr.id)
        if isinstance(expr, ast.Attribute):
            base = self.resolve_expr(func, mod, expr.value)
            if base is None:
                return None
            if base[0] == "module":
                r = self.resolve_global(base[1], expr.attr)
                return r
            if base[0] == "external":
                return ("external", base[1] + "." + expr.attr)
            if base[0] == "class":
                ci = base[1]
                if expr.attr in ci.methods:
                    return ("func", ci.methods[expr.attr])
                return None
            return None
        return None

    # --------------------------------------------------------------- registry
    def registry(self):
        """Static model of api.FORMAT_MODULES / INPUT_MODULES (sorted module names)."""
        if self._registry is None:
            fm = {}
            im = {}
            for name in sorted(self.modules):
                m = self.modules[name]
                if name.startswith(PKG + ".formats.") and name.count(".") == 2:
                    if "PATTERNS" in m.bindings:
                        fm[m.short] = m
                if name.startswith(PKG + ".inputs.") and name.count(".") == 2:
                    if "write_input" in m.bindings:
                        im[m.short] = m
            self._registry = (fm, im)
        return self._registry

    def format_modules(self):
        return self.registry()[0]

    def input_modules(self):
        return self.registry()[1]

    def format_op(self, short, op) -> Optional[Func]:
        m = self.format_modules().get(short)
        if m and op in m.bindings and m.bindings[op].kind == "func":
            return self.funcs.get(f"{m.name}.{op}")
        return None

    # ------------------------------------------------------------- call graph
    def build_callgraph(self):
        if self._callgraph_done:
            return
        self._callgraph_done = True
        self._regparams = {}
        # parameters that receive a registry member: helper(format_module, ...) called with a registry-typed local
        for _round in range(3):
            changed = False
            for f in list(self.funcs.values()):
                regvars = self._registry_typed_locals(f)
                if not regvars:
                    continue
                for n in f.own_nodes():
                    if not isinstance(n, ast.Call):
                        continue
                    r = self.resolve_expr(f, f.module, n.func)
                    if not (r and r[0] == "func"):
                        continue
                    g = r[1]
                    pos = list(g.posparams)
                    pairs = list(zip(pos, n.args)) + [(k.arg, k.value) for k in n.keywords if k.arg in g.params]
                    for pname, a in pairs:
                        if isinstance(a, ast.Name) and a.id in regvars:
                            d = self._regparams.setdefault(g.qualname, {})
                            if d.get(pname) != regvars[a.id]:
                                d[pname] = regvars[a.id]
                                changed = True
            if not changed:
                break
        for f in list(self.funcs.values()) + [m.toplevel for m in self.modules.values()]:
            regvars = self._registry_typed_locals(f)
            for n in f.own_nodes():
                if isinstance(n, ast.Call):
                    f.calls.append(self._resolve_call(f, n, regvars))

    def _returns_registry_member(self, fn: Func, which) -> bool:
        """True if every ``return <expr>`` of fn returns an element of FORMAT/INPUT_MODULES."""
        rets = [n for n in fn.own_nodes() if isinstance(n, ast.Return) and n.value is not None]
        if not rets:
            return False
        loopvars = set()
        for n in fn.own_nodes():
            if isinstance(n, ast.For) and isinstance(n.target, ast.Name):
                it = n.iter
                if (
                    isinstance(it, ast.Call)
                    and isinstance(it.func, ast.Attribute)
                    and it.func.attr == "values"
                    and isinstance(it.func.value, ast.Name)
                    and it.func.value.id == which
                ):
                    loopvars.add(n.target.id)
            if isinstance(n, ast.Assign) and len(n.targets) == 1 and isinstance(n.targets[0], ast.Name):
                v = n.value
                if isinstance(v, ast.Subscript) and isinstance(v.value, ast.Name) and v.value.id == which:
                    loopvars.add(n.targets[0].id)
        for r in rets:
            v = r.value
            if isinstance(v, ast.Name) and v.id in loopvars:
                continue
            if isinstance(v, ast.Subscript) and isinstance(v.value, ast.Name) and v.value.id == which:
                continue
            return False
        return True

    def _registry_typed_locals(self, f: Func):
        """Locals of f assigned from a selector returning a registry member -> 'format'|'input'."""
        out = {}
        for n in f.own_nodes():
            if isinstance(n, ast.Assign) and len(n.targets) == 1 and isinstance(n.targets[0], ast.Name):
                v = n.value
                if isinstance(v, ast.Call):
                    r = self.resolve_expr(f, f.module, v.func)
                    if r and r[0] == "func":
                        if self._returns_registry_member(r[1], "FORMAT_MODULES"):
                            out[n.targets[0].id] = "format"
                        elif self._returns_registry_member(r[1], "INPUT_MODULES"):
                            out[n.targets[0].id] = "input"
        for k, v in getattr(self, "_regparams", {}).get(f.qualname, {}).items():
            out.setdefault(k, v)
        # closures see the registry-typed locals of their parents
        p = f.parent
        while p is not None:
            for k, v in self._registry_typed_locals(p).items():
                out.setdefault(k, v)
            p = p.parent
        return out

    def _resolve_call(self, f: Func, call: ast.Call, regvars) -> CallSite:
        fn = call.func
        cs = CallSite(call, f, [])
        # a local bound once to a registry slot (`dump = format_module.dump_one; dump(...)`) is that slot
        if isinstance(fn, ast.Name) and regvars and fn.id in getattr(f, "locals", ()) and fn.id not in f.params:
            defs = [n.value for n in f.own_nodes() if isinstance(n, ast.Assign) and len(n.targets) == 1 and isinstance(n.targets[0], ast.Name) and n.targets[0].id == fn.id]
            if len(defs) == 1 and isinstance(defs[0], ast.Attribute) and isinstance(defs[0].value, ast.Name) and defs[0].value.id in regvars:
                fn = defs[0]
        # registry slot: format_module.<op>(...)
        if isinstance(fn, ast.Attribute) and isinstance(fn.value, ast.Name) and fn.value.id in regvars:
            which = regvars[fn.value.id]
            mods = self.format_modules() if which == "format" else self.input_modules()
            cs.registry_op = fn.attr
            for short, m in mods.items():
                g = self.funcs.get(f"{m.name}.{fn.attr}")
                if g is not None:
                    cs.callees.append(g)
            return cs
        r = self.resolve_expr(f, f.module, fn)
        if r is not None:
            if r[0] == "func":
                cs.callees.append(r[1])
                return cs
            if r[0] == "class":
                cs.cls = r[1]
                for nm in ("__init__", "__attrs_post_init__"):
                    if nm in r[1].methods:
                        cs.callees.append(r[1].methods[nm])
                return cs
            if r[0] == "external":
                cs.external = r[1]
                return cs
            if r[0] == "local":
                # calling a local value: a function taken from a dispatch table or kept in a local (may-call: every
                # candidate); otherwise a callable parameter / a lambda in a table
                cands = self._local_function_values(f, r[2]) if isinstance(fn, ast.Name) else []
                if cands:
                    cs.callees.extend(cands)
                    return cs
                cs.method = "<call-local:%s>" % r[2]
                return cs
            if r[0] == "global":
                cs.method = "<call-global:%s>" % r[2]
                return cs
        if isinstance(fn, ast.Attribute):
            # self.method(...)
            if isinstance(fn.value, ast.Name) and fn.value.id == "self" and f.cls is not None:
                m = f.cls.methods.get(fn.attr)
                if m is not None:
                    cs.callees.append(m)
                    return cs
            if isinstance(fn.value, ast.Call) and isinstance(fn.value.func, ast.Name) and fn.value.func.id == "super":
                cs.external = "super." + fn.attr
                return cs
            cs.method = fn.attr
            return cs
        if isinstance(fn, ast.Call):
            # decorator factories etc: f(...)(...)
            cs.method = "<call-result>"
            return cs
        if isinstance(fn, ast.Subscript) or (isinstance(fn, ast.Call) and isinstance(fn.func, ast.Attribute) and fn.func.attr == "get"):
            # TABLE[key](...) / TABLE.get(key)(...) with TABLE a local (or module constant) bound to a literal table of
            # functions: may-call, every function of the table
            base = fn.value if isinstance(fn, ast.Subscript) else fn.func.value
            if isinstance(base, ast.Name):
                cands = self._table_functions(f, base)
                if cands:
                    cs.callees.extend(cands)
                    return cs
            cs.method = "<call-subscript>" if isinstance(fn, ast.Subscript) else "<call-result>"
            return cs
        return cs

    def _table_functions(self, f: Func, base: ast.Name):
        """Package functions held by a literal table (dict / list / tuple) that `base` names: a local of ``f`` bound
        once to the literal, or a module-level constant."""
        lit = None
        r = self.resolve_expr(f, f.module, base)
        if r and r[0] == "local":
            defs = [n.value for n in f.own_nodes() if isinstance(n, ast.Assign) and len(n.targets) == 1 and isinstance(n.targets[0], ast.Name) and n.targets[0].id == base.id]
            stores = [n for n in f.own_nodes() if isinstance(n, ast.Name) and n.id == base.id and isinstance(n.ctx, ast.Store)]
            if len(defs) == 1 and len(stores) == 1:
                lit = defs[0]
        elif r and r[0] == "global" and len(r) > 3 and getattr(r[3], "value", None) is not None:
            lit = r[3].value
        vals = list(lit.values) if isinstance(lit, ast.Dict) else (list(lit.elts) if isinstance(lit, (ast.Tuple, ast.List)) else [])
        out, seen = [], set()
        for v in vals:
            if isinstance(v, ast.Name):
                rr = self.resolve_expr(f, f.module, v)
                if rr and rr[0] == "func" and rr[1].qualname not in seen:
                    seen.add(rr[1].qualname)
                    out.append(rr[1])
        return out

    def _local_function_values(self, f: Func, name: str, depth=0):
        """Package functions a local of ``f`` may hold: assigned from a function name, taken from a literal table
        (tuple / list / dict, also of tuples) by a `for` loop, a subscript or `.get`."""
        if depth > 3 or name in f.params:
            return []
        out = []

        def funcs_in(expr, pos=None):
            """Functions named in a literal container (at tuple position ``pos`` of its rows, if given)."""
            if isinstance(expr, ast.Name):
                r = self.resolve_expr(f, f.module, expr)
                if r and r[0] == "func":
                    return [r[1]]
                if r and r[0] == "local" and expr.id != name:
                    d = [n.value for n in f.own_nodes() if isinstance(n, ast.Assign) and len(n.targets) == 1 and isinstance(n.targets[0], ast.Name) and n.targets[0].id == expr.id]
                    return funcs_in(d[0], pos) if len(d) == 1 else []
                if r and r[0] == "global" and len(r) > 3 and getattr(r[3], "value", None) is not None:
                    return funcs_in(r[3].value, pos)
                return []
            if isinstance(expr, (ast.Tuple, ast.List)):
                res = []
                for e in expr.elts:
                    if pos is not None and isinstance(e, (ast.Tuple, ast.List)):
                        if pos < len(e.elts):
                            res.extend(funcs_in(e.elts[pos]))
                    elif pos is None:
                        res.extend(funcs_in(e))
                return res
            if isinstance(expr, ast.Dict):
                res = []
                for v in expr.values:
                    if pos is not None and isinstance(v, (ast.Tuple, ast.List)):
                        if pos < len(v.elts):
                            res.extend(funcs_in(v.elts[pos]))
                    elif pos is None:
                        res.extend(funcs_in(v))
                return res
            return []

        for n in f.own_nodes():
            if isinstance(n, ast.Assign) and len(n.targets) == 1:
                t, v = n.targets[0], n.value
                if isinstance(t, ast.Name) and t.id == name:
                    if isinstance(v, ast.Name):
                        out.extend(funcs_in(v))
                    elif isinstance(v, ast.Subscript):
                        out.extend(funcs_in(v.value))
                    elif isinstance(v, ast.Call) and isinstance(v.func, ast.Attribute) and v.func.attr == "get":
                        out.extend(funcs_in(v.func.value))
                        for a in v.args[1:]:
                            out.extend(funcs_in(a))
            if isinstance(n, (ast.For, ast.comprehension)):
                t, it = n.target, n.iter
                if isinstance(it, ast.Call) and isinstance(it.func, ast.Attribute) and it.func.attr in ("items", "values") and not it.args:
                    base = it.func.value
                    if it.func.attr == "values" and isinstance(t, ast.Name) and t.id == name:
                        out.extend(funcs_in(base))
                    elif it.func.attr == "items" and isinstance(t, ast.Tuple) and len(t.elts) == 2 and isinstance(t.elts[1], ast.Name) and t.elts[1].id == name:
                        out.extend(funcs_in(base))
                    continue
                if isinstance(t, ast.Name) and t.id == name:
                    out.extend(funcs_in(it))
                elif isinstance(t, (ast.Tuple, ast.List)):
                    for i, e in enumerate(t.elts):
                        if isinstance(e, ast.Name) and e.id == name:
                            out.extend(funcs_in(it, pos=i))
        seen, uniq = set(), []
        for g in out:
            if g.qualname not in seen:
                seen.add(g.qualname)
                uniq.append(g)
        return uniq

    def callees_closure(self, roots, include_nested=True, follow=None):
        """Functions reachable from ``roots`` over resolved call edges.

        Nested functions of a reachable function are considered reachable too
        (closures called or returned by it) when include_nested is true.
        """
        self.build_callgraph()
        seen = {}
        stack = list(roots)
        while stack:
            f = stack.pop()
            if f is None or f.qualname in seen:
                continue
            seen[f.qualname] = f
            for cs in f.calls:
                for g in cs.callees:
                    if follow is None or follow(f, cs, g):
                        stack.append(g)
            if include_nested:
                stack.extend(f.nested.values())
                # lambdas defined in f
                for n in f.own_nodes():
                    if isinstance(n, ast.Lambda):
                        g = self.func_of_node.get(id(n))
                        if g:
                            stack.append(g)
        return list(seen.values())

    def call_stats(self):
        self.build_callgraph()
        tot = res = 0
        for f in self.funcs.values():
            for cs in f.calls:
                tot += 1
                if cs.resolved:
                    res += 1
        return res, tot

    # ------------------------------------------------------------------ misc
    def func(self, qualname) -> Func:
        f = self.funcs.get(qualname)
        if f is None:
            raise AnalysisError(f"anchor function {qualname} not found")
        return f

    def module(self, name) -> Module:
        m = self.modules.get(name)
        if m is None:
            raise AnalysisError(f"anchor module {name} not found")
        return m

    def cls(self, qualname) -> ClassInfo:
        c = self.classes.get(qualname)
        if c is None:
            raise AnalysisError(f"anchor class {qualname} not found")
        return c

    def package_funcs(self):
        return [f for f in self.funcs.values() if f.module.name.startswith(PKG)]

    def parents(self, func: Func):
        """child-node-id -> parent node map for a function body."""
        key = func.qualname
        pm = self.parent_map_cache.get(key)
        if pm is None:
            pm = {}
            for n in func.own_nodes():
                for c in ast.iter_child_nodes(n):
                    pm[id(c)] = n
            self.parent_map_cache[key] = pm
        return pm


_BUILTINS = set(dir(__builtins__)) if not isinstance(__builtins__, dict) else set(__builtins__)


def src_of(node) -> str:
    try:
        return ast.unparse(node)
    except Exception:  # pragma: no cover
        return "<?>"


def norm_construct(node, func: Optional[Func] = None) -> str:
    """Statement/expression text with locals alpha-renamed (key for known findings)."""
    try:
        tree = ast.parse(ast.unparse(node), mode="exec")
    except Exception:
        return src_of(node)
    if func is not None:
        loc = func.locals
        mapping = {}

        class R(ast.NodeTransformer):
            def visit_Name(self, n):
                if n.id in loc:
                    if n.id not in mapping:
                        mapping[n.id] = f"v{len(mapping)}"
                    return ast.copy_location(ast.Name(id=mapping[n.id], ctx=n.ctx), n)
                return n

        tree = R().visit(tree)
    return ast.unparse(tree)
