"""Min-plus line-consumption dataflow: loop termination (C07-R4) and
frame-boundary analysis of StopIteration sources (C13-R2).

A *consumption attempt* is `next(lit)`, one iteration of `for .. in lit`, or a
call of a function that must consume; `lit.back(..)` is -1.  An attempted
consumption either uses up one of finitely many lines or raises StopIteration.

The abstract state maps a valuation of the function's boolean *flag* locals
(locals only ever assigned True/False) to the minimum net consumption over all
paths reaching the program point with that valuation.  This small amount of
path sensitivity is what proves "returns normally => molecule_found => at
least one line was consumed".
"""

from __future__ import annotations

import ast
from typing import Optional

from .astutil import bind_call, names_in
from .consteval import ConstEval, NotConstant
from .model import Func, Program, src_of

INF = 10**6
NEG = -(10**6)
CAP = 4


def _clamp(v):
    if v <= NEG // 2:
        return NEG
    if v >= INF // 2:
        return INF
    return min(v, CAP)


def _addi(a, b):
    if a <= NEG // 2 or b <= NEG // 2:
        return NEG
    if a >= INF // 2 or b >= INF // 2:
        return INF
    return _clamp(a + b)


class State(dict):
    """valuation (tuple) -> min net consumption.  Empty = unreachable."""

    def shifted(self, c):
        if c == 0:
            return State(self)
        return State({k: _addi(v, c) for k, v in self.items()})

    def joined(self, other):
        out = State(self)
        for k, v in other.items():
            out[k] = min(out[k], v) if k in out else v
        return out

    def minval(self):
        return min(self.values()) if self else None

    def set_all(self, val):
        return State({k: val for k in self})


class Exits(dict):
    def put(self, kind, st: State):
        if not st:
            return
        self[kind] = self[kind].joined(st) if kind in self else State(st)

    def merge(self, other):
        for k, v in other.items():
            self.put(k, v)


class Recorder:
    """Collects StopIteration sources (with the minimum net consumption before them),
    sources swallowed by a handler, and the abstract state at raise statements."""

    def __init__(self):
        self.si = {}  # src_key -> min_before
        self.swallowed = []  # (try_stmt, handler, src_key, min_before)
        self.raises = {}  # id(stmt) -> (stmt, func, State)

    def add_si(self, key, before):
        self.si[key] = min(self.si[key], before) if key in self.si else before

    def absorb(self, other):
        for k, v in other.si.items():
            self.add_si(k, v)
        self.swallowed.extend(other.swallowed)
        for k, v in other.raises.items():
            if k in self.raises:
                self.raises[k] = (v[0], v[1], self.raises[k][2].joined(v[2]))
            else:
                self.raises[k] = v


def ordered_calls(e):
    """Call nodes of an expression in evaluation order (arguments before the call)."""
    out = []

    def visit(n):
        if isinstance(n, ast.Lambda):
            return
        for c in ast.iter_child_nodes(n):
            visit(c)
        if isinstance(n, ast.Call):
            out.append(n)

    visit(e)
    return out


def _blank_test_var(n):
    """(name, polarity) when n tests `name.strip() == ""` (polarity True) or its negation (False)."""
    def strip_of(e):
        if isinstance(e, ast.Call) and isinstance(e.func, ast.Attribute) and e.func.attr == "strip" and not e.args and isinstance(e.func.value, ast.Name):
            return e.func.value.id
        return None

    if isinstance(n, ast.Compare) and len(n.ops) == 1 and isinstance(n.comparators[0], ast.Constant) and n.comparators[0].value == "":
        v = strip_of(n.left)
        if v is not None and isinstance(n.ops[0], (ast.Eq, ast.NotEq)):
            return v, isinstance(n.ops[0], ast.Eq)
    if isinstance(n, ast.UnaryOp) and isinstance(n.op, ast.Not):
        v = strip_of(n.operand)
        if v is not None:
            return v, True
    return None


def _single_next(e, lits):
    calls = [c for c in ast.walk(e) if isinstance(c, ast.Call) and isinstance(c.func, ast.Name) and c.func.id == "next" and c.args and isinstance(c.args[0], ast.Name) and c.args[0].id in lits]
    return len(calls) == 1 and len(calls[0].args) == 1


class _FuncInfo:
    def __init__(self, f: Func, lits=(), dict_call_ok=None):
        self.dict_from_call = {}  # tracked dict local -> the helper call it is bound from
        # flags: non-parameter locals whose every binding is `name = True/False`
        cand = {}
        bad = set()
        for n in f.own_nodes():
            if isinstance(n, ast.Assign):
                for t in n.targets:
                    if isinstance(t, ast.Name):
                        if isinstance(n.value, ast.Constant) and isinstance(n.value.value, bool):
                            cand.setdefault(t.id, 0)
                        else:
                            bad.add(t.id)
                    else:
                        for x in ast.walk(t):
                            if isinstance(x, ast.Name) and isinstance(x.ctx, ast.Store):
                                bad.add(x.id)
            elif isinstance(n, (ast.AugAssign, ast.AnnAssign)):
                if isinstance(n.target, ast.Name):
                    bad.add(n.target.id)
            elif isinstance(n, (ast.For, ast.comprehension)):
                for x in ast.walk(n.target):
                    if isinstance(x, ast.Name):
                        bad.add(x.id)
            elif isinstance(n, ast.With):
                for it in n.items:
                    if it.optional_vars is not None:
                        for x in ast.walk(it.optional_vars):
                            if isinstance(x, ast.Name):
                                bad.add(x.id)
            elif isinstance(n, ast.ExceptHandler) and n.name:
                bad.add(n.name)
            elif isinstance(n, ast.NamedExpr):
                bad.add(n.target.id)
        self.flags = sorted(k for k in cand if k not in bad and k not in f.params and k not in f.nonlocals_decl and k not in f.globals_decl)[:4]
        # pseudo flags "@v": local v (not a parameter) is bound; v is an argument of <lit>.back(v)
        self.bound_vars = []
        for n in f.own_nodes():
            if isinstance(n, ast.Call) and isinstance(n.func, ast.Attribute) and n.func.attr == "back" and isinstance(n.func.value, ast.Name) and n.func.value.id in lits:
                if n.args and isinstance(n.args[0], ast.Name) and n.args[0].id in f.locals and n.args[0].id not in f.params:
                    if n.args[0].id not in self.bound_vars:
                        self.bound_vars.append(n.args[0].id)
        self.bound_vars = self.bound_vars[:2]
        self.flags = self.flags + ["@" + v for v in self.bound_vars]
        # pseudo flags "#d": local d is an empty dict.  d qualifies when every binding is `d = {}` / `dict()`, every
        # other use is d[k] = v, d[k], d.get(...), `k in d`, and no handler of the function can catch KeyError:
        # then `d[<constant>]` on an empty d ends the path with KeyError.
        self.empty_dicts = []
        catches_key = any(_handler_catches(h, "KeyError") or _handler_catches(h, "LookupError") for n in f.own_nodes() if isinstance(n, ast.Try) for h in n.handlers)
        if not catches_key:
            uses = {}
            for n in f.own_nodes():
                if isinstance(n, ast.Name) and n.id in f.locals and n.id not in f.params:
                    uses.setdefault(n.id, []).append(n)
            par = {}
            for n in f.own_nodes():
                for c in ast.iter_child_nodes(n):
                    par[id(c)] = n
            for name, nodes in sorted(uses.items()):
                okd, has_const_load, has_init = True, False, False
                for n in nodes:
                    p_ = par.get(id(n))
                    if isinstance(n.ctx, ast.Store):
                        if isinstance(p_, ast.Assign) and len(p_.targets) == 1 and p_.targets[0] is n and ((isinstance(p_.value, ast.Dict) and not p_.value.keys) or (isinstance(p_.value, ast.Call) and isinstance(p_.value.func, ast.Name) and p_.value.func.id == "dict" and not p_.value.args and not p_.value.keywords)):
                            has_init = True
                        elif isinstance(p_, ast.Assign) and len(p_.targets) == 1 and p_.targets[0] is n and isinstance(p_.value, ast.Call) and dict_call_ok is not None and dict_call_ok(p_.value):
                            # bound from a helper of the module that returns a dictionary it fills from the lines it
                            # reads (its summary tells how many lines are consumed when the dictionary stays empty)
                            has_init = True
                            self.dict_from_call[name] = p_.value
                        else:
                            okd = False
                    elif isinstance(p_, ast.Return) and p_.value is n:
                        has_const_load = True  # handed to the caller, who reads it
                    elif isinstance(p_, ast.Subscript) and p_.value is n:
                        if isinstance(p_.ctx, ast.Load) and isinstance(p_.slice, ast.Constant):
                            has_const_load = True
                        elif isinstance(p_.ctx, ast.Del):
                            okd = False
                    elif isinstance(p_, ast.Attribute) and p_.value is n and p_.attr == "get":
                        pass
                    elif isinstance(p_, ast.Compare) and n in p_.comparators:
                        pass
                    else:
                        okd = False
                if okd and has_init and has_const_load:
                    self.empty_dicts.append(name)
        self.empty_dicts = self.empty_dicts[:2]
        self.dict_from_call = {k: v for k, v in self.dict_from_call.items() if k in self.empty_dicts}
        self.flags = self.flags + ["#" + v for v in self.empty_dicts]
        # restore lists: a local list that only collects consumed lines (L.append(v), v assigned from next(<lit>)) and
        # is only used to push every one of them back (`for x in reversed(L): <lit>.back(x)`).  For the termination
        # argument an append then counts as a deferred push-back (-1) and the restoring loop as 0.
        self.restore_lists = {}
        line_vars = set()
        for n in f.own_nodes():
            if isinstance(n, ast.Assign) and len(n.targets) == 1 and isinstance(n.targets[0], ast.Name) and _single_next(n.value, lits):
                line_vars.add(n.targets[0].id)
            elif isinstance(n, ast.For) and isinstance(n.target, ast.Name) and isinstance(n.iter, ast.Name) and n.iter.id in lits:
                line_vars.add(n.target.id)
        par_ = {}
        for n in f.own_nodes():
            for c_ in ast.iter_child_nodes(n):
                par_[id(c_)] = n
        cand_lists = {t.id for n in f.own_nodes() if isinstance(n, ast.Assign) and isinstance(n.value, ast.List) and not n.value.elts for t in n.targets if isinstance(t, ast.Name)}
        for L in sorted(cand_lists):
            okl, loops_, napp = True, [], 0
            for n in f.own_nodes():
                if not (isinstance(n, ast.Name) and n.id == L):
                    continue
                p1 = par_.get(id(n))
                if isinstance(n.ctx, ast.Store):
                    if not (isinstance(p1, ast.Assign) and isinstance(p1.value, ast.List) and not p1.value.elts):
                        okl = False
                    continue
                p2 = par_.get(id(p1)) if p1 is not None else None
                if isinstance(p1, ast.Attribute) and p1.attr == "append" and isinstance(p2, ast.Call) and len(p2.args) == 1 and ((isinstance(p2.args[0], ast.Name) and p2.args[0].id in line_vars) or _single_next(p2.args[0], lits)):
                    napp += 1
                    continue
                # `L[-1]` read (peek at the line just collected): no effect on the pairing (a full slice that a
                # loop iterates -- `for x in L[::-1]` -- is the restoring loop, judged below)
                if isinstance(p1, ast.Subscript) and p1.value is n and isinstance(p1.ctx, ast.Load) and not (isinstance(p1.slice, ast.Slice) and p1.slice.lower is None and p1.slice.upper is None and isinstance(p2, ast.For) and p2.iter is p1):
                    continue
                # `while L: <lit>.back(L.pop())`: the restoring loop in its pop form
                if isinstance(p1, ast.While) and p1.test is n and len(p1.body) == 1 and not p1.orelse and isinstance(p1.body[0], ast.Expr):
                    c0 = p1.body[0].value
                    if isinstance(c0, ast.Call) and isinstance(c0.func, ast.Attribute) and c0.func.attr == "back" and isinstance(c0.func.value, ast.Name) and c0.func.value.id in lits and len(c0.args) == 1 and isinstance(c0.args[0], ast.Call) and isinstance(c0.args[0].func, ast.Attribute) and c0.args[0].func.attr == "pop" and isinstance(c0.args[0].func.value, ast.Name) and c0.args[0].func.value.id == L and not c0.args[0].args:
                        loops_.append(p1)
                        continue
                if isinstance(p1, ast.Attribute) and p1.attr == "pop" and isinstance(p2, ast.Call) and not p2.args:
                    p3 = par_.get(id(p2))
                    if isinstance(p3, ast.Call) and isinstance(p3.func, ast.Attribute) and p3.func.attr == "back":
                        continue  # the pop inside the restoring loop (judged with the loop)
                lp = None
                if isinstance(p1, ast.For) and p1.iter is n:
                    lp = p1
                elif isinstance(p1, ast.Call) and isinstance(p1.func, ast.Name) and p1.func.id == "reversed" and isinstance(p2, ast.For) and p2.iter is p1:
                    lp = p2
                elif isinstance(p1, ast.Subscript) and p1.value is n and isinstance(p1.slice, ast.Slice) and p1.slice.lower is None and p1.slice.upper is None and isinstance(p2, ast.For) and p2.iter is p1:
                    lp = p2  # `for x in L[::-1]` / `L[:]`: every element once (the order is R11's business)
                if lp is not None and isinstance(lp.target, ast.Name) and len(lp.body) == 1 and not lp.orelse and isinstance(lp.body[0], ast.Expr):
                    c0 = lp.body[0].value
                    if isinstance(c0, ast.Call) and isinstance(c0.func, ast.Attribute) and c0.func.attr == "back" and isinstance(c0.func.value, ast.Name) and c0.func.value.id in lits and len(c0.args) == 1 and isinstance(c0.args[0], ast.Name) and c0.args[0].id == lp.target.id:
                        loops_.append(lp)
                        continue
                okl = False
            if okl and napp and loops_:
                self.restore_lists[L] = {id(l) for l in loops_}
        # pseudo flags "~B" / "~P" (blank probe): "~B" = every line consumed so far was tested blank (the record has
        # not started); "~P" = all but the last consumed line were tested blank and the last one is still untested.
        # Tracked for the single variable v that receives next(<lit>) and is tested as v.strip() == "".
        self.blank_var = None
        tested = set()
        for n in f.own_nodes():
            v = _blank_test_var(n)
            if v is not None:
                tested.add(v[0])
        got = set()
        for n in f.own_nodes():
            if isinstance(n, ast.Assign) and len(n.targets) == 1 and isinstance(n.targets[0], ast.Name) and _single_next(n.value, lits):
                got.add(n.targets[0].id)
            elif isinstance(n, ast.For) and isinstance(n.target, ast.Name) and isinstance(n.iter, ast.Name) and n.iter.id in lits:
                got.add(n.target.id)
        both = sorted(tested & got)
        if len(both) == 1:
            self.blank_var = both[0]
            self.flags = self.flags + ["~B", "~P"]
        self.index = {k: i for i, k in enumerate(self.flags)}
        self.init = tuple((True if k == "~B" else False) if k.startswith(("@", "~")) else None for k in self.flags)

    def keyerror_dicts(self, node):
        """Names d of tracked empty-dict flags read as d[<constant>] inside the expression/statement `node`."""
        out = []
        if not self.empty_dicts:
            return out
        for x in ast.walk(node):
            if isinstance(x, ast.Subscript) and isinstance(x.ctx, ast.Load) and isinstance(x.value, ast.Name) and x.value.id in self.empty_dicts and isinstance(x.slice, ast.Constant):
                out.append(x.value.id)
        return out


class Consumption:
    def __init__(self, prog: Program, lits: dict):
        self.prog = prog
        self.lits = lits
        prog.build_callgraph()
        self.callsite_of = {}
        for f in prog.funcs.values():
            for cs in f.calls:
                self.callsite_of[id(cs.node)] = cs
        self.info: dict[str, _FuncInfo] = {}
        self.summary: dict[str, int] = {}
        self.si_summary: dict[str, dict] = {}
        self.ce = ConstEval(prog)
        self._solve()

    def finfo(self, f: Func) -> _FuncInfo:
        fi = self.info.get(f.qualname)
        if fi is None:
            fi = self.info[f.qualname] = _FuncInfo(f, self.lit_names(f), dict_call_ok=lambda call, f=f: self._dict_call_profile(f, call) is not None)
        return fi

    def _dict_call_profile(self, f: Func, call):
        """(min lines consumed when the returned dictionary is empty, ... when it is not) for a call of a module helper
        that is handed the line iterator and returns a dictionary it builds; None if the callee is not of that kind."""
        cs = self.callsite_of.get(id(call))
        lits = self.lit_names(f)
        if cs is None or cs.cls is not None or len(cs.callees) != 1 or not any(isinstance(a, ast.Name) and a.id in lits for a in call.args):
            return None
        h = cs.callees[0]
        if h is f or h.module is not f.module or h.is_generator:
            return None
        cache = self.__dict__.setdefault("_dict_profiles", {})
        if h.qualname in cache:
            return cache[h.qualname]
        cache[h.qualname] = None  # (guards recursion)
        rets = [n for n in h.own_nodes() if isinstance(n, ast.Return)]
        names = {n.value.id for n in rets if isinstance(n.value, ast.Name)}
        if not rets or len(names) != 1 or any(not isinstance(n.value, ast.Name) for n in rets):
            return None
        hi = self.finfo(h)
        flag = "#" + next(iter(names))
        if flag not in hi.index:
            return None
        ex = self.walk(h, h.body, State({hi.init: 0}), frozenset())
        st = Exits()
        st.put("r", ex.get("return", State()))
        st.put("r", ex.get("fall", State()))
        i = hi.index[flag]
        ce = cn = None
        for k, v in (st.get("r") or {}).items():
            if k[i] is not False:
                ce = v if ce is None else min(ce, v)
            if k[i] is not True:
                cn = v if cn is None else min(cn, v)
        prof = (CAP if ce is None else _clamp(ce), CAP if cn is None else _clamp(cn))
        cache[h.qualname] = prof
        return prof

    def lit_names(self, f: Func):
        s = set(self.lits.get(f.qualname, ()))
        p = f.parent
        while p is not None:
            s |= self.lits.get(p.qualname, set())
            p = p.parent
        return s

    # ------------------------------------------------------------- summaries
    def _solve(self):
        funcs = [f for f in self.prog.funcs.values()]
        for f in funcs:
            self.summary[f.qualname] = CAP if self.lit_names(f) else 0  # optimistic start
        for _ in range(12):
            changed = False
            for f in funcs:
                if not self.lit_names(f):
                    continue
                rec = Recorder()
                ret = self.func_return_min(f, rec)
                si = {} if f.is_generator else dict(rec.si)  # PEP 479: cannot leave a generator
                if ret != self.summary[f.qualname] or si != self.si_summary.get(f.qualname):
                    self.summary[f.qualname] = ret
                    self.si_summary[f.qualname] = si
                    changed = True
            if not changed:
                break

    def func_return_min(self, f: Func, rec=None) -> int:
        fi = self.finfo(f)
        ex = self.walk(f, f.body, State({fi.init: 0}), frozenset(), rec=rec)
        if f.is_generator:
            return 0  # creating / partially consuming a generator guarantees nothing
        st = Exits()
        st.put("r", ex.get("return", State()))
        st.put("r", ex.get("fall", State()))
        m = st["r"].minval() if "r" in st else None
        return CAP if m is None else _clamp(m)

    # ----------------------------------------------------------- expressions
    def expr_cost(self, f: Func, e, lits) -> int:
        """Minimum net consumption of evaluating expression e."""
        if e is None:
            return 0
        total = 0
        stack = [e]
        while stack:
            n = stack.pop()
            if isinstance(n, ast.Lambda):
                continue
            if isinstance(n, (ast.ListComp, ast.SetComp, ast.DictComp, ast.GeneratorExp)):
                for g in n.generators[:1]:
                    total = _addi(total, self.expr_cost(f, g.iter, lits))
                sub = [n.elt] if not isinstance(n, ast.DictComp) else [n.key, n.value]
                c = sum(self.expr_cost(f, x, lits) for x in sub)
                if c < 0:
                    total = NEG
                continue
            if isinstance(n, ast.IfExp):
                total = _addi(total, self.expr_cost(f, n.test, lits))
                total = _addi(total, min(self.expr_cost(f, n.body, lits), self.expr_cost(f, n.orelse, lits)))
                continue
            if isinstance(n, ast.BoolOp):
                total = _addi(total, self.expr_cost(f, n.values[0], lits))
                for v in n.values[1:]:
                    if self.expr_cost(f, v, lits) < 0:
                        total = NEG
                continue
            if isinstance(n, ast.Call):
                total = _addi(total, self.call_cost(f, n, lits))
            stack.extend(ast.iter_child_nodes(n))
        return total

    def call_cost(self, f, call, lits) -> int:
        fn = call.func
        if isinstance(fn, ast.Name) and fn.id == "next" and call.args and isinstance(call.args[0], ast.Name) and call.args[0].id in lits:
            return 1
        if isinstance(fn, ast.Attribute) and isinstance(fn.value, ast.Name) and fn.value.id in lits:
            if fn.attr == "back":
                return -1
            if fn.attr == "__next__":
                return 1
            return 0
        cs = self.callsite_of.get(id(call))
        if cs is not None and cs.callees and cs.cls is None:
            passes = any(isinstance(a, ast.Name) and a.id in lits for a in call.args) or any(isinstance(k.value, ast.Name) and k.value.id in lits for k in call.keywords)
            if passes:
                vals = [self.summary.get(g.qualname, 0) for g in cs.callees]
                return min(vals) if vals else 0
        return 0

    # ----------------------------------------------------------------- flags
    def refine(self, fi: _FuncInfo, st: State, test, truth: bool) -> State:
        if not fi.flags or not st:
            return st
        if fi.blank_var is not None:
            bt = _blank_test_var(test)
            if bt is not None and bt[0] == fi.blank_var:
                blank = truth if bt[1] else (not truth)
                ib, ip = fi.index["~B"], fi.index["~P"]
                out = State()
                for k, v in st.items():
                    if k[ip] is True:
                        k = k[:ib] + (bool(blank),) + k[ib + 1:]
                        k = k[:ip] + (False,) + k[ip + 1:]
                    out[k] = min(out[k], v) if k in out else v
                return out
        if isinstance(test, ast.Name) and test.id in fi.index:
            i = fi.index[test.id]
            out = State()
            for k, v in st.items():
                if k[i] is None or k[i] is truth:
                    nk = k[:i] + (truth,) + k[i + 1:]
                    out[nk] = min(out[nk], v) if nk in out else v
            return out
        if isinstance(test, ast.UnaryOp) and isinstance(test.op, ast.Not):
            return self.refine(fi, st, test.operand, not truth)
        if isinstance(test, ast.BoolOp):
            if (isinstance(test.op, ast.And) and truth) or (isinstance(test.op, ast.Or) and not truth):
                for v in test.values:
                    st = self.refine(fi, st, v, truth)
                return st
        if isinstance(test, ast.Compare) and len(test.ops) == 1 and isinstance(test.left, ast.Name) and test.left.id in fi.index:
            c = test.comparators[0]
            if isinstance(c, ast.Constant) and isinstance(c.value, bool) and isinstance(test.ops[0], (ast.Is, ast.Eq, ast.IsNot, ast.NotEq)):
                pos = isinstance(test.ops[0], (ast.Is, ast.Eq))
                want = c.value if pos else (not c.value)
                return self.refine(fi, st, test.left, want if truth else (not want))
        return st

    def _active_lists(self, fi, rec):
        """Restore lists whose append/restore pairing is accounted as (-1, 0): all of them when StopIteration sources
        are being recorded (sources inside the collecting loop are corrected by +1, see record_expr), otherwise the
        ones whose restoring loop lies inside the cycle under analysis."""
        if rec is not None:
            return fi.restore_lists.keys()
        return getattr(self, "_refund_active", ())

    def blank_consume(self, fi, st: State, tracked: bool) -> State:
        """A line was consumed (tracked: into the blank-probe variable) or something else moved the position."""
        if fi.blank_var is None or not st:
            return st
        ib, ip = fi.index["~B"], fi.index["~P"]
        out = State()
        for k, v in st.items():
            if tracked and k[ib] is True:
                nb, np_ = False, True
            else:
                nb, np_ = False, False
            k = k[:ib] + (nb,) + k[ib + 1:]
            k = k[:ip] + (np_,) + k[ip + 1:]
            out[k] = min(out[k], v) if k in out else v
        return out

    def assign_flag(self, fi, st: State, name, val: bool) -> State:
        i = fi.index[name]
        out = State()
        for k, v in st.items():
            nk = k[:i] + (val,) + k[i + 1:]
            out[nk] = min(out[nk], v) if nk in out else v
        return out

    # ------------------------------------------------------------ statements
    def walk(self, f: Func, stmts, st: State, progress_vars, lits=None, rec=None) -> Exits:
        lits = self.lit_names(f) if lits is None else lits
        fi = self.finfo(f)
        ex = Exits()
        for s in stmts:
            if not st:
                break
            st = self.stmt(f, fi, s, st, ex, progress_vars, lits, rec)
        ex.put("fall", st)
        return ex

    def _progress(self, f, st, progress_vars) -> bool:
        """Does this simple statement strictly advance a loop-test variable?"""
        if not progress_vars:
            return False
        if isinstance(st, ast.AugAssign) and isinstance(st.target, ast.Name) and st.target.id in progress_vars and isinstance(st.op, (ast.Add, ast.Sub)):
            return self.is_positive(f, st.value)
        return False

    def is_positive(self, f: Func, e, depth=3) -> bool:
        """Sound, incomplete: expression is a strictly positive number on every execution."""
        if isinstance(e, ast.Constant):
            return isinstance(e.value, (int, float)) and not isinstance(e.value, bool) and e.value > 0
        if isinstance(e, ast.BinOp) and isinstance(e.op, (ast.Mult, ast.Add)):
            return self.is_positive(f, e.left, depth) and self.is_positive(f, e.right, depth)
        if isinstance(e, ast.Call) and isinstance(e.func, ast.Name) and e.func.id == "len" and len(e.args) == 1:
            a = e.args[0]
            if isinstance(a, ast.Name) and a.id in f.locals and a.id not in f.params:
                # a local bound once to an entry of a constant table (`row = TABLE[key]; n = len(row)`)
                defs = [n.value for n in f.own_nodes() if isinstance(n, ast.Assign) and any(isinstance(t, ast.Name) and t.id == a.id for t in n.targets)]
                others = [n for n in f.own_nodes() if isinstance(n, (ast.AugAssign, ast.For, ast.comprehension)) and any(isinstance(x, ast.Name) and x.id == a.id for x in ast.walk(n.target))]
                if len(defs) == 1 and not others:
                    a = defs[0]
            if isinstance(a, ast.Subscript) and isinstance(a.value, ast.Name):
                r = self.prog.lookup(f, f.module, a.value.id)
                if r and r[0] == "global":
                    try:
                        tab = self.ce.global_value(r[1], r[2])
                    except NotConstant:
                        return False
                    if isinstance(tab, dict) and tab and all(hasattr(v, "__len__") and len(v) > 0 for v in tab.values()):
                        return True
                    if isinstance(tab, (list, tuple)) and tab and all(hasattr(v, "__len__") and len(v) > 0 for v in tab):
                        return True
            return False
        if isinstance(e, ast.Name) and depth > 0:
            if e.id in f.params:
                return self._param_positive(f, e.id)
            if e.id not in f.locals:
                return False
            okany = False
            for n in f.own_nodes():
                if isinstance(n, ast.Assign):
                    for t in n.targets:
                        if isinstance(t, ast.Name) and t.id == e.id:
                            if not self.is_positive(f, n.value, depth - 1):
                                return False
                            okany = True
                        elif any(isinstance(x, ast.Name) and x.id == e.id and isinstance(x.ctx, ast.Store) for x in ast.walk(t)):
                            return False
                elif isinstance(n, ast.AugAssign) and isinstance(n.target, ast.Name) and n.target.id == e.id:
                    if not (isinstance(n.op, (ast.Add, ast.Mult)) and self.is_positive(f, n.value, depth - 1)):
                        return False
                elif isinstance(n, (ast.For, ast.comprehension)) and any(isinstance(x, ast.Name) and x.id == e.id for x in ast.walk(n.target)):
                    return False
                elif isinstance(n, ast.With) and any(it.optional_vars is not None and any(isinstance(x, ast.Name) and x.id == e.id for x in ast.walk(it.optional_vars)) for it in n.items):
                    return False
            return okany
        return False

    def _param_positive(self, f: Func, pname, depth=3) -> bool:
        sites = 0
        for g in self.prog.funcs.values():
            for cs in g.calls:
                if f in cs.callees:
                    sites += 1
                    bound, extra, ok = bind_call(cs.node, f)
                    a = bound.get(pname)
                    if a is None:
                        d = f.default_of(pname)
                        if d is None or not self.is_positive(f, d, 0):
                            return False
                    elif isinstance(a, ast.Name) and a.id in g.params and depth > 0 and g is not f and not any(isinstance(x, ast.Name) and x.id == a.id and isinstance(x.ctx, ast.Store) for x in g.own_nodes()):
                        # handed on unchanged from the caller's own parameter: positive if that one is at all its sites
                        if not self._param_positive(g, a.id, depth - 1):
                            return False
                    elif not (isinstance(a, ast.Constant) and isinstance(a.value, (int, float)) and not isinstance(a.value, bool) and a.value > 0):
                        return False
        return sites > 0

    def record_expr(self, f, e, st: State, lits, rec):
        """Record StopIteration sources of expression e evaluated in state st."""
        if rec is None or e is None or not st:
            return
        base = st.minval()
        fi_ = self.finfo(f)
        if fi_.blank_var is not None:
            ib = fi_.index["~B"]
            base = min((0 if (k[ib] is True and v > 0) else v) for k, v in st.items())
        if fi_.restore_lists and base is not None:
            # inside a loop that appends to a restore list at least one consumed line is still owed
            pm_ = self.prog.parents(f)
            cur = e
            inloop = False
            while id(cur) in pm_:
                cur = pm_[id(cur)]
                if isinstance(cur, (ast.For, ast.While)) and any(isinstance(x, ast.Call) and isinstance(x.func, ast.Attribute) and x.func.attr == "append" and isinstance(x.func.value, ast.Name) and x.func.value.id in fi_.restore_lists for x in ast.walk(cur)):
                    inloop = True
            if inloop and not (fi_.blank_var is not None and all(k[fi_.index["~B"]] is True for k in st)):
                base = base + 1
        run = 0
        for call in ordered_calls(e):
            fn = call.func
            if isinstance(fn, ast.Name) and fn.id == "next" and len(call.args) == 1 and not call.keywords and isinstance(call.args[0], ast.Name) and call.args[0].id in lits:
                rec.add_si((f.qualname, call.lineno, call.col_offset), _addi(base, run))
            else:
                cs = self.callsite_of.get(id(call))
                if cs is not None and cs.callees and cs.cls is None:
                    passes = any(isinstance(a, ast.Name) and a.id in lits for a in call.args) or any(isinstance(k.value, ast.Name) and k.value.id in lits for k in call.keywords)
                    if passes:
                        for g in cs.callees:
                            for key, rel in self.si_summary.get(g.qualname, {}).items():
                                rec.add_si(key, _addi(_addi(base, run), rel))
            run = _addi(run, self.call_cost(f, call, lits))

    def stmt(self, f, fi, s, st: State, ex: Exits, pv, lits, rec=None) -> State:
        T = type(s)
        if T in (ast.FunctionDef, ast.AsyncFunctionDef, ast.ClassDef, ast.Pass, ast.Global, ast.Nonlocal, ast.Import, ast.ImportFrom):
            return st
        if T is ast.Return:
            self.record_expr(f, s.value, st, lits, rec)
            ex.put("return", st.shifted(self.expr_cost(f, s.value, lits)))
            return State()
        if T is ast.Raise:
            if rec is not None:
                old = rec.raises.get(id(s))
                rec.raises[id(s)] = (s, f, st if old is None else old[2].joined(st))
            ex.put("raise", st)
            return State()
        if T is ast.Break:
            ex.put("break", st)
            return State()
        if T is ast.Continue:
            ex.put("continue", st)
            return State()
        if T in (ast.Expr, ast.Assign, ast.AugAssign, ast.AnnAssign, ast.Delete, ast.Assert):
            c = 0
            for ch in ast.iter_child_nodes(s):
                if isinstance(ch, ast.expr):
                    self.record_expr(f, ch, st.shifted(c), lits, rec)
                    c = _addi(c, self.expr_cost(f, ch, lits))
            st = st.shifted(c)
            if fi.restore_lists and T is ast.Expr and isinstance(s.value, ast.Call) and isinstance(s.value.func, ast.Attribute) and s.value.func.attr == "append" and isinstance(s.value.func.value, ast.Name) and s.value.func.value.id in self._active_lists(fi, rec):
                st = st.shifted(-1)
            if fi.blank_var is not None and c != 0:
                tracked = T is ast.Assign and len(s.targets) == 1 and isinstance(s.targets[0], ast.Name) and s.targets[0].id == fi.blank_var and _single_next(s.value, lits) and c == 1
                st = self.blank_consume(fi, st, tracked)
            if fi.empty_dicts:
                for d in fi.keyerror_dicts(s):
                    # d[<constant>] on an empty dict raises KeyError: those paths end here
                    st = self.refine(fi, st, ast.Name(id="#" + d, ctx=ast.Load()), False)
                if T is ast.Assign:
                    for t in s.targets:
                        if isinstance(t, ast.Name) and fi.dict_from_call.get(t.id) is s.value:
                            # the dictionary comes from a helper: empty with the helper's cost of that case, filled
                            # with the cost of the other (the statement cost above was the smaller of the two)
                            prof = self._dict_call_profile(f, s.value)
                            base_ = min(prof)
                            st_e = self.assign_flag(fi, st.shifted(_addi(prof[0], -base_)) if prof[0] < CAP else State(), "#" + t.id, True) if prof[0] < CAP else State()
                            st_n = self.assign_flag(fi, st.shifted(_addi(prof[1], -base_)), "#" + t.id, False) if prof[1] < CAP else State()
                            st = st_e.joined(st_n)
                        elif isinstance(t, ast.Name) and ("#" + t.id) in fi.index:
                            st = self.assign_flag(fi, st, "#" + t.id, True)
                        elif isinstance(t, ast.Subscript) and isinstance(t.value, ast.Name) and ("#" + t.value.id) in fi.index:
                            st = self.assign_flag(fi, st, "#" + t.value.id, False)
            if T is ast.Assign and len(s.targets) == 1 and isinstance(s.targets[0], ast.Name) and s.targets[0].id in fi.index and isinstance(s.value, ast.Constant):
                st = self.assign_flag(fi, st, s.targets[0].id, bool(s.value.value))
            if fi.bound_vars:
                # `<lit>.back(v)` needs v bound: paths on which v is unbound raise NameError instead
                if T is ast.Expr and isinstance(s.value, ast.Call) and isinstance(s.value.func, ast.Attribute) and s.value.func.attr == "back" and s.value.args and isinstance(s.value.args[0], ast.Name) and ("@" + s.value.args[0].id) in fi.index:
                    st = self.refine(fi, st, ast.Name(id="@" + s.value.args[0].id, ctx=ast.Load()), True)
                tgts = s.targets if T is ast.Assign else ([s.target] if T in (ast.AugAssign, ast.AnnAssign) else [])
                for t in tgts:
                    for x in ast.walk(t):
                        if isinstance(x, ast.Name) and isinstance(x.ctx, ast.Store) and ("@" + x.id) in fi.index:
                            st = self.assign_flag(fi, st, "@" + x.id, True)
            if self._progress(f, s, pv):
                st = st.set_all(INF)
            return st
        if T is ast.If:
            self.record_expr(f, s.test, st, lits, rec)
            st = st.shifted(self.expr_cost(f, s.test, lits))
            for d in fi.keyerror_dicts(s.test):
                st = self.refine(fi, st, ast.Name(id="#" + d, ctx=ast.Load()), False)
            a = self.walk(f, s.body, self.refine(fi, st, s.test, True), pv, lits, rec)
            b = self.walk(f, s.orelse, self.refine(fi, st, s.test, False), pv, lits, rec)
            fa, fb = a.pop("fall", State()), b.pop("fall", State())
            ex.merge(a)
            ex.merge(b)
            return fa.joined(fb)
        if T in (ast.For, ast.AsyncFor, ast.While):
            return self._loop(f, fi, s, st, ex, pv, lits, rec)
        if T in (ast.With, ast.AsyncWith):
            for it in s.items:
                self.record_expr(f, it.context_expr, st, lits, rec)
                st = st.shifted(self.expr_cost(f, it.context_expr, lits))
            b = self.walk(f, s.body, st, pv, lits, rec)
            fall = b.pop("fall", State())
            ex.merge(b)
            return fall
        if T is ast.Try:
            return self._try(f, fi, s, st, ex, pv, lits, rec)
        if T is ast.Match:
            st = st.shifted(self.expr_cost(f, s.subject, lits))
            fall = State(st)
            for c in s.cases:
                b = self.walk(f, c.body, st, pv, lits, rec)
                fall = fall.joined(b.pop("fall", State()))
                ex.merge(b)
            return fall
        return st

    def _loop(self, f, fi, s, st, ex, pv, lits, rec=None):
        T = type(s)
        if T in (ast.For, ast.While) and any(id(s) in fi.restore_lists.get(L, ()) for L in self._active_lists(fi, rec)):
            return st
        if T is ast.While:
            self.record_expr(f, s.test, st, lits, rec)
            itercost = self.expr_cost(f, s.test, lits)
            pre = 0
            infinite = isinstance(s.test, ast.Constant) and bool(s.test.value)
        else:
            self.record_expr(f, s.iter, st, lits, rec)
            pre = self.expr_cost(f, s.iter, lits)
            itercost = 1 if (isinstance(s.iter, ast.Name) and s.iter.id in lits) else 0
            infinite = False
        st = st.shifted(pre)
        head = State(st)
        body_ex = Exits()
        for it in range(8):
            start = head.shifted(itercost)
            if fi.blank_var is not None and itercost != 0:
                tracked = T is not ast.While and isinstance(s.target, ast.Name) and s.target.id == fi.blank_var and itercost == 1
                start = self.blank_consume(fi, start, tracked)
            if T is ast.While:
                start = self.refine(fi, start, s.test, True)
            elif fi.bound_vars:
                for x in ast.walk(s.target):
                    if isinstance(x, ast.Name) and ("@" + x.id) in fi.index:
                        start = self.assign_flag(fi, start, "@" + x.id, True)
            body_ex = self.walk(f, s.body, start, frozenset(), lits, rec)
            back = body_ex.get("fall", State()).joined(body_ex.get("continue", State()))
            new_head = head.joined(back)
            if new_head == head:
                break
            if it >= 5:
                # still decreasing: unbounded push-back around the loop
                new_head = State({k: (NEG if (k not in head or v < head[k]) else v) for k, v in new_head.items()})
            head = new_head
        # exits of the loop
        fall = State()
        if not infinite:
            zero = head.shifted(itercost if T is ast.While else 0)
            if T is ast.While:
                zero = self.refine(fi, zero, s.test, False)
            o = self.walk(f, s.orelse, zero, pv, lits, rec)
            fall = o.pop("fall", State())
            ex.merge(o)
        fall = fall.joined(body_ex.get("break", State()))
        for k in ("return", "raise"):
            if k in body_ex:
                ex.put(k, body_ex[k])
        return fall

    def _try(self, f, fi, s, st, ex, pv, lits, rec=None):
        brec = Recorder() if rec is not None else None
        b = self.walk(f, s.body, st, pv, lits, brec)
        if rec is not None:
            catcher = None
            for h in s.handlers:
                if _handler_catches(h, "StopIteration"):
                    catcher = h
                    break
            if catcher is not None:
                swallow = not any(isinstance(x, ast.Raise) for hs_ in catcher.body for x in ast.walk(hs_))
                if swallow:
                    for k, v in brec.si.items():
                        rec.swallowed.append((s, catcher, k, v, f.qualname))
                brec.si = {}
            rec.absorb(brec)
        fall = b.pop("fall", State())
        # handler entry: any prefix of the body may have executed
        has_neg = self._has_pushback(f, s.body, lits)
        # flags may have been changed by a prefix of the body: forget flags assigned in the body
        assigned = {t.id for n in s.body for x in ast.walk(n) if isinstance(x, ast.Assign) for t in x.targets if isinstance(t, ast.Name) and t.id in fi.index}
        hs = State()
        for k, v in st.items():
            nk = tuple(None if fi.flags[i] in assigned else k[i] for i in range(len(k)))
            vv = NEG if has_neg else v
            hs[nk] = min(hs[nk], vv) if nk in hs else vv
        if s.orelse and fall:
            o = self.walk(f, s.orelse, fall, pv, lits, rec)
            fall = o.pop("fall", State())
            b.merge(o)
        caught_raise = b.pop("raise", State()) if s.handlers else State()
        out_fall = fall
        for h in s.handlers:
            hstart = hs.joined(caught_raise)
            hb = self.walk(f, h.body, hstart, pv, lits, rec)
            out_fall = out_fall.joined(hb.pop("fall", State()))
            b.merge(hb)
        if caught_raise and not self._catches_all(s):
            b.put("raise", caught_raise)
        if s.finalbody:
            fb = self.walk(f, s.finalbody, State({fi.init: 0}), pv, lits)
            c = fb.get("fall", State()).minval() or 0
            out_fall = out_fall.shifted(c)
        ex.merge(b)
        return out_fall

    @staticmethod
    def _catches_all(st):
        return any(h.type is None or (isinstance(h.type, ast.Name) and h.type.id in ("Exception", "BaseException")) for h in st.handlers)

    def _has_pushback(self, f, stmts, lits):
        for st in stmts:
            for n in ast.walk(st):
                if isinstance(n, ast.Call) and self.call_cost(f, n, lits) < 0:
                    return True
        return False

    # ----------------------------------------------------------- loop cycles
    def cycle_min(self, f: Func, loop, lits=None):
        """Minimum net consumption over paths from the loop head back to the head that do not
        strictly advance a variable of the loop test.  None = no such path."""
        lits = self.lit_names(f) if lits is None else lits
        fi = self.finfo(f)
        inside = {id(x) for x in ast.walk(loop)}
        self._refund_active = {L for L, ids in fi.restore_lists.items() if ids <= inside}
        try:
            return self._cycle_min(f, loop, lits, fi)
        finally:
            self._refund_active = set()

    def _cycle_min(self, f, loop, lits, fi):
        test_vars = frozenset(names_in(loop.test) & f.locals) if isinstance(loop, ast.While) else frozenset()
        itercost = self.expr_cost(f, loop.test, lits) if isinstance(loop, ast.While) else (1 if (isinstance(loop.iter, ast.Name) and loop.iter.id in lits) else 0)
        start = State({fi.init: itercost})
        if isinstance(loop, ast.While):
            start = self.refine(fi, start, loop.test, True)
        elif fi.bound_vars:
            # the loop target has just been bound by the iteration (as in _loop)
            for x in ast.walk(loop.target):
                if isinstance(x, ast.Name) and ("@" + x.id) in fi.index:
                    start = self.assign_flag(fi, start, "@" + x.id, True)
        rel = self.walk(f, loop.body, start, test_vars, lits)
        back = rel.get("fall", State()).joined(rel.get("continue", State()))
        return back.minval()


def _handler_catches(h, cls):
    t = h.type
    if t is None:
        return True
    elts = t.elts if isinstance(t, ast.Tuple) else [t]
    for e in elts:
        nm = e.id if isinstance(e, ast.Name) else getattr(e, "attr", None)
        if nm in (cls, "Exception", "BaseException"):
            return True
    return False


# frozen exception table: (function qualname, normalised loop test) -> reason
TERMINATION_EXCEPTIONS = {
    ("iodata.formats.cp2klog._read_cp2k_contracted_obasis", "True"): (
        "the zero-net-consumption cycle needs the inner for-loop to run zero times (end of file right after a "
        "'Functions' header); then coeffs is an empty 1-D array and coeffs.shape[1] raises IndexError (funnelled)"
    ),
}


def _takes_shape1(node) -> bool:
    return any(isinstance(x, ast.Subscript) and isinstance(x.value, ast.Attribute) and x.value.attr == "shape" and isinstance(x.slice, ast.Constant) and x.slice.value == 1 for x in ast.walk(node))


def _exception_premise(f, loop, prog=None) -> bool:
    """The reason of the frozen exception is checked, not trusted: every path from a push-back (`<lit>.back(...)`)
    inside the loop body back to the loop head passes through the statement that takes `.shape[1]` of the collected
    coefficients (the one that raises for an empty block).  A `continue` / early branch between the two leaves a
    cycle that neither consumes a line nor raises."""
    from .cfg import cfg_of

    cfg = cfg_of(f)
    backs = [st for st in ast.walk(loop) if isinstance(st, ast.Expr) and isinstance(st.value, ast.Call) and isinstance(st.value.func, ast.Attribute) and st.value.func.attr == "back"]
    # ... the statement itself, or a call of a plain helper of the module that takes `.shape[1]` unconditionally at its
    # top level (the shell builder moved into a helper)
    helpers = set()
    for cs in getattr(f, "calls", ()):
        for g in cs.callees:
            if g.module is f.module and g.parent is None and any(not isinstance(st, (ast.If, ast.For, ast.While, ast.Try, ast.With)) and _takes_shape1(st) for st in g.body):
                helpers.add(id(cs.node))
    raising = [st for st in ast.walk(loop) if isinstance(st, ast.stmt) and not isinstance(st, (ast.While, ast.For, ast.If, ast.Try, ast.With)) and (_takes_shape1(st) or any(isinstance(x, ast.Call) and id(x) in helpers for x in ast.walk(st)))]
    if not backs or not raising:
        return False
    try:
        head = cfg.idx(loop)
        through = [cfg.idx(st) for st in raising]
        return all(cfg.must_pass([head], through, start=cfg.idx(b)) for b in backs)
    except (KeyError, ValueError):
        return False


def _structural_progress(cons: Consumption, f, loop):
    """Idiom: the sequence measured by the test is rebound to its own proper suffix on every cycle."""
    t = loop.test

    def len_arg(e):
        if isinstance(e, ast.Call) and isinstance(e.func, ast.Name) and e.func.id == "len" and e.args and isinstance(e.args[0], ast.Name):
            return e.args[0].id
        return None

    shrink = None
    if isinstance(t, ast.Compare) and len(t.ops) == 1:
        l, op = t.left, t.ops[0]
        if len_arg(l) and isinstance(op, (ast.Gt, ast.GtE, ast.NotEq)):
            shrink = len_arg(l)
    elif isinstance(t, ast.Name):
        shrink = t.id
    if not shrink:
        return None
    # the last top-level statement kinds we accept must be unconditional in the loop body
    for st in loop.body:
        if isinstance(st, ast.Assign) and len(st.targets) == 1 and isinstance(st.targets[0], ast.Name) and st.targets[0].id == shrink:
            v = st.value
            if isinstance(v, ast.Subscript) and isinstance(v.value, ast.Name) and v.value.id == shrink and isinstance(v.slice, ast.Slice) and v.slice.lower is not None and v.slice.upper is None and v.slice.step is None:
                if cons.is_positive(f, v.slice.lower):
                    # no other statement of the body may re-grow the sequence
                    others = [x for s2 in loop.body if s2 is not st for x in ast.walk(s2) if isinstance(x, ast.Name) and x.id == shrink and isinstance(x.ctx, ast.Store)]
                    if not others:
                        return f"`{shrink}` is rebound to its own proper suffix [{src_of(v.slice.lower)}:] (positive) on every cycle"
        if isinstance(st, (ast.Expr, ast.Assign)):
            for n in ast.walk(st):
                if isinstance(n, ast.Call) and isinstance(n.func, ast.Attribute) and n.func.attr == "pop" and isinstance(n.func.value, ast.Name) and n.func.value.id == shrink:
                    return f"`{shrink}.pop()` on every cycle"
    return None


def check_termination(ctx, prog: Program, lits):
    cons = Consumption(prog, lits)
    roots = []
    for short in prog.format_modules():
        for op in ("load_one", "load_many"):
            g = prog.format_op(short, op)
            if g:
                roots.append(g)
    roots += [prog.func("iodata.api.load_one"), prog.func("iodata.api.load_many")]
    reach = prog.callees_closure(roots)
    rset = {f.qualname for f in reach}
    graph = {f.qualname: {g.qualname for cs in f.calls for g in cs.callees if g.qualname in rset and cs.cls is None} for f in reach}
    # Tarjan SCC (iterative)
    index, low, onstack, stack, sccs = {}, {}, set(), [], []
    for root in graph:
        if root in index:
            continue
        work = [(root, iter(graph[root]))]
        index[root] = low[root] = len(index)
        stack.append(root)
        onstack.add(root)
        while work:
            v, it = work[-1]
            advanced = False
            for w in it:
                if w not in index:
                    index[w] = low[w] = len(index)
                    stack.append(w)
                    onstack.add(w)
                    work.append((w, iter(graph[w])))
                    advanced = True
                    break
                if w in onstack:
                    low[v] = min(low[v], index[w])
            if advanced:
                continue
            work.pop()
            if work:
                low[work[-1][0]] = min(low[work[-1][0]], low[v])
            if low[v] == index[v]:
                comp = []
                while True:
                    w = stack.pop()
                    onstack.discard(w)
                    comp.append(w)
                    if w == v:
                        break
                sccs.append(comp)
    rec = [c for c in sccs if len(c) > 1 or c[0] in graph[c[0]]]
    for comp in rec:
        fobj = prog.funcs[comp[0]]
        ctx.violate("R4", f"recursive call cycle among loader functions {sorted(comp)} (termination not evident)", fobj, fobj.node, construct="recursion " + ",".join(sorted(comp)))
    if not rec:
        ctx.ok("R4", f"call graph of {len(reach)} loader-reachable functions is acyclic", "iodata/formats")
    nloops = 0
    nfor = 0
    for f in sorted(reach, key=lambda x: x.qualname):
        flits = cons.lit_names(f)
        for n in f.own_nodes():
            if isinstance(n, ast.While):
                nloops += 1
                where = f"{f.module.relpath}:{n.lineno}"
                cyc = cons.cycle_min(f, n, flits)
                how = None
                if cyc is None:
                    how = "no path returns to the loop head"
                elif cyc >= INF // 2:
                    how = "every cycle strictly advances a variable of the loop test"
                elif cyc >= 1:
                    how = f"every cycle attempts to consume >= {cyc} line(s) net of push-backs"
                else:
                    how = _structural_progress(cons, f, n)
                key = (f.qualname, " ".join(src_of(n.test).split()))
                if how:
                    ctx.ok("R4", f"{f.name}: while {src_of(n.test)[:40]}: {how}", where, sample=(nloops % 9 == 1))
                elif key in TERMINATION_EXCEPTIONS and _exception_premise(f, n):
                    ctx.ok("R4", f"{f.name}: while {src_of(n.test)[:40]}: frozen exception: {TERMINATION_EXCEPTIONS[key]}", where)
                else:
                    c = "-inf" if cyc <= NEG // 2 else cyc
                    ctx.violate("R4", f"while loop may spin: a cycle with net line consumption {c} and no strict progress on a test variable exists", f, n, construct="while " + src_of(n.test))
            elif isinstance(n, ast.For):
                it = n.iter
                if isinstance(it, ast.Name) and it.id in flits and any(isinstance(x, ast.Call) and isinstance(x.func, ast.Attribute) and x.func.attr == "back" for x in ast.walk(n)):
                    # `for line in lit:` ends by exhaustion only if every turn that comes back to the head has consumed
                    # a line net of push-backs (`lit.back(line)` followed by `continue` delivers the same line forever)
                    nfor += 1
                    cyc = cons.cycle_min(f, n, flits)
                    where = f"{f.module.relpath}:{n.lineno}"
                    if cyc is None or cyc >= 1:
                        ctx.ok("R4", f"{f.name}: for {src_of(n.target)} in {it.id}: every turn that returns to the head consumes >= 1 line net of push-backs", where, sample=(nfor % 4 == 1))
                    else:
                        ctx.violate("R4", f"for-loop over the line iterator may spin: a turn that puts its line back returns to the loop head (net consumption {'-inf' if cyc <= NEG // 2 else cyc}); the same line is delivered again", f, n, construct=f"for {src_of(n.target)} in {it.id} with push-back")
                r = prog.resolve_expr(f, f.module, it.func) if isinstance(it, ast.Call) else None
                bad = bool(r and r[0] == "external" and r[1] in ("itertools.count", "itertools.cycle", "itertools.repeat"))
                bad = bad or (isinstance(it, ast.Call) and isinstance(it.func, ast.Name) and it.func.id == "iter" and len(it.args) == 2)
                if bad:
                    ctx.violate("R4", "for-loop over an unbounded iterator", f, n, construct="for over " + src_of(it))
    ctx.extra["while_loops_checked"] = nloops
    ctx.floor("R4", nloops, 45, "while loops in loader-reachable functions")
    return cons
