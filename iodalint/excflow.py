"""E3 -- interprocedural may-escape exception analysis (PEP 479 aware).

Tracked classes: StopIteration, the iodata error classes, and 'Other'.
Every element of an escape set is a *source*: (class, function, line, kind),
so that a report can name the statement an exception comes from.
"""

from __future__ import annotations

import ast
from typing import Optional

from .model import CallSite, Func, Program

IODATA_ERRORS = ("FileFormatError", "LoadError", "DumpError", "PrepareDumpError", "WriteInputError")
TRACKED = ("StopIteration",) + IODATA_ERRORS + ("Other",)

# externals assumed total (never raising) on the argument types they get here
TOTAL_EXTERNALS = {
    "os.path.basename", "os.path.normcase", "os.path.splitext", "fnmatch.fnmatch", "fnmatch.fnmatchcase", "builtins.hasattr", "builtins.any", "builtins.all",
    "builtins.isinstance", "builtins.len", "builtins.iter", "builtins.getattr3", "warnings.warn",
    "warnings.catch_warnings", "builtins.str", "builtins.repr", "builtins.id", "builtins.type",
    "builtins.callable", "builtins.sorted", "builtins.list", "builtins.dict", "builtins.tuple",
    "builtins.set", "builtins.print0", "builtins.super",
}
TOTAL_METHODS = {"values", "items", "keys", "get", "format", "join", "startswith", "endswith", "strip", "lower", "upper", "append", "close", "clear", "copy", "rstrip", "lstrip", "title", "search", "match", "fullmatch"}


def src_of_type(t):
    try:
        return ast.unparse(t)
    except Exception:
        return "?"


class Src(tuple):
    """(cls, func_qualname, lineno, kind)"""

    __slots__ = ()

    @property
    def cls(self):
        return self[0]

    @property
    def where(self):
        return f"{self[1]}:{self[2]}"

    @property
    def kind(self):
        return self[3]


def _classes_of_handler(prog: Program, func: Func, typ) -> Optional[set]:
    """Set of tracked classes a handler type catches; None means 'everything'."""
    return _handler_classes(typ)[0]


def _handler_classes(typ):
    """(tracked classes caught or None for everything, names of untracked specific classes)."""
    if typ is None:
        return None, []
    if isinstance(typ, ast.Tuple):
        out, unt = set(), []
        for e in typ.elts:
            c, u = _handler_classes(e)
            if c is None:
                return None, []
            out |= c
            unt += u
        return out, unt
    name = typ.id if isinstance(typ, ast.Name) else (typ.attr if isinstance(typ, ast.Attribute) else None)
    if name in ("Exception", "BaseException"):
        return None, []
    if name == "BaseFileError":
        return set(IODATA_ERRORS), []
    if name in IODATA_ERRORS or name == "StopIteration":
        return {name}, []
    return set(), [name or src_of_type(typ)]  # a specific other class: removes nothing we track


def _is_attrs_class(ci) -> bool:
    for d in ci.node.decorator_list:
        t = d.func if isinstance(d, ast.Call) else d
        nm = t.attr if isinstance(t, ast.Attribute) else getattr(t, "id", "")
        if nm in ("define", "s", "attrs", "frozen", "mutable", "dataclass"):
            return True
    return False


class ExcFlow:
    def __init__(self, prog: Program):
        self.prog = prog
        prog.build_callgraph()
        self.summary: dict[str, frozenset] = {}
        self.callsite_of: dict[int, CallSite] = {}
        for f in list(prog.funcs.values()) + [m.toplevel for m in prog.modules.values()]:
            for cs in f.calls:
                self.callsite_of[id(cs.node)] = cs
        self._solve()

    # ----------------------------------------------------------------- solve
    def _solve(self):
        funcs = list(self.prog.funcs.values())
        for f in funcs:
            self.summary[f.qualname] = frozenset()
        changed = True
        rounds = 0
        while changed and rounds < 30:
            changed = False
            rounds += 1
            for f in funcs:
                new = frozenset(self._func_escape(f))
                if new != self.summary[f.qualname]:
                    self.summary[f.qualname] = new
                    changed = True

    def escapes(self, func: Func) -> frozenset:
        return self.summary.get(func.qualname, frozenset())

    def escapes_as_consumed(self, func: Func) -> set:
        """Escape set seen by a consumer (PEP 479 applied for generators)."""
        s = self.escapes(func)
        if func.is_generator:
            return {Src(("Other", x[1], x[2], "pep479:" + x[3])) if x[0] == "StopIteration" else x for x in s}
        return set(s)

    def _func_escape(self, f: Func) -> set:
        return self.stmts_escape(f, f.body)

    # ------------------------------------------------------------ statements
    def stmts_escape(self, f: Func, stmts, reraise=None) -> set:
        out = set()
        for st in stmts:
            out |= self.stmt_escape(f, st, reraise)
        return out

    def stmt_escape(self, f: Func, st, reraise=None) -> set:
        if isinstance(st, (ast.FunctionDef, ast.AsyncFunctionDef, ast.ClassDef)):
            out = set()
            for d in st.decorator_list:
                out |= self.expr_escape(f, d)
            return out
        if isinstance(st, ast.Raise):
            out = set()
            if st.exc is None:
                return set(reraise or ())
            e = st.exc
            out |= self.expr_escape(f, e, skip_outer_call=True)
            cls = self._exc_class(f, e)
            out.add(Src((cls, f.qualname, st.lineno, "raise")))
            return out
        if isinstance(st, ast.Try):
            body = self.stmts_escape(f, st.body, reraise)
            out = set()
            remaining = set(body)
            for h in st.handlers:
                classes, untracked = _handler_classes(h.type)
                if classes is None:
                    caught = set(remaining)
                    remaining -= caught
                else:
                    caught = {s for s in remaining if s[0] in classes}
                    remaining -= caught
                    if untracked:
                        # a specific untracked class (OSError, ValueError, ...) MAY catch any 'Other'
                        # source; those sources are not removed (they may also not match)
                        hname = "/".join(untracked)
                        caught |= {Src(("Other", s[1], s[2], f"{s[3]} via except {hname}")) for s in remaining if s[0] == "Other"}
                out |= self.stmts_escape(f, h.body, reraise=caught)
            out |= remaining
            out |= self.stmts_escape(f, st.orelse, reraise)
            out |= self.stmts_escape(f, st.finalbody, reraise)
            return out
        if isinstance(st, (ast.With, ast.AsyncWith)):
            out = set()
            suppress = None
            for it in st.items:
                out |= self.expr_escape(f, it.context_expr)
                ce = it.context_expr
                cs0 = self.callsite_of.get(id(ce)) if isinstance(ce, ast.Call) else None
                if cs0 is not None and cs0.cls is not None:
                    for nm in ("__enter__", "__exit__"):
                        m = cs0.cls.methods.get(nm)
                        if m is not None:
                            out |= self.escapes_as_consumed(m)
                if isinstance(ce, ast.Call):
                    r = self.prog.resolve_expr(f, f.module, ce.func)
                    if r and r[0] == "external" and r[1] == "contextlib.suppress":
                        suppress = _classes_of_handler(self.prog, f, ast.Tuple(elts=list(ce.args)))
            body = self.stmts_escape(f, st.body, reraise)
            if suppress is None and any(
                isinstance(it.context_expr, ast.Call) and (self.prog.resolve_expr(f, f.module, it.context_expr.func) or ("", ""))[1] == "contextlib.suppress"
                for it in st.items
            ):
                body = set()
            elif suppress:
                body = {s for s in body if s[0] not in suppress}
            return out | body
        if isinstance(st, (ast.For, ast.AsyncFor)):
            return self.expr_escape(f, st.iter) | self.stmts_escape(f, st.body, reraise) | self.stmts_escape(f, st.orelse, reraise)
        if isinstance(st, ast.While):
            return self.expr_escape(f, st.test) | self.stmts_escape(f, st.body, reraise) | self.stmts_escape(f, st.orelse, reraise)
        if isinstance(st, ast.If):
            return self.expr_escape(f, st.test) | self.stmts_escape(f, st.body, reraise) | self.stmts_escape(f, st.orelse, reraise)
        if isinstance(st, ast.Match):
            out = self.expr_escape(f, st.subject)
            for c in st.cases:
                out |= self.stmts_escape(f, c.body, reraise)
            return out
        out = set()
        for ch in ast.iter_child_nodes(st):
            if isinstance(ch, ast.expr):
                out |= self.expr_escape(f, ch)
        return out

    def _exc_class(self, f, e) -> str:
        if isinstance(e, ast.Call):
            e = e.func
        name = e.id if isinstance(e, ast.Name) else (e.attr if isinstance(e, ast.Attribute) else None)
        if name in IODATA_ERRORS or name == "StopIteration":
            return name
        # a local variable holding an exception: unknown
        return "Other"

    # ----------------------------------------------------------- expressions
    def expr_escape(self, f: Func, e, skip_outer_call=False) -> set:
        out = set()
        self._expr(f, e, out, in_genexp=False, skip=e if skip_outer_call else None)
        return out

    def _expr(self, f, e, out, in_genexp, skip=None):
        if isinstance(e, ast.Lambda):
            return  # body runs when called
        if isinstance(e, ast.GeneratorExp):
            sub = set()
            self._expr(f, e.elt, sub, True)
            for g in e.generators:
                self._expr(f, g.iter, sub, True)
                for c in g.ifs:
                    self._expr(f, c, sub, True)
            for s in sub:
                out.add(Src(("Other", s[1], s[2], "pep479:" + s[3])) if s[0] == "StopIteration" else s)
            return
        if isinstance(e, ast.Call) and e is not skip:
            out |= self.call_escape(f, e)
        elif isinstance(e, ast.Call) and e is skip:
            # constructing the exception object itself: arguments may still raise
            pass
        if isinstance(e, (ast.Yield, ast.YieldFrom, ast.Await)):
            pass
        for ch in ast.iter_child_nodes(e):
            if isinstance(ch, (ast.expr, ast.comprehension, ast.keyword)):
                if isinstance(ch, ast.comprehension):
                    self._expr(f, ch.iter, out, in_genexp)
                    for c in ch.ifs:
                        self._expr(f, c, out, in_genexp)
                elif isinstance(ch, ast.keyword):
                    self._expr(f, ch.value, out, in_genexp)
                else:
                    self._expr(f, ch, out, in_genexp)

    def call_escape(self, f: Func, call: ast.Call) -> set:
        cs = self.callsite_of.get(id(call))
        out = set()
        if cs is None:
            out.add(Src(("Other", f.qualname, call.lineno, "call:?")))
            return out
        if cs.callees:
            if cs.cls is not None:
                # constructor of a package class: attrs validators/converters may raise
                from .model import src_of

                if cs.cls.name in IODATA_ERRORS or cs.cls.name.endswith("Warning") or cs.cls.name.endswith("Error"):
                    return out
                if _is_attrs_class(cs.cls):
                    out.add(Src(("Other", f.qualname, call.lineno, "construct:" + cs.cls.name)))
            for g in cs.callees:
                out |= self.escapes_as_consumed(g)
            return out
        if cs.cls is not None:
            if cs.cls.name in IODATA_ERRORS or cs.cls.name.endswith("Warning") or cs.cls.name.endswith("Error"):
                return out
            if _is_attrs_class(cs.cls):
                out.add(Src(("Other", f.qualname, call.lineno, "construct:" + cs.cls.name)))
            return out
        if cs.external:
            nm = cs.external
            if nm == "builtins.next":
                if len(call.args) == 1 and not call.keywords:
                    out.add(Src(("StopIteration", f.qualname, call.lineno, "next")))
                return out
            if nm in TOTAL_EXTERNALS:
                return out
            if nm == "builtins.open":
                out.add(Src(("Other", f.qualname, call.lineno, "open")))
                return out
            out.add(Src(("Other", f.qualname, call.lineno, "call:" + nm)))
            return out
        if cs.method:
            if cs.method in TOTAL_METHODS:
                return out
            out.add(Src(("Other", f.qualname, call.lineno, "method:" + cs.method)))
            return out
        out.add(Src(("Other", f.qualname, call.lineno, "call:?")))
        return out


def report_escapes(ctx, rid, f, esc, allowed_classes):
    """Shared by C07-R1 / C08-R2: one finding per (class, route), witnesses list the sources."""
    by = {}
    for s in esc:
        by.setdefault(s[0], []).append(s)
    for cls, srcs in sorted(by.items()):
        if cls in allowed_classes:
            ctx.ok(rid, f"{f.name}: {len(srcs)} {cls} source(s) may escape (allowed)", f.where)
            continue
        groups = {}
        for s in sorted(srcs):
            if cls == "Other" and s[3] == "open":
                ctx.ok(rid, f"{f.name}: OS error of open() at {s[1]}:{s[2]} (allowed)", f.where)
                continue
            route = ("re-raised by `except " + s[3].split(" via except ")[-1] + "`") if " via except " in s[3] else f"{s[1]} {s[3]}"
            groups.setdefault(route, []).append(s)
        shown = 0
        for route, ss in sorted(groups.items()):
            shown += 1
            if shown > 6:
                ctx.note(f"{f.name}: {len(groups) - 6} further unconverted {cls} routes not listed")
                break
            ctx.violate(rid, f"{cls} can escape {f.name} unconverted: {route} ({len(ss)} source(s), e.g. {ss[0][1]}:{ss[0][2]})", f, f.node, construct=f"{cls} <- {route}", witness=[f"{x[1]}:{x[2]} {x[3]}" for x in ss[:6]], entry=f.qualname)
