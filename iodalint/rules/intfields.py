"""Real-valued count attributes (nelec, charge, spinpol) written into integer fields are rounded, never truncated,
and are not handed to an integer-only format code as floats (shared by C01 / C02 / C19)."""

from __future__ import annotations

import ast

from ..astutil import single_def
from ..model import src_of

COUNT_ATTRS = ("nelec", "charge", "spinpol")
ROUNDERS = ("round", "rint", "around")


def _mentions_count(func, e, depth=0):
    for x in ast.walk(e):
        if isinstance(x, ast.Attribute) and x.attr in COUNT_ATTRS:
            return x.attr
        if isinstance(x, ast.Name) and depth < 3 and x.id in func.locals and x.id not in func.params:
            d = single_def(func, x.id)
            if d is not None and d is not e:
                r = _mentions_count(func, d, depth + 1)
                if r:
                    return r
    return None


def _rounded(func, e, depth=0):
    for x in ast.walk(e):
        if isinstance(x, ast.Call):
            nm = x.func.attr if isinstance(x.func, ast.Attribute) else getattr(x.func, "id", "")
            if nm in ROUNDERS:
                return True
        if isinstance(x, ast.Name) and depth < 3 and x.id in func.locals and x.id not in func.params:
            d = single_def(func, x.id)
            if d is not None and d is not e and _rounded(func, d, depth + 1):
                return True
    return False


def check_integer_fields(ctx, rid, funcs, floor=3):
    n = 0
    for f in funcs:
        for node in f.own_nodes():
            if isinstance(node, ast.Call) and getattr(node.func, "id", "") == "int" and len(node.args) == 1:
                attr = _mentions_count(f, node.args[0])
                if attr:
                    n += 1
                    if _rounded(f, node.args[0]):
                        ctx.ok(rid, f"{f.name}: `{src_of(node)[:60]}` rounds `{attr}` before converting", f"{f.module.relpath}:{node.lineno}", sample=(n % 3 == 1))
                    else:
                        ctx.violate(rid, f"`{src_of(node)[:70]}` truncates the real-valued `{attr}` toward zero: a value such as 9.9999999 (a sum of occupation numbers) is written as 9", f, node)
            elif isinstance(node, ast.FormattedValue) and node.format_spec is not None:
                spec = "".join(str(v.value) for v in node.format_spec.values if isinstance(v, ast.Constant))
                if spec.endswith("d") and not (isinstance(node.value, ast.Call) and getattr(node.value.func, "id", "") == "int"):
                    attr = _mentions_count(f, node.value)
                    if attr and not _int_valued(f, node.value):
                        n += 1
                        ctx.violate(rid, f"`{{{src_of(node.value)}:{spec}}}` formats the real-valued `{attr}` with an integer-only format code: a float (the documented type) raises ValueError while the file is being written", f, node)
    ctx.floor(rid, n, floor, "integer fields fed from nelec / charge / spinpol")


def _int_valued(func, e, depth=0):
    """The expression is an int(...) conversion, possibly through single-definition locals / `x or 0`."""
    if isinstance(e, ast.Call) and getattr(e.func, "id", "") == "int":
        return True
    if isinstance(e, ast.BoolOp):
        return all(_int_valued(func, v, depth) or (isinstance(v, ast.Constant) and isinstance(v.value, int)) for v in e.values)
    if isinstance(e, ast.BinOp):
        return _int_valued(func, e.left, depth) and (_int_valued(func, e.right, depth) or (isinstance(e.right, ast.Constant) and isinstance(e.right.value, int)))
    if isinstance(e, ast.Name) and depth < 3:
        d = single_def(func, e.id)
        return d is not None and _int_valued(func, d, depth + 1)
    return False
