"""C12 -- orbital and shell objects keep their derived quantities consistent (structural clauses)."""

from __future__ import annotations

import ast

import numpy as np

from .. import AnalysisError
from ..astutil import raises_class, walk_stmts
from ..cfg import cfg_of
from ..model import src_of
from ..schema import class_schema

PROP = "C12"
LEVEL = "other"
TECHNIQUE = "static analysis: attrs schema model (validators per field), dominance of the generalized-orbitals guard, sibling cross-check of the alpha/beta accessor templates, polynomial normalisation of the function-count formula"
EXPLANATION = (
    "Static decision of the structural clauses of C12: (R1) validator schema of MolecularOrbitals and Shell "
    "(norb-tied arrays, kind-aware norba/norbb validator, kind literal set, occs_aminusb only for "
    "restricted, the four cross-references between Shell arrays); (R2) every alpha/beta accessor, both "
    "setters and spinpol begin with the generalized => NotImplementedError guard; (R3) for occs, coeffs, "
    "energies, irreps the alpha and beta accessors are complementary slices at the same split point norba "
    "(second axis for coeffs) and return the shared array for restricted orbitals; (R4) the restricted "
    "setters store occs = a + b and occs_aminusb = a - b from the argument and the opposite-spin getter, "
    "the unrestricted setters write the complementary slice; (R5) nelec = occs.sum(), unrestricted spinpol "
    "= |sum a - sum b|, norb = norba / norba + norbb; (R6) Shell.nbasis adds (l+1)(l+2)/2 for 'c', 2l+1 "
    "for 'p' with l >= 2 and raises TypeError otherwise.  Declined: the integer-vs-fractional heuristic's "
    "behaviour on values; read-back to rounding; arbitrary assignment histories on values."
)
TECHNIQUE += '; finite-domain constant evaluation of Shell.nbasis; sibling predicate agreement'
EXPLANATION += ' R6 now evaluates Shell.nbasis over 179 (angmoms, kinds) combinations against (l+1)(l+2)/2 / 2l+1 / TypeError; R3 also requires occsa, occsb and spinpol to decide the restricted heuristic with one and the same predicate (helper calls inlined).'
TECHNIQUE += '; evaluation of the MolecularOrbitals accessors on abstract instances (symbolic arrays / constant occupation patterns)'
EXPLANATION += ' R2-R5 no longer match source templates: the property getters and setters of MolecularOrbitals are interpreted (iodalint.accessors, whitelisted statements and numpy index/ring operations only) on abstract instances -- symbolic occupation / coefficient / energy arrays for slices, formulas and read-back of assignments over orbital counts (2,1),(1,2),(2,0),(0,2),(1,1),(3,3); nine constant occupation patterns (integer, fractional, near-integer) for the heuristic; all 64 two-step occsa/occsb assignment sequences over four vectors -- and compared with the documented semantics; cached properties are rejected.'
# --- metadata added for batch 7
EXPLANATION += " R4 also requires that an assigned occupation array is stored by value: the caller's array is changed in place after `mo.occsa = x` and the object must read back the values assigned (np.asarray is modelled as handing back the same array)."
# --- end metadata batch 7
# --- metadata added for batch 8
EXPLANATION += " R1's validator table includes orbital counts of zero (accepted for restricted / unrestricted, rejected for generalized)."
# --- end metadata batch 8
# --- metadata added for batch 9
EXPLANATION += ' R4 also: on unrestricted orbitals without occupations an assignment of a spin block is refused or reads back as assigned.'
# --- end metadata batch 9
TRUSTED = ["CPython ast parser", "attrs validators run on construction and assignment"]

SPIN_ATTRS = ("occs", "coeffs", "energies", "irreps")


def _validators(st):
    """Names of validator callables / validate_shape argument tuples in an attrs.field(...) statement."""
    out = []
    if st.value is None or not isinstance(st.value, ast.Call):
        return out
    for k in st.value.keywords:
        if k.arg == "validator":
            for c in ast.walk(k.value):
                if isinstance(c, ast.Call) and getattr(c.func, "id", "") == "validate_shape":
                    out.append(("shape", tuple(src_of(a) for a in c.args)))
                elif isinstance(c, ast.Name) and c.id.startswith("validate_"):
                    out.append(("fn", c.id))
                elif isinstance(c, ast.Call) and isinstance(c.func, ast.Attribute) and c.func.attr == "in_":
                    out.append(("in", src_of(c.args[0])))
    return out


def poly(e, var):
    """Integer polynomial (dict power->coeff) of expression e in variable `var`, or None.

    Supports + - * // by positive int constants that divide all coefficients is NOT assumed: we return
    (polynomial, divisor) pairs so that ((l+1)*(l+2))//2 normalises to (l^2+3l+2, 2)."""
    if isinstance(e, ast.Constant) and isinstance(e.value, int):
        return {0: e.value}, 1
    if isinstance(e, ast.Name) and e.id == var:
        return {1: 1}, 1
    if isinstance(e, ast.BinOp):
        if isinstance(e.op, (ast.FloorDiv, ast.Div)):
            a = poly(e.left, var)
            if a is None or not (isinstance(e.right, ast.Constant) and isinstance(e.right.value, int) and e.right.value > 0):
                return None
            return a[0], a[1] * e.right.value
        a, b = poly(e.left, var), poly(e.right, var)
        if a is None or b is None:
            return None
        (pa, da), (pb, db) = a, b
        if isinstance(e.op, (ast.Add, ast.Sub)):
            sign = 1 if isinstance(e.op, ast.Add) else -1
            out = {}
            for k, v in pa.items():
                out[k] = out.get(k, 0) + v * db
            for k, v in pb.items():
                out[k] = out.get(k, 0) + sign * v * da
            return {k: v for k, v in out.items() if v}, da * db
        if isinstance(e.op, ast.Mult):
            out = {}
            for k1, v1 in pa.items():
                for k2, v2 in pb.items():
                    out[k1 + k2] = out.get(k1 + k2, 0) + v1 * v2
            return {k: v for k, v in out.items() if v}, da * db
    return None


def poly_eq(pq, want, div):
    if pq is None:
        return False
    p, d = pq
    # p/d == want/div  <=>  p*div == want*d
    a = {k: v * div for k, v in p.items() if v}
    b = {k: v * d for k, v in want.items() if v}
    return a == b


def _nbasis_by_evaluation(ctx, prog, nb):
    """Decide Shell.nbasis by evaluating the getter's own code over a finite domain of (angmoms, kinds) constants.

    Domain: every single contraction l in 0..9 with kind 'c', 'p' or an unknown letter, and every pair / selected
    triples of contractions (generalized shells mixing Cartesian and pure).  Oracle: sum of (l+1)(l+2)/2 for 'c' and
    2l+1 for 'p' with l >= 2; TypeError when any contraction is 'p' with l < 2 or has an unknown kind.
    Returns False when the evaluator cannot run the code (the structural rule then decides).
    """
    from ..consteval import ConstEval, NotConstant, Raised, Record
    import itertools

    ce = ConstEval(prog)
    ce.allow_raise = True

    def oracle(ls, ks):
        tot = 0
        for l, k in zip(ls, ks):
            if k == "c":
                tot += (l + 1) * (l + 2) // 2
            elif k == "p" and l >= 2:
                tot += 2 * l + 1
            else:
                return "TypeError"
        return tot

    singles = [(l, k) for l in range(10) for k in ("c", "p", "x")]
    domain = [([l], [k]) for l, k in singles]
    small = [(l, k) for l in (0, 1, 2, 3) for k in ("c", "p", "x")]
    domain += [([a[0], b[0]], [a[1], b[1]]) for a, b in itertools.product(small, repeat=2)]
    domain += [([0, 1, 2], ["c", "c", "p"]), ([2, 3, 4], ["c", "p", "p"]), ([4, 2, 0], ["p", "p", "c"]), ([0, 0, 0], ["c", "c", "c"]), ([1, 2, 3], ["p", "p", "p"])]
    bad = []
    try:
        for ls, ks in domain:
            try:
                got = ce.call_function(nb, [Record(angmoms=list(ls), kinds=list(ks))])
            except Raised as r:
                got = r.cls
            want = oracle(ls, ks)
            if got != want:
                bad.append((ls, ks, got, want))
    except NotConstant as exc:
        ctx.note(f"Shell.nbasis could not be evaluated over the finite domain ({exc}); structural rule used instead")
        return False
    if bad:
        ls, ks, got, want = bad[0]
        ctx.violate("R6", f"Shell.nbasis evaluated on angmoms={ls}, kinds={ks} gives {got}, expected {want} ({len(bad)} of {len(domain)} domain points differ)", nb, nb.node, construct=f"nbasis({ls},{ks})")
    else:
        ctx.ok("R6", f"Shell.nbasis evaluated over {len(domain)} (angmoms, kinds) combinations: (l+1)(l+2)/2 per Cartesian, 2l+1 per pure (l >= 2) contraction, TypeError otherwise", f"{nb.module.relpath}:{nb.lineno}")
        ctx.ok("R6", "any unknown kind, and a pure kind with l < 2, raise TypeError (same evaluation)", f"{nb.module.relpath}:{nb.lineno}")
    return True


def _inline_pred(prog, func, test):
    """Source of a predicate after inlining a call to a module-level single-return helper."""
    t = test
    if isinstance(t, ast.Call) and isinstance(t.func, ast.Name):
        r = prog.resolve_expr(func, func.module, t.func)
        h = r[1] if r and r[0] == "func" else None
        if h is not None:
            rets = [n for n in h.own_nodes() if isinstance(n, ast.Return)]
            if len(rets) == 1 and rets[0].value is not None and len(h.posparams) == len(t.args):
                sub = {p: a for p, a in zip(h.posparams, t.args)}

                class Sub(ast.NodeTransformer):
                    def visit_Name(self, n):
                        return sub.get(n.id, n)

                import copy

                e = Sub().visit(copy.deepcopy(rets[0].value))
                if isinstance(e, ast.Call) and isinstance(e.func, ast.Name) and e.func.id == "bool" and len(e.args) == 1:
                    e = e.args[0]
                return src_of(e)
    return src_of(t)


def _check_mo_validators(ctx, mo):
    from ..accessors import AccessorEval, Raised, Rec
    from ..symarr import NotSymbolic

    prog = ctx.prog

    def outcome(fn, rec, attr_name, value):
        try:
            AccessorEval(prog, mo).run_free(fn, [rec, Rec(None, name=attr_name), value], {})
        except Raised as exc:
            return exc.args[0]
        except NotSymbolic as exc:
            raise AnalysisError(f"{fn.qualname} is outside the accessor-evaluation whitelist: {exc}") from exc
        return None

    vn = prog.funcs.get("iodata.orbitals.validate_norbab")
    if vn is None:
        ctx.violate("R1", "validate_norbab is gone", relpath=mo.module.relpath, function=mo.qualname, construct="validate_norbab missing")
    else:
        rows = []
        for attr, other in (("norba", "norbb"), ("norbb", "norba")):
            # (label, kind, stored counts, value, expected)
            rows += [
                (f"generalized, {attr} = 3", "generalized", {"norba": None, "norbb": None}, 3, "ValueError"),
                (f"generalized, {attr} = 0", "generalized", {"norba": None, "norbb": None}, 0, "ValueError"),
                (f"unrestricted 0/3, {attr} = 0", "unrestricted", {"norba": 0, "norbb": 3}, 0, None),
                (f"restricted 0/0, {attr} = 0", "restricted", {"norba": 0, "norbb": 0}, 0, None),
                (f"generalized, {attr} = None", "generalized", {"norba": None, "norbb": None}, None, None),
                (f"unrestricted, {attr} = None", "unrestricted", {"norba": 5, "norbb": 3}, None, "ValueError"),
                (f"unrestricted 5/3, {attr} = 4", "unrestricted", {"norba": 5, "norbb": 3}, 4, None),
                (f"restricted, {attr} = None", "restricted", {"norba": 5, "norbb": 5}, None, "ValueError"),
                (f"restricted 5/5, {attr} = 5", "restricted", {"norba": 5, "norbb": 5}, 5, None),
                (f"restricted 5/5, assignment {attr} = 3 (instance still holds 5/5)", "restricted", {"norba": 5, "norbb": 5}, 3, "ValueError"),
                (f"restricted, construction with {attr} = 5, {other} = 3", "restricted", {attr: 5, other: 3}, 5, "ValueError"),
            ]
        bad = []
        for label, kind, counts, value, want in rows:
            attr = label.split(",")[1].split("=")[0].replace("assignment", "").replace("construction with", "").strip()
            rec = Rec(mo, kind=kind, norba=counts["norba"], norbb=counts["norbb"], occs=None, coeffs=None, energies=None, irreps=None, occs_aminusb=None)
            got = outcome(vn, rec, attr, value)
            if got != want:
                bad.append(f"{label}: {'accepted' if got is None else 'raises ' + got}, expected {'acceptance' if want is None else want}")
        if bad:
            ctx.violate("R1", f"validate_norbab: {bad[0]} ({len(bad)} of {len(rows)} rows of the decision table differ)", vn, vn.node, construct=f"validate_norbab: {bad[0]}"[:160])
        else:
            ctx.ok("R1", f"validate_norbab, evaluated on {len(rows)} rows (kind x stored counts x assigned value, on assignment and at construction): None iff generalized; norba == norbb for restricted", vn.where)
    vo = prog.funcs.get("iodata.orbitals.validate_occs_aminusb")
    if vo is None:
        ctx.violate("R1", "validate_occs_aminusb is gone", relpath=mo.module.relpath, function=mo.qualname, construct="validate_occs_aminusb missing")
    else:
        bad = []
        n = 0
        for kind in ("restricted", "unrestricted", "generalized"):
            for value, vlabel in ((None, "None"), (np.array([1.0, 0.0]), "an array")):
                want = "ValueError" if (kind != "restricted" and value is not None) else None
                rec = Rec(mo, kind=kind, norba=2 if kind != "generalized" else None, norbb=2 if kind != "generalized" else None, occs=None, coeffs=None, energies=None, irreps=None, occs_aminusb=None)
                got = outcome(vo, rec, "occs_aminusb", value)
                n += 1
                if got != want:
                    bad.append(f"{kind}, occs_aminusb = {vlabel}: {'accepted' if got is None else 'raises ' + got}, expected {'acceptance' if want is None else want}")
        if bad:
            ctx.violate("R1", f"validate_occs_aminusb: {bad[0]}", vo, vo.node, construct=f"validate_occs_aminusb: {bad[0]}"[:160])
        else:
            ctx.ok("R1", f"validate_occs_aminusb, evaluated on {n} rows: a value is accepted only for restricted orbitals", vo.where)


def run(ctx):
    prog = ctx.prog
    ctx.clauses_decided = ["R1 validator schema", "R2 generalized refuses spin-resolved access", "R3 slice templates", "R4 setters write both stored fields consistently", "R5 derived counts", "R6 nbasis dispatch"]
    ctx.clauses_declined = ["integer-vs-fractional occupation heuristic on values", "read-back to rounding", "arbitrary assignment histories on values"]
    mo, mof, mop = class_schema(prog, "iodata.orbitals.MolecularOrbitals")
    sh, shf, shp = class_schema(prog, "iodata.basis.Shell")

    # ------------------------------------------------------------------ R1
    ctx.rule("R1", "validator schema of MolecularOrbitals and Shell", "arrays whose lengths disagree with the number of orbitals / shell shape are accepted")
    # validators run on assignment too: neither the classes nor their fields may replace attrs' default on_setattr
    # (convert + validate) by something that drops validation
    for cinfo_ in (mo, sh, prog.cls("iodata.basis.MolecularBasis")):
        okc = True
        for d in cinfo_.node.decorator_list:
            if isinstance(d, ast.Call):
                for k in d.keywords:
                    if k.arg == "on_setattr" and "validate" not in src_of(k.value):
                        okc = False
                        ctx.violate("R1", f"{cinfo_.name} is defined with on_setattr=`{src_of(k.value)}`: values assigned after construction are no longer validated (wrong-length arrays, contradicting kinds are accepted)", relpath=cinfo_.module.relpath, function=cinfo_.qualname, node=d, construct=f"class on_setattr={src_of(k.value)}")
                    if k.arg == "frozen" and isinstance(k.value, ast.Constant) and k.value.value is True:
                        pass
        for st in cinfo_.node.body:
            if isinstance(st, ast.AnnAssign) and isinstance(st.value, ast.Call):
                for k in st.value.keywords:
                    if k.arg == "on_setattr" and "validate" not in src_of(k.value):
                        okc = False
                        ctx.violate("R1", f"field {cinfo_.name}.{src_of(st.target)} overrides on_setattr with `{src_of(k.value)}`: assignments are no longer validated", relpath=cinfo_.module.relpath, function=cinfo_.qualname, node=st, construct=f"field {src_of(st.target)} on_setattr={src_of(k.value)}")
        if okc:
            ctx.ok("R1", f"{cinfo_.name}: validators also run on assignment (attrs default on_setattr kept)", f"{cinfo_.module.relpath}:{cinfo_.node.lineno}", sample=False)
    want_mo = {
        "occs": ("shape", ("'norb'",)), "energies": ("shape", ("'norb'",)), "irreps": ("shape", ("'norb'",)),
        "occs_aminusb": ("shape", ("'norb'",)), "coeffs": ("shape", ("None", "'norb'")),
    }
    for name, want in want_mo.items():
        vs = _validators(mof[name]["stmt"]) if name in mof else []
        if want in vs:
            ctx.ok("R1", f"MolecularOrbitals.{name}: validate_shape{want[1]}", f"{mo.module.relpath}:{mof[name]['stmt'].lineno}")
        else:
            ctx.violate("R1", f"MolecularOrbitals.{name} lacks validate_shape({', '.join(want[1])}) (found {vs})", relpath=mo.module.relpath, function=mo.qualname, construct=f"field {name} validator")
    for name in ("norba", "norbb"):
        vs = _validators(mof[name]["stmt"])
        fns = [v[1] for v in vs if v[0] == "fn"]
        if fns:
            ctx.ok("R1", f"MolecularOrbitals.{name}: kind-aware validator {fns[0]}", f"{mo.module.relpath}:{mof[name]['stmt'].lineno}")
        else:
            ctx.violate("R1", f"MolecularOrbitals.{name} has no kind-aware validator", relpath=mo.module.relpath, function=mo.qualname, construct=f"field {name} validator")
    vs = _validators(mof["kind"]["stmt"])
    kinds = [v[1] for v in vs if v[0] == "in"]
    if kinds and all(k in kinds[0] for k in ("'restricted'", "'unrestricted'", "'generalized'")) and kinds[0].count("'") == 6:
        ctx.ok("R1", "MolecularOrbitals.kind restricted to the three documented literals", f"{mo.module.relpath}:{mof['kind']['stmt'].lineno}")
    else:
        ctx.violate("R1", f"MolecularOrbitals.kind is not validated against exactly the three documented kinds ({kinds})", relpath=mo.module.relpath, function=mo.qualname, construct="field kind validator")
    if ("fn", "validate_occs_aminusb") in _validators(mof["occs_aminusb"]["stmt"]):
        ctx.ok("R1", "occs_aminusb refused unless restricted (validate_occs_aminusb installed)", f"{mo.module.relpath}:{mof['occs_aminusb']['stmt'].lineno}")
    else:
        ctx.violate("R1", "occs_aminusb has no kind validator", relpath=mo.module.relpath, function=mo.qualname, construct="occs_aminusb validator")
    # the two validator functions themselves: evaluated on the decision table of (kind, stored counts, assigned field,
    # assigned value).  attrs calls a validator with the *new* value while the instance still holds the old one (on
    # assignment) or already holds all new values (at construction): both situations are rows of the table.
    _check_mo_validators(ctx, mo)
    want_sh = {
        "angmoms": ("shape", ("('coeffs', 1)",)), "kinds": ("shape", ("('coeffs', 1)",)),
        "exponents": ("shape", ("('coeffs', 0)",)), "coeffs": ("shape", ("('exponents', 0)", "('kinds', 0)")),
    }
    for name, want in want_sh.items():
        vs = _validators(shf[name]["stmt"]) if name in shf else []
        if want in vs:
            ctx.ok("R1", f"Shell.{name}: validate_shape({', '.join(want[1])})", f"{sh.module.relpath}:{shf[name]['stmt'].lineno}")
        else:
            ctx.violate("R1", f"Shell.{name} lacks validate_shape({', '.join(want[1])}) (found {vs})", relpath=sh.module.relpath, function=sh.qualname, construct=f"field {name} validator")

    from .c07 import check_validate_shape

    check_validate_shape(ctx, "R1")

    # ------------------------------------------------------------------ R2 .. R5
    # decided by evaluating the accessors themselves on abstract instances (iodalint.accessors): symbolic arrays for
    # slices / formulas / read-back of assignments, constant occupation patterns for the integer-vs-fractional
    # heuristic.  No source template is matched, so the accessors may be rewritten freely.
    ctx.rule("R2", "generalized orbitals refuse spin-resolved access", "two-component orbitals silently return a meaningless alpha/beta slice")
    ctx.rule("R3", "alpha/beta views are the documented slices / formulas and sum to the stored occupations", "alpha and beta views overlap, swap, split at the wrong index, or do not add up to occs")
    ctx.rule("R4", "assigning alpha or beta occupations reads back as assigned and leaves the other spin unchanged", "assigning one spin changes the other, or the stored sum/difference disagree")
    ctx.rule("R5", "derived counts", "nelec / spinpol / norb disagree with the stored occupations")
    from .c12_semantics import check_orbital_semantics

    check_orbital_semantics(ctx)
    ga = mo.getters["occsa"]
    # ------------------------------------------------------------------ R6
    ctx.rule("R6", "Shell.nbasis follows angular momenta and kinds", "a wrong function count mis-sizes every matrix built from the basis")
    nb = sh.getters.get("nbasis")
    if nb is None:
        raise AnalysisError("Shell.nbasis not found")
    for cinfo_ in (sh, prog.cls("iodata.basis.MolecularBasis"), mo):
        for gname, gf in cinfo_.getters.items():
            if getattr(gf, "cached_property", False):
                ctx.violate("R6" if cinfo_ is not mo else "R5", f"{cinfo_.name}.{gname} is a cached property: the value is computed once and not recomputed when the fields it derives from are assigned or changed in place (the Molden reader switches `kinds` after construction)", gf, gf.node, construct=f"cached property {gname}")
    decided = _nbasis_by_evaluation(ctx, prog, nb)
    loop = [n for n in nb.own_nodes() if isinstance(n, ast.For)]
    if decided:
        loop = None
    okloop = loop is not None and len(loop) == 1 and src_of(loop[0].iter) == "zip(self.angmoms, self.kinds)" and isinstance(loop[0].target, ast.Tuple)
    if decided:
        pass
    elif not okloop:
        ctx.violate("R6", "nbasis does not iterate zip(self.angmoms, self.kinds)", nb, nb.node, construct="nbasis loop")
    else:
        lv, kv = (e.id for e in loop[0].target.elts)
        branches = {}
        cur = loop[0].body[0] if loop[0].body else None
        has_raise = False
        while isinstance(cur, ast.If):
            t = src_of(cur.test).replace('"', "'")
            for s2 in cur.body:
                if isinstance(s2, ast.AugAssign) and isinstance(s2.op, ast.Add):
                    branches[t] = s2.value
            nxt = cur.orelse
            if len(nxt) == 1 and isinstance(nxt[0], ast.If):
                cur = nxt[0]
            else:
                has_raise = any(isinstance(s2, ast.Raise) and raises_class(s2) == "TypeError" for s2 in nxt)
                cur = None
        cart = branches.get(f"{kv} == 'c'")
        pure = branches.get(f"{kv} == 'p' and {lv} >= 2")
        if cart is not None and poly_eq(poly(cart, lv), {2: 1, 1: 3, 0: 2}, 2):
            ctx.ok("R6", "Cartesian shells add (l+1)(l+2)/2", f"{nb.module.relpath}:{nb.lineno}")
        else:
            ctx.violate("R6", f"Cartesian function count is `{src_of(cart) if cart is not None else None}`, not (l+1)(l+2)/2", nb, cart if cart is not None else nb.node, construct="nbasis cartesian" if cart is None else "")
        if pure is not None and poly_eq(poly(pure, lv), {1: 2, 0: 1}, 1):
            ctx.ok("R6", "pure shells (l >= 2) add 2l+1", f"{nb.module.relpath}:{nb.lineno}")
        else:
            ctx.violate("R6", f"pure function count/guard is `{src_of(pure) if pure is not None else list(branches)}`, expected 2l+1 under kind == 'p' and l >= 2", nb, pure if pure is not None else nb.node, construct="nbasis pure" if pure is None else "")
        if has_raise:
            ctx.ok("R6", "any other kind raises TypeError", f"{nb.module.relpath}:{nb.lineno}")
        else:
            ctx.violate("R6", "an unknown shell kind no longer raises TypeError", nb, nb.node, construct="nbasis else raise")
        rets = [n for n in nb.own_nodes() if isinstance(n, ast.Return)]
        init = [n for n in nb.body if isinstance(n, ast.Assign) and isinstance(n.value, ast.Constant) and n.value.value == 0]
        if not (len(rets) == 1 and init and isinstance(rets[0].value, ast.Name) and rets[0].value.id == init[0].targets[0].id):
            ctx.violate("R6", "nbasis does not return the accumulated sum starting from 0", nb, nb.node, construct="nbasis accumulator")
    mb = prog.cls("iodata.basis.MolecularBasis")
    g = mb.getters.get("nbasis")
    if g is None:
        ctx.violate("R6", "MolecularBasis has no nbasis property", relpath=mb.module.relpath, function=mb.qualname, construct="MolecularBasis.nbasis")
    else:
        # evaluated: the accessor on model bases (s, pure d, SP, Cartesian f; none) against the sum of the shells' counts
        from ..accessors import AccessorEval, Raised, Rec
        from ..symarr import NotSymbolic

        def shell_(ls, ks):
            return Rec(sh, icenter=0, angmoms=np.array(ls), kinds=list(ks), exponents=np.array([1.0]), coeffs=np.ones((1, len(ls))))

        bad = None
        for shells_, want in (([shell_([0], ["c"]), shell_([2], ["p"]), shell_([0, 1], ["c", "c"]), shell_([3], ["c"])], 1 + 5 + 4 + 10), ([], 0), ([shell_([4], ["p"])], 9)):
            try:
                got = AccessorEval(prog, mb, limit=4000).get(Rec(mb, shells=shells_, conventions={}, primitive_normalization="L2"), "nbasis")
            except Raised as exc:
                bad = f"raises {exc.args[0]} for a basis of {len(shells_)} shells"
                break
            except NotSymbolic as exc:
                raise AnalysisError(f"MolecularBasis.nbasis is outside the evaluation whitelist: {exc}") from exc
            if int(got) != want:
                bad = f"gives {got} for shells with {[int(AccessorEval(prog, sh).get(s_, 'nbasis')) for s_ in shells_]} functions (their sum is {want})"
                break
        if bad:
            ctx.violate("R6", f"MolecularBasis.nbasis {bad}", g, g.node, construct="MolecularBasis.nbasis")
        else:
            ctx.ok("R6", "MolecularBasis.nbasis is the sum of the function counts of its shells (evaluated on three model bases, the empty one included)", f"{g.module.relpath}:{g.lineno}")
