"""C05: the correction cascade evaluated with a scripted norm predicate and stubbed correction helpers."""

from __future__ import annotations

import numpy as np

from .. import AnalysisError
from ..accessors import AccessorEval, Raised, Rec
from ..symarr import NotSymbolic, same, sym_array


def check_cascade_semantics(ctx, rid, casc, pred, helpers):
    prog = ctx.prog
    mo_cls = prog.cls("iodata.orbitals.MolecularOrbitals")
    shell_cls = prog.cls("iodata.basis.Shell")
    basis_cls = prog.cls("iodata.basis.MolecularBasis")
    where = f"{casc.module.relpath}:{casc.lineno}"
    hnames = {h.qualname: h for h in helpers}

    def run(kind, first_true, none_helpers=()):
        shells = [Rec(shell_cls, icenter=0, angmoms=np.array([0]), kinds=["c"], exponents=sym_array("a", (2,)), coeffs=sym_array("k", (2, 1)))]
        basis = Rec(basis_cls, shells=shells, conventions={}, primitive_normalization="L2")
        n = 3 if kind == "restricted" else 6
        mo = Rec(mo_cls, kind=kind, norba=3, norbb=3, occs=None, coeffs=sym_array("c", (3, n)), energies=None, irreps=None, occs_aminusb=None)
        result = {"obasis": basis, "atcoords": ("atcoords",), "mo": mo}
        lit = Rec(None, filename="file.molden", lineno=7)
        thr = ("threshold",)
        calls = []
        made = {}

        def pstub(args, kw):
            b = dict(zip(pred.posparams, args))
            b.update(kw)
            calls.append(b)
            return len(calls) - 1 == first_true

        stubs = {pred.qualname: pstub}
        for q, h in hnames.items():
            def hstub(args, kw, q=q, h=h):
                if h.name in none_helpers:
                    return None
                if "coeffs" in h.name:
                    v = sym_array(h.name[-5:], (3,))
                else:
                    v = Rec(basis_cls, shells=shells, conventions={}, primitive_normalization="L2", tag=h.name)
                made[h.name] = v
                return v
            stubs[q] = hstub
        ev = AccessorEval(prog, mo_cls, limit=4000)
        ev.module = casc.module
        ev.stubs = stubs
        ev.warnings = 0
        before = np.array(mo.fields["coeffs"], dtype=object).copy()
        try:
            ev.run_free(casc, [result, lit], {"norm_threshold": thr})
            outcome = "returns"
        except Raised as exc:
            outcome = exc.cls
        return outcome, calls, result, mo, before, ev.warnings, thr, basis

    try:
        nscen = 0
        bad = []
        for kind in ("restricted", "unrestricted"):
            ncalls_all = len(run(kind, 10 ** 6)[1])
            if ncalls_all < 5:
                ctx.violate(rid, f"the cascade tries only {ncalls_all} corrections before giving up", casc, casc.node, construct="cascade length")
                continue
            for first_true in list(range(ncalls_all)) + [10 ** 6]:
                outcome, calls, result, mo, before, nwarn, thr, basis0 = run(kind, first_true)
                nscen += 1
                label = f"{kind}, the check succeeds at attempt {first_true + 1}" if first_true < 10 ** 6 else f"{kind}, no correction helps"
                if first_true >= 10 ** 6:
                    if outcome != "LoadError":
                        bad.append(f"{label}: the cascade {outcome} instead of raising LoadError")
                    continue
                if outcome != "returns":
                    bad.append(f"{label}: {outcome}")
                    continue
                last = calls[first_true]
                if any(c.get(pred.posparams[4]) is not thr for c in calls[: first_true + 1]):
                    bad.append(f"{label}: a norm check is made without the caller's norm_threshold")
                    continue
                if result["obasis"] is not last.get(pred.posparams[0]):
                    bad.append(f"{label}: the basis stored in the result is not the basis that passed the norm check")
                    continue
                ca = last.get(pred.posparams[2])
                cb = last.get(pred.posparams[3])
                cur = mo.fields["coeffs"]
                cur_a = cur if kind == "restricted" else cur[:, :3]
                cur_b = None if kind == "restricted" else cur[:, 3:]
                if not same(cur_a, ca):
                    bad.append(f"{label}: the alpha coefficients stored are not the ones that passed the norm check")
                    continue
                if kind == "unrestricted" and (cb is None or not same(cur_b, cb)):
                    bad.append(f"{label}: the beta coefficients stored are not the ones that passed the norm check" + (" (beta was not checked at all)" if cb is None else ""))
                    continue
                if (nwarn > 0) != (first_true > 0):
                    bad.append(f"{label}: {nwarn} warning(s) issued" + (" for an uncorrected file" if first_true == 0 else " although a correction was applied"))
                    continue
                if first_true == 0 and (result["obasis"] is not basis0 or not same(cur, before)):
                    bad.append(f"{label}: a file that needs no correction is changed")
        # helpers that report "not applicable" (None) must be skipped, not checked
        for kind in ("restricted",):
            opt = [h.name for h in helpers if any(isinstance(r.value, type(None)) or (getattr(r.value, "value", 0) is None) for r in h.own_nodes() if hasattr(r, "value") and type(r).__name__ == "Return")]
            outcome, calls, result, mo, before, nwarn, thr, basis0 = run(kind, 10 ** 6, none_helpers=tuple(opt))
            nscen += 1
            if outcome != "LoadError":
                bad.append(f"helpers {opt} not applicable: the cascade {outcome} instead of raising LoadError")
            if any(c.get(pred.posparams[0]) is None or c.get(pred.posparams[2]) is None for c in calls):
                bad.append("a correction that is not applicable (helper returned None) is checked anyway")
        if bad:
            for b in bad[:4]:
                ctx.violate(rid, f"correction cascade: {b}", casc, casc.node, construct=f"cascade: {b}"[:200])
        else:
            ctx.ok(rid, f"correction cascade evaluated in {nscen} scenarios (restricted / unrestricted x which attempt first passes the norm check x none; optional helpers not applicable): the stored basis and coefficients are exactly the ones that passed the check made with the caller's threshold, a warning iff a correction was applied, LoadError when nothing helps", where)
        ctx.floor(rid, nscen, 15, "cascade scenarios")
    except NotSymbolic as exc:
        raise AnalysisError(f"the correction cascade is outside the evaluation whitelist: {exc}") from exc


# What each program is known to do to the contraction coefficients it writes into a Molden file (comments of
# iodata/formats/molden.py; Molden FAQ): (l, kind) -> (powers n of the primitive normalisation N(a; n) the coefficients
# were multiplied with, or None; square of an additional numeric factor).  The helper divides this out again.
VENDOR_FACTORS = {
    "_fix_obasis_orca": {(0, "c"): (("0", "0", "0"), 1), (1, "c"): (("1", "0", "0"), 1), (2, "p"): (("1", "1", "0"), 1), (3, "p"): (("1", "1", "1"), 1), (4, "p"): (("2", "1", "1"), 1), (5, "p"): (("5", "0", "0"), 1)},
    "_fix_obasis_psi4": {(0, "c"): (("0", "0", "0"), 1), (1, "c"): (("1", "0", "0"), 1), (2, "p"): (("1", "1", "0"), 3), (3, "p"): (("1", "1", "1"), 15)},
    "_fix_obasis_turbomole": {(2, "c"): (None, 3), (3, "c"): (None, 15), (4, "c"): (None, 105)},
}


def touched_pattern(prog, h, nprim):
    """For a basis-correction helper evaluated on abstract shells of `nprim` primitives, one per shell type:
    {(l, kind): tuple of bool per primitive (rescaled?)}; None if the helper reports 'not applicable'."""
    from ..symarr import Sym

    shell_cls = prog.cls("iodata.basis.Shell")
    basis_cls = prog.cls("iodata.basis.MolecularBasis")
    kinds = [(0, "c"), (1, "c"), (2, "c"), (2, "p"), (3, "c"), (3, "p"), (4, "c"), (4, "p"), (5, "p")]
    shells = [Rec(shell_cls, icenter=i % 2, angmoms=np.array([l]), kinds=[k], exponents=sym_array(f"a{i}", (nprim,)), coeffs=sym_array(f"k{i}", (nprim, 1))) for i, (l, k) in enumerate(kinds)]
    before = [s_.fields["coeffs"].copy() for s_ in shells]
    basis = Rec(basis_cls, shells=shells, conventions={}, primitive_normalization="L2")
    ev = AccessorEval(prog, shell_cls, limit=8000)
    ev.module = h.module
    stubs = {}
    for q, f_ in prog.funcs.items():
        if f_.name == "gob_cart_normalization":
            stubs[q] = lambda args, kw: Sym.atom(f"N({args[0]!r};{','.join(repr(Sym.const(x)) for x in np.asarray(args[1], dtype=object).ravel())})")
    ev.stubs = stubs
    out = ev.run_free(h, [basis], {})
    if out is None:
        return None
    oshells = out.fields.get("shells") if isinstance(out, Rec) else None
    if not isinstance(oshells, list) or len(oshells) != len(shells):
        return {}
    pat = {}
    for (l, k), so, b in zip(kinds, oshells, before):
        pat[(l, k)] = tuple(not (Sym.const(so.fields["coeffs"][i, 0]) / Sym.const(b[i, 0]) == Sym.const(1)) for i in range(nprim))
    return pat


def check_helper_uniformity(ctx, rid, helpers):
    """Each basis-correction helper, evaluated on abstract shells with two primitives: within a shell either every
    primitive is rescaled or none is (a correction that reaches only some primitives of a contraction is never right),
    exponents and the shell list are preserved, and the input basis is not modified."""
    prog = ctx.prog
    shell_cls = prog.cls("iodata.basis.Shell")
    basis_cls = prog.cls("iodata.basis.MolecularBasis")
    from ..symarr import Sym

    kinds = [(0, "c"), (1, "c"), (2, "c"), (2, "p"), (3, "c"), (3, "p"), (4, "c"), (4, "p"), (5, "p")]
    n = 0
    try:
        for h in helpers:
            if "obasis" not in h.name or "normalize" in h.name:
                continue  # coefficient-vector helpers and the overlap-based renormalisation are covered elsewhere
            shells = [Rec(shell_cls, icenter=i % 2, angmoms=np.array([l]), kinds=[k], exponents=sym_array(f"a{i}", (2,)), coeffs=sym_array(f"k{i}", (2, 1))) for i, (l, k) in enumerate(kinds)]
            before = [s.fields["coeffs"].copy() for s in shells]
            basis = Rec(basis_cls, shells=shells, conventions={}, primitive_normalization="L2")
            ev = AccessorEval(prog, shell_cls, limit=8000)
            ev.module = h.module
            gcn = prog.funcs.get("iodata.overlap.gob_cart_normalization") or prog.funcs.get("iodata.formats.molden.gob_cart_normalization")
            stubs = {}
            for q, f_ in prog.funcs.items():
                if f_.name == "gob_cart_normalization":
                    stubs[q] = lambda args, kw: Sym.atom(f"N({args[0]!r};{','.join(repr(Sym.const(x)) for x in np.asarray(args[1], dtype=object).ravel())})")
            ev.stubs = stubs
            try:
                out = ev.run_free(h, [basis], {})
            except Raised as exc:
                ctx.violate(rid, f"{h.name} raises {exc.cls} on an abstract basis", h, h.node, construct=f"{h.name} raises")
                continue
            n += 1
            if any(not same(s.fields["coeffs"], b) for s, b in zip(shells, before)):
                ctx.violate(rid, f"{h.name} modifies the basis it was given", h, h.node, construct=f"{h.name} mutates input")
                continue
            if out is None:
                ctx.ok(rid, f"{h.name}: reports 'not applicable' (None) for a basis it has nothing to correct in", f"{h.module.relpath}:{h.lineno}", sample=False)
                continue
            oshells = out.fields.get("shells") if isinstance(out, Rec) else None
            if not isinstance(oshells, list) or len(oshells) != len(shells):
                ctx.violate(rid, f"{h.name} does not return a basis with the same number of shells", h, h.node, construct=f"{h.name} shell count")
                continue
            bad = None
            touched = 0
            for (l, k), so, b in zip(kinds, oshells, before):
                if not same(so.fields["exponents"], shells[kinds.index((l, k))].fields["exponents"]):
                    bad = f"shell l={l}{k}: the exponents are changed"
                    break
                ratios = [Sym.const(so.fields["coeffs"][i, 0]) / Sym.const(b[i, 0]) for i in range(2)]
                changed = [not (r == Sym.const(1)) for r in ratios]
                touched += any(changed)
                if any(changed) and not all(changed):
                    bad = f"shell l={l}{k}: primitive {changed.index(True)} is rescaled, primitive {changed.index(False)} is not (a contraction of several primitives is corrected only in part)"
                    break
            # the factors themselves: what each vendor is known to do (VENDOR_FACTORS), per shell type
            table = VENDOR_FACTORS.get(h.name)
            if bad is None and table is not None:
                for (l, k), so, b in zip(kinds, oshells, before):
                    i_sh = kinds.index((l, k))
                    for ip in range(2):
                        r = Sym.const(so.fields["coeffs"][ip, 0]) / Sym.const(b[ip, 0])
                        nvec, c2 = table.get((l, k), (None, 1))
                        if len(r.terms) != 1:
                            bad = f"shell l={l}{k}: the correction factor `{r!r}` is not a single product"
                            break
                        (mono, coef), = r.terms.items()
                        want_atom = None if nvec is None else f"N({Sym.const(shells[i_sh].fields['exponents'][ip])!r};{','.join(nvec)})"
                        got_atoms = sorted((a, p_) for a, p_ in mono)
                        want_atoms = [] if want_atom is None else [(want_atom, -1)]
                        if got_atoms != want_atoms:
                            bad = f"shell l={l}{k}: coefficients are multiplied by `{r!r}`; {h.name.replace('_fix_obasis_', '')} files need " + ("no primitive normalisation factor" if want_atom is None else f"1 / N(exponent; powers {'/'.join(nvec)})") + (" (the correction is applied in the wrong direction)" if got_atoms == [(a_, -p_) for a_, p_ in want_atoms] else "")
                            break
                        if abs(float(coef) ** 2 - c2) > 1e-9 * c2:
                            bad = f"shell l={l}{k}: numeric factor {float(coef):.6g}, expected sqrt({c2})"
                            break
                    if bad:
                        break
                if bad is None:
                    conv = out.fields.get("conventions")
                    if h.name == "_fix_obasis_orca":
                        if conv is basis.fields["conventions"] or not isinstance(conv, dict) or (2, "p") not in conv or (5, "p") not in conv:
                            bad = "the corrected basis does not carry ORCA's own sign conventions (the table built in the helper)"
                    elif conv is not basis.fields["conventions"]:
                        bad = "the corrected basis does not keep the conventions of the basis it was given"
            if bad:
                ctx.violate(rid, f"{h.name}: {bad}", h, h.node, construct=f"{h.name}: {bad}"[:200])
            else:
                ctx.ok(rid, f"{h.name} on 9 abstract two-primitive shells: {touched} shell types rescaled, each in all its primitives" + (", by the vendor's known factors" if table is not None else "") + "; exponents, shell count and the input basis untouched", f"{h.module.relpath}:{h.lineno}")
    except NotSymbolic as exc:
        raise AnalysisError(f"a correction helper is outside the evaluation whitelist: {exc}") from exc
    ctx.floor(rid, n, 3, "basis-correction helpers evaluated")
