"""C19 -- generated QC input files describe the molecule (structural clauses)."""

from __future__ import annotations

import ast

from .. import AnalysisError
from ..astutil import bind_call, deref, names_in, walk_stmts
from ..cfg import cfg_of
from ..consteval import ConstEval, NotConstant
from ..model import src_of
from .c19_semantics import _is_documented_writer, input_base

PROP = "C19"
LEVEL = "other"
TECHNIQUE = "static analysis: comprehension-shape, unit-factor, rounding-idiom and statement-order (post-dominance) rules on the two input writers and their shared base"
EXPLANATION = (
    "Static decision of the structural clauses of C19: (R1) the geometry is one atom_line(data, i) per i in "
    "range(data.natom), unfiltered, newline-joined, stored after the user fields; (R2) the default atom line "
    "of both programs takes the symbol from num2sym[data.atnums[i]] and prints the three components of "
    "data.atcoords[i] / angstrom in order; (R3) charge is rounded to the nearest integer (not truncated) and "
    "the multiplicity is round(|spinpol|) + 1; (R4) user-supplied fields are merged after every default, "
    "template and atom_line defaults apply only when the argument is None; (R5) run types map through the "
    "documented literal tables with fallback 'energy', lot/basis fall back to the documented defaults; "
    "(R6) the API error contract for write_input is decided under C08.  Declined: content of user "
    "templates; numeric formatting of coordinates."
)
TECHNIQUE += '; interprocedural may-escape exception flow of write_input'
EXPLANATION += ' Added: (R6) only FileFormatError and WriteInputError can leave api.write_input; _select_input_module fails with FileFormatError on every path.'
TECHNIQUE += '; finite-domain evaluation of the field-dictionary code'
EXPLANATION += " R3-R5 no longer match statement templates: the program-specific write_input and the prefix of write_input_base that builds the field dictionary are interpreted (iodalint.accessors) on abstract objects over a finite domain (7 charges, 7 spin polarisations, all run types in three spellings plus unsupported ones, absent / empty / given title, lot, basis; keyword arguments including 0 and ''), and the resulting fields are compared with the documented ones."
# --- metadata added for batch 7
TECHNIQUE += '; template rendering with marker fields; registry membership rule'
EXPLANATION += " Added: (R7) default templates have the structure the program's input syntax requires (rendered with markers); (R8) the rendered template reaches the file once, and the API forwards template, atom_line and keyword arguments; (R9) every module of iodata.inputs that the registry builder would register (module-level `write_input`) is a documented program writer with the signature api.write_input uses -- a helper exposing that name would become a program. The shared rendering routine is located by role (the function of iodata.inputs every program writer calls), not by its name."
# --- end metadata batch 7
TRUSTED = ["CPython ast parser", "int() truncates toward zero; round/np.round/np.rint round to nearest", "str.format(**fields) takes the last value stored under a key"]

ROUNDERS = {"round", "rint", "around"}
GAUSSIAN_RUN = {"energy": "sp", "energy_force": "force", "opt": "opt", "scan": "scan", "freq": "freq"}
ORCA_RUN = {"energy": "Energy", "freq": "Freq", "opt": "Opt"}


def _is_rounded_int(e):
    """int(round(x)) / int(np.round(x)) / int(np.rint(x)) / round(x) / int(x + 0.5)-style."""
    if isinstance(e, ast.Call) and isinstance(e.func, ast.Name) and e.func.id == "round" and len(e.args) == 1:
        return True
    if isinstance(e, ast.Call) and isinstance(e.func, ast.Name) and e.func.id == "int" and e.args:
        a = e.args[0]
        for n in ast.walk(a):
            if isinstance(n, ast.Call):
                nm = n.func.attr if isinstance(n.func, ast.Attribute) else getattr(n.func, "id", "")
                if nm in ROUNDERS:
                    return True
        if isinstance(a, ast.Call) and isinstance(a.func, ast.Attribute) and a.func.attr == "floor" and a.args and isinstance(a.args[0], ast.BinOp) and isinstance(a.args[0].op, ast.Add) and isinstance(a.args[0].right, ast.Constant) and a.args[0].right.value == 0.5:
            return True
    return False


def run(ctx):
    prog = ctx.prog
    ce = ConstEval(prog)
    ctx.clauses_decided = ["R1 one line per atom, in order", "R2 default atom line", "R3 rounding", "R4 precedence", "R5 defaults and run types", "R6 error contract of write_input"]
    ctx.clauses_declined = ["content of user templates", "numeric formatting of coordinates"]
    ctx.rule("R9", "every registered input module is a documented program writer", "a helper module exposing `write_input` becomes a program name: an unknown program no longer raises FileFormatError")
    from .c19_semantics import check_registered_programs

    check_registered_programs(ctx, "R9")
    if any(not _is_documented_writer(prog, prog.funcs.get(f"{m.name}.write_input")) if prog.funcs.get(f"{m.name}.write_input") else True for m in prog.input_modules().values()):
        return  # the rules below are stated per program: decided once the registry holds programs only
    base = input_base(prog)
    fh, data, template, atom_line, user = base.posparams[:5]

    # locate `fields` (the dict formatted into the template)
    fmt_calls = [n for n in base.own_nodes() if isinstance(n, ast.Call) and isinstance(n.func, ast.Attribute) and n.func.attr == "format" and isinstance(n.func.value, ast.Name) and n.func.value.id == template]
    if len(fmt_calls) != 1 or not fmt_calls[0].keywords or fmt_calls[0].keywords[0].arg is not None:
        raise AnalysisError("write_input_base: cannot find template.format(**fields)")
    fields = src_of(fmt_calls[0].keywords[0].value)
    stores = {}
    order = []
    for st in base.body:
        if isinstance(st, ast.Assign) and len(st.targets) == 1 and isinstance(st.targets[0], ast.Subscript) and src_of(st.targets[0].value) == fields and isinstance(st.targets[0].slice, ast.Constant):
            stores[st.targets[0].slice.value] = st
            order.append(("store", st.targets[0].slice.value, st))
        elif isinstance(st, ast.Expr) and isinstance(st.value, ast.Call) and src_of(st.value.func) == f"{fields}.update":
            order.append(("update", src_of(st.value.args[0]) if st.value.args else "", st))
        elif isinstance(st, ast.Expr) and isinstance(st.value, ast.Call) and any(c is fmt_calls[0] for c in ast.walk(st.value)):
            order.append(("print", "", st))

    # ------------------------------------------------------------------ R1
    ctx.rule("R1", "exactly one geometry line per atom, in order", "atoms are missing, duplicated or re-ordered in the generated input")
    gst = stores.get("geometry")
    if gst is None:
        ctx.violate("R1", "no `geometry` field is generated", base, base.node, construct="geometry field")
    else:
        v = gst.value
        okjoin = isinstance(v, ast.Call) and isinstance(v.func, ast.Attribute) and v.func.attr == "join" and isinstance(v.func.value, ast.Constant) and v.func.value.value == "\n" and len(v.args) == 1
        comp = deref(base, v.args[0]) if okjoin else None
        okcomp = False
        if isinstance(comp, (ast.ListComp, ast.GeneratorExp)) and len(comp.generators) == 1:
            g = comp.generators[0]
            it = g.iter
            okrange = isinstance(it, ast.Call) and getattr(it.func, "id", "") == "range" and len(it.args) == 1 and src_of(it.args[0]) == f"{data}.natom"
            elt = comp.elt
            okelt = isinstance(elt, ast.Call) and isinstance(elt.func, ast.Name) and elt.func.id == atom_line and len(elt.args) == 2 and src_of(elt.args[0]) == data and isinstance(g.target, ast.Name) and src_of(elt.args[1]) == g.target.id
            okcomp = okrange and okelt and not g.ifs
        if okjoin and okcomp:
            ctx.ok("R1", f"geometry = '\\n'.join({atom_line}({data}, i) for i in range({data}.natom))", f"{base.module.relpath}:{gst.lineno}")
        else:
            ctx.violate("R1", "the geometry is not the newline-joined, unfiltered sequence atom_line(data, i) for i in range(data.natom)", base, gst)
        kinds = [k for k, _, _ in order]
        gi = [i for i, (k, n, _) in enumerate(order) if k == "store" and n == "geometry"]
        ui = [i for i, (k, n, _) in enumerate(order) if k == "update"]
        pi = [i for i, (k, n, _) in enumerate(order) if k == "print"]
        if gi and pi and gi[0] < pi[0] and (not ui or ui[-1] < gi[0]):
            ctx.ok("R1", "geometry is stored after the user fields and before rendering (a user field cannot replace it)", f"{base.module.relpath}:{gst.lineno}")
        else:
            ctx.violate("R1", "the geometry field is not stored after the user fields and before the template is rendered", base, gst, construct="geometry store order")

    # ------------------------------------------------------------------ R2
    ctx.rule("R2", "default atom lines: element symbol and coordinates in angstrom, in x y z order", "wrong element, wrong unit or permuted coordinates in the generated input")
    nprog = 0
    for short, m in prog.input_modules().items():
        nprog += 1
        wi = prog.func(f"{m.name}.write_input")
        # default atom_line function: assigned under `if atom_line is None`
        dal = None
        for st in walk_stmts(wi.body):
            if isinstance(st, ast.If) and src_of(st.test) == "atom_line is None":
                for s2 in st.body:
                    if isinstance(s2, ast.Assign) and src_of(s2.targets[0]) == "atom_line" and isinstance(s2.value, ast.Name):
                        r = prog.resolve_expr(wi, wi.module, s2.value)
                        if r and r[0] == "func":
                            dal = r[1]
        if dal is None:
            ctx.violate("R2", f"{short}: no default atom_line under `if atom_line is None`", wi, wi.node, construct="default atom_line")
            continue
        d, i = dal.posparams[:2]
        rets = [n for n in dal.own_nodes() if isinstance(n, ast.Return)]
        if len(rets) != 1 or not isinstance(rets[0].value, ast.JoinedStr):
            ctx.violate("R2", f"{short}: default atom line is not a single f-string", dal, dal.node, construct="atom line f-string")
            continue
        fvals = [deref(dal, x.value) for x in rets[0].value.values if isinstance(x, ast.FormattedValue)]
        specs = [src_of(x.format_spec) if x.format_spec is not None else "" for x in rets[0].value.values if isinstance(x, ast.FormattedValue)]
        if len(fvals) != 4:
            ctx.violate("R2", f"{short}: default atom line prints {len(fvals)} values, expected symbol + 3 coordinates", dal, rets[0])
            continue
        sym = fvals[0]
        oksym = isinstance(sym, ast.Subscript) and isinstance(sym.value, ast.Name) and src_of(sym.slice) == f"{d}.atnums[{i}]"
        if oksym:
            r = prog.resolve_expr(dal, dal.module, sym.value)
            oksym = bool(r and r[0] == "global" and r[1].name == "iodata.periodic" and r[2] == "num2sym")
        if oksym:
            ctx.ok("R2", f"{short}: symbol = num2sym[data.atnums[i]]", f"{dal.module.relpath}:{rets[0].lineno}")
        else:
            ctx.violate("R2", f"{short}: the element symbol is `{src_of(sym)}`, not num2sym[data.atnums[i]]", dal, rets[0])
        coords = []
        unit_ok = True
        for k, fv in enumerate(fvals[1:]):
            # atcoord[k] where atcoord = data.atcoords[i] / angstrom   (or the expression inline)
            if isinstance(fv, ast.Subscript) and isinstance(fv.slice, ast.Constant):
                coords.append(fv.slice.value)
                basev = deref(dal, fv.value)
            else:
                coords.append(None)
                basev = fv
            good = isinstance(basev, ast.BinOp) and isinstance(basev.op, ast.Div) and src_of(basev.left) == f"{d}.atcoords[{i}]"
            if good:
                r = prog.resolve_expr(dal, dal.module, basev.right)
                good = bool(r and r[0] == "global" and r[1].name == "iodata.utils" and r[2] == "angstrom")
            unit_ok = unit_ok and good
        if coords == [0, 1, 2]:
            ctx.ok("R2", f"{short}: coordinates printed in x, y, z order", f"{dal.module.relpath}:{rets[0].lineno}")
        else:
            ctx.violate("R2", f"{short}: coordinate components are printed in order {coords}", dal, rets[0])
        if unit_ok:
            ctx.ok("R2", f"{short}: coordinates are data.atcoords[i] / angstrom", f"{dal.module.relpath}:{rets[0].lineno}")
        else:
            ctx.violate("R2", f"{short}: coordinates are not data.atcoords[i] / angstrom (wrong unit factor or direction)", dal, rets[0], construct="atom line unit")
        for sp in specs[1:]:
            if "," in sp or "_" in sp:
                ctx.violate("R2", f"{short}: coordinate format `{sp}` uses a grouping option", dal, rets[0], construct=f"format spec {sp}")
    ctx.floor("R2", nprog, 2, "input modules")

    # ------------------------------------------------------------------ R3 / R4 / R5
    # decided by evaluating the two small functions that build the field dictionary (the program's write_input and the
    # part of write_input_base before the geometry is rendered) over a finite domain of objects and keyword
    # arguments (iodalint.accessors); no statement template is matched.
    ctx.rule("R3", "charge and multiplicity are rounded, not truncated", "a charge of 0.9999999 (derived from float electron counts) is written as 0")
    ctx.rule("R4", "user-supplied fields and keyword arguments take precedence over defaults", "a user field is silently overwritten by a default, or a falsy user value is dropped")
    ctx.rule("R5", "documented defaults and run-type keywords", "a run type is mapped to the wrong keyword, an unsupported one is silently written as a single point, or an absent value breaks rendering")
    from .c19_semantics import check_field_semantics

    check_field_semantics(ctx, "R3", "R4", "R5")
    ctx.rule("R7", "default templates have the structure the program's input syntax requires (rendered with markers)", "charge and multiplicity swapped, method/basis separator lost, geometry or a block terminator missing: the program reads another molecule or rejects the input")
    from .c19_semantics import check_default_templates

    check_default_templates(ctx, "R7")
    ctx.rule("R8", "the rendered template reaches the file; the API forwards template, atom_line and keyword arguments (evaluated)", "nothing (or the unrendered template) is written, or a user template / atom-line callback is swapped or dropped on the way")
    from .c19_semantics import check_rendering

    check_rendering(ctx, "R8")
    # the merged dictionary is what gets formatted, after the geometry was added
    pr = [i for i, (k, n, _) in enumerate(order) if k == "print"]
    up = [i for i, (k, n, _) in enumerate(order) if k == "update" and n == user]
    if len(pr) == 1 and len(up) == 1 and up[0] < pr[0]:
        ctx.ok("R4", f"template.format(**{fields}) is rendered after the user fields were merged", f"{base.module.relpath}:{order[pr[0]][2].lineno}")
    else:
        ctx.violate("R4", "the template is not rendered from the merged field dictionary", base, base.node, construct="render after merge")

    # ------------------------------------------------------------------ R6
    ctx.rule("R6", "unknown program -> FileFormatError; any rendering failure -> WriteInputError", "a raw exception (AttributeError of a template field, an error of a user callback) escapes write_input")
    from ..excflow import ExcFlow, report_escapes
    from ..astutil import raises_class as _rc, walk_stmts as _ws

    api_wi = prog.func("iodata.api.write_input")
    ef = ExcFlow(prog)
    report_escapes(ctx, "R6", api_wi, ef.escapes(api_wi), {"FileFormatError", "WriteInputError"})
    nimpl = sum(len(cs.callees) for cs in api_wi.calls if cs.registry_op == "write_input")
    ctx.floor("R6", nimpl, 2, "input writers behind the funnel")
    selm = prog.func("iodata.api._select_input_module")
    rs = [s for s in _ws(selm.body) if isinstance(s, ast.Raise)]
    last = selm.body[-1]
    if rs and all(_rc(r) == "FileFormatError" for r in rs) and isinstance(last, (ast.Raise, ast.Return)):
        ctx.ok("R6", f"_select_input_module: all {len(rs)} failure exits raise FileFormatError and the routine cannot fall off its end", selm.where)
    else:
        ctx.violate("R6", f"_select_input_module failure exits: {[_rc(r) for r in rs]} / falls off its end", selm, selm.node, construct="input selection failure exits")
