"""C19 -- generated QC input files describe the molecule (structural clauses)."""

from __future__ import annotations

import ast

from .. import AnalysisError
from ..astutil import bind_call, deref, names_in, walk_stmts
from ..cfg import cfg_of
from ..consteval import ConstEval, NotConstant
from ..model import src_of
from .c19_semantics import _is_documented_writer, input_base

PROP = "C19"
LEVEL = "other"
TECHNIQUE = "static analysis: abstract interpretation (finite-domain evaluation on model objects and model output files) of the two input writers and their shared rendering routine"
EXPLANATION = (
    "Static decision of the clauses of C19 that the code of the writers fixes for every object (first as "
    "statement-shape rules, later replaced by evaluation, see below): (R1) the geometry is one atom line per atom, "
    "in order, unfiltered, newline-joined; (R2) the default atom line "
    "of both programs is the element symbol followed by the three components of "
    "data.atcoords[i] / angstrom in order; (R3) charge is rounded to the nearest integer (not truncated) and "
    "the multiplicity is round(|spinpol|) + 1; (R4) user-supplied fields are merged after every default, "
    "template and atom_line defaults apply only when the argument is None; (R5) run types map through the "
    "documented literal tables with fallback 'energy', lot/basis fall back to the documented defaults; "
    "(R6) the API error contract for write_input is decided under C08.  Declined: content of user "
    "templates; numeric formatting of coordinates."
)
TECHNIQUE += '; interprocedural may-escape exception flow of write_input'
EXPLANATION += ' Added: (R6) only FileFormatError and WriteInputError can leave api.write_input; _select_input_module fails with FileFormatError on every path.'
TECHNIQUE += '; finite-domain evaluation of the field-dictionary code'
EXPLANATION += " R3-R5 no longer match statement templates: the program-specific write_input and the prefix of write_input_base that builds the field dictionary are interpreted (iodalint.accessors) on abstract objects over a finite domain (7 charges, 7 spin polarisations, all run types in three spellings plus unsupported ones, absent / empty / given title, lot, basis; keyword arguments including 0 and ''), and the resulting fields are compared with the documented ones."
# --- metadata added for batch 7
TECHNIQUE += '; template rendering with marker fields; registry membership rule'
EXPLANATION += " Added: (R7) default templates have the structure the program's input syntax requires (rendered with markers); (R8) the rendered template reaches the file once, and the API forwards template, atom_line and keyword arguments; (R9) every module of iodata.inputs that the registry builder would register (module-level `write_input`) is a documented program writer with the signature api.write_input uses -- a helper exposing that name would become a program. The shared rendering routine is located by role (the function of iodata.inputs every program writer calls), not by its name."
# --- end metadata batch 7
# --- metadata added for batch 8
TECHNIQUE += '; rendering routine and default atom lines interpreted on model objects'
EXPLANATION += " R1 / R2 no longer match statement shapes of the shared routine: the routine is interpreted with a recording atom-line function on objects with 0, 1 and 4 atoms (a ghost centre and a repeated element included), and each program's default atom-line function -- captured from `write_input` called without one -- on a model object with angstrom standing for 2. R3 includes the default multiplicity for objects whose electron count is odd."
# --- end metadata batch 8
# --- metadata added for batch 9
EXPLANATION += ' R2: the model molecule contains an atom thousands of angstrom away with negative coordinates (fixed-width columns must stay separated).'
# --- end metadata batch 9
TRUSTED = ["CPython ast parser", "int() truncates toward zero; round/np.round/np.rint round to nearest", "str.format(**fields) takes the last value stored under a key"]

ROUNDERS = {"round", "rint", "around"}
GAUSSIAN_RUN = {"energy": "sp", "energy_force": "force", "opt": "opt", "scan": "scan", "freq": "freq"}
ORCA_RUN = {"energy": "Energy", "freq": "Freq", "opt": "Opt"}


def _is_rounded_int(e):
    """int(round(x)) / int(np.round(x)) / int(np.rint(x)) / round(x) / int(x + 0.5)-style."""
    if isinstance(e, ast.Call) and isinstance(e.func, ast.Name) and e.func.id == "round" and len(e.args) == 1:
        return True
    if isinstance(e, ast.Call) and isinstance(e.func, ast.Name) and e.func.id == "int" and e.args:
        a = e.args[0]
        for n in ast.walk(a):
            if isinstance(n, ast.Call):
                nm = n.func.attr if isinstance(n.func, ast.Attribute) else getattr(n.func, "id", "")
                if nm in ROUNDERS:
                    return True
        if isinstance(a, ast.Call) and isinstance(a.func, ast.Attribute) and a.func.attr == "floor" and a.args and isinstance(a.args[0], ast.BinOp) and isinstance(a.args[0].op, ast.Add) and isinstance(a.args[0].right, ast.Constant) and a.args[0].right.value == 0.5:
            return True
    return False


def run(ctx):
    prog = ctx.prog
    ce = ConstEval(prog)
    ctx.clauses_decided = ["R1 one line per atom, in order", "R2 default atom line", "R3 rounding", "R4 precedence", "R5 defaults and run types", "R6 error contract of write_input"]
    ctx.clauses_declined = ["content of user templates", "numeric formatting of coordinates"]
    ctx.rule("R9", "every registered input module is a documented program writer", "a helper module exposing `write_input` becomes a program name: an unknown program no longer raises FileFormatError")
    from .c19_semantics import check_registered_programs

    check_registered_programs(ctx, "R9")
    if any(not _is_documented_writer(prog, prog.funcs.get(f"{m.name}.write_input")) if prog.funcs.get(f"{m.name}.write_input") else True for m in prog.input_modules().values()):
        return  # the rules below are stated per program: decided once the registry holds programs only
    base = input_base(prog)

    # ------------------------------------------------------------------ R1 / R2 (evaluated; no statement shape is matched)
    ctx.rule("R1", "exactly one geometry line per atom, in order", "atoms are missing, duplicated or re-ordered in the generated input")
    ctx.rule("R2", "default atom lines: element symbol and coordinates in angstrom, in x y z order", "wrong element, wrong unit or permuted coordinates in the generated input")
    from .c19_semantics import check_default_atom_lines, check_geometry_lines

    check_geometry_lines(ctx, "R1")
    check_default_atom_lines(ctx, "R2")

    # ------------------------------------------------------------------ R3 / R4 / R5
    # decided by evaluating the two small functions that build the field dictionary (the program's write_input and the
    # part of write_input_base before the geometry is rendered) over a finite domain of objects and keyword
    # arguments (iodalint.accessors); no statement template is matched.
    ctx.rule("R3", "charge and multiplicity are rounded, not truncated", "a charge of 0.9999999 (derived from float electron counts) is written as 0")
    ctx.rule("R4", "user-supplied fields and keyword arguments take precedence over defaults", "a user field is silently overwritten by a default, or a falsy user value is dropped")
    ctx.rule("R5", "documented defaults and run-type keywords", "a run type is mapped to the wrong keyword, an unsupported one is silently written as a single point, or an absent value breaks rendering")
    from .c19_semantics import check_field_semantics

    check_field_semantics(ctx, "R3", "R4", "R5")
    ctx.rule("R7", "default templates have the structure the program's input syntax requires (rendered with markers)", "charge and multiplicity swapped, method/basis separator lost, geometry or a block terminator missing: the program reads another molecule or rejects the input")
    from .c19_semantics import check_default_templates

    check_default_templates(ctx, "R7")
    ctx.rule("R8", "the rendered template reaches the file; the API forwards template, atom_line and keyword arguments (evaluated)", "nothing (or the unrendered template) is written, or a user template / atom-line callback is swapped or dropped on the way")
    from .c19_semantics import check_rendering

    check_rendering(ctx, "R8")
    # (that the merged dictionary is what gets formatted is part of the evaluated rendering, R8)

    # ------------------------------------------------------------------ R6
    ctx.rule("R6", "unknown program -> FileFormatError; any rendering failure -> WriteInputError", "a raw exception (AttributeError of a template field, an error of a user callback) escapes write_input")
    from ..excflow import ExcFlow, report_escapes
    from ..astutil import raises_class as _rc, walk_stmts as _ws

    api_wi = prog.func("iodata.api.write_input")
    ef = ExcFlow(prog)
    report_escapes(ctx, "R6", api_wi, ef.escapes(api_wi), {"FileFormatError", "WriteInputError"})
    nimpl = sum(len(cs.callees) for cs in api_wi.calls if cs.registry_op == "write_input")
    ctx.floor("R6", nimpl, 2, "input writers behind the funnel")
    selm = prog.func("iodata.api._select_input_module")
    rs = [s for s in _ws(selm.body) if isinstance(s, ast.Raise)]
    last = selm.body[-1]
    if rs and all(_rc(r) == "FileFormatError" for r in rs) and isinstance(last, (ast.Raise, ast.Return)):
        ctx.ok("R6", f"_select_input_module: all {len(rs)} failure exits raise FileFormatError and the routine cannot fall off its end", selm.where)
    else:
        ctx.violate("R6", f"_select_input_module failure exits: {[_rc(r) for r in rs]} / falls off its end", selm, selm.node, construct="input selection failure exits")
