"""C19 -- generated QC input files describe the molecule (structural clauses)."""

from __future__ import annotations

import ast

from .. import AnalysisError
from ..astutil import bind_call, deref, names_in, walk_stmts
from ..cfg import cfg_of
from ..consteval import ConstEval, NotConstant
from ..model import src_of

PROP = "C19"
LEVEL = "other"
TECHNIQUE = "static analysis: comprehension-shape, unit-factor, rounding-idiom and statement-order (post-dominance) rules on the two input writers and their shared base"
EXPLANATION = (
    "Static decision of the structural clauses of C19: (R1) the geometry is one atom_line(data, i) per i in "
    "range(data.natom), unfiltered, newline-joined, stored after the user fields; (R2) the default atom line "
    "of both programs takes the symbol from num2sym[data.atnums[i]] and prints the three components of "
    "data.atcoords[i] / angstrom in order; (R3) charge is rounded to the nearest integer (not truncated) and "
    "the multiplicity is round(|spinpol|) + 1; (R4) user-supplied fields are merged after every default, "
    "template and atom_line defaults apply only when the argument is None; (R5) run types map through the "
    "documented literal tables with fallback 'energy', lot/basis fall back to the documented defaults; "
    "(R6) the API error contract for write_input is decided under C08.  Declined: content of user "
    "templates; numeric formatting of coordinates."
)
TECHNIQUE += '; interprocedural may-escape exception flow of write_input'
EXPLANATION += ' Added: (R6) only FileFormatError and WriteInputError can leave api.write_input; _select_input_module fails with FileFormatError on every path.'
TRUSTED = ["CPython ast parser", "int() truncates toward zero; round/np.round/np.rint round to nearest", "str.format(**fields) takes the last value stored under a key"]

ROUNDERS = {"round", "rint", "around"}
GAUSSIAN_RUN = {"energy": "sp", "energy_force": "force", "opt": "opt", "scan": "scan", "freq": "freq"}
ORCA_RUN = {"energy": "Energy", "freq": "Freq", "opt": "Opt"}


def _is_rounded_int(e):
    """int(round(x)) / int(np.round(x)) / int(np.rint(x)) / round(x) / int(x + 0.5)-style."""
    if isinstance(e, ast.Call) and isinstance(e.func, ast.Name) and e.func.id == "round" and len(e.args) == 1:
        return True
    if isinstance(e, ast.Call) and isinstance(e.func, ast.Name) and e.func.id == "int" and e.args:
        a = e.args[0]
        for n in ast.walk(a):
            if isinstance(n, ast.Call):
                nm = n.func.attr if isinstance(n.func, ast.Attribute) else getattr(n.func, "id", "")
                if nm in ROUNDERS:
                    return True
        if isinstance(a, ast.Call) and isinstance(a.func, ast.Attribute) and a.func.attr == "floor" and a.args and isinstance(a.args[0], ast.BinOp) and isinstance(a.args[0].op, ast.Add) and isinstance(a.args[0].right, ast.Constant) and a.args[0].right.value == 0.5:
            return True
    return False


def run(ctx):
    prog = ctx.prog
    ce = ConstEval(prog)
    ctx.clauses_decided = ["R1 one line per atom, in order", "R2 default atom line", "R3 rounding", "R4 precedence", "R5 defaults and run types", "R6 error contract of write_input"]
    ctx.clauses_declined = ["content of user templates", "numeric formatting of coordinates"]
    base = prog.func("iodata.inputs.common.write_input_base")
    fh, data, template, atom_line, user = base.posparams[:5]

    # locate `fields` (the dict formatted into the template)
    fmt_calls = [n for n in base.own_nodes() if isinstance(n, ast.Call) and isinstance(n.func, ast.Attribute) and n.func.attr == "format" and isinstance(n.func.value, ast.Name) and n.func.value.id == template]
    if len(fmt_calls) != 1 or not fmt_calls[0].keywords or fmt_calls[0].keywords[0].arg is not None:
        raise AnalysisError("write_input_base: cannot find template.format(**fields)")
    fields = src_of(fmt_calls[0].keywords[0].value)
    stores = {}
    order = []
    for st in base.body:
        if isinstance(st, ast.Assign) and len(st.targets) == 1 and isinstance(st.targets[0], ast.Subscript) and src_of(st.targets[0].value) == fields and isinstance(st.targets[0].slice, ast.Constant):
            stores[st.targets[0].slice.value] = st
            order.append(("store", st.targets[0].slice.value, st))
        elif isinstance(st, ast.Expr) and isinstance(st.value, ast.Call) and src_of(st.value.func) == f"{fields}.update":
            order.append(("update", src_of(st.value.args[0]) if st.value.args else "", st))
        elif isinstance(st, ast.Expr) and isinstance(st.value, ast.Call) and any(c is fmt_calls[0] for c in ast.walk(st.value)):
            order.append(("print", "", st))

    # ------------------------------------------------------------------ R1
    ctx.rule("R1", "exactly one geometry line per atom, in order", "atoms are missing, duplicated or re-ordered in the generated input")
    gst = stores.get("geometry")
    if gst is None:
        ctx.violate("R1", "no `geometry` field is generated", base, base.node, construct="geometry field")
    else:
        v = gst.value
        okjoin = isinstance(v, ast.Call) and isinstance(v.func, ast.Attribute) and v.func.attr == "join" and isinstance(v.func.value, ast.Constant) and v.func.value.value == "\n" and len(v.args) == 1
        comp = deref(base, v.args[0]) if okjoin else None
        okcomp = False
        if isinstance(comp, (ast.ListComp, ast.GeneratorExp)) and len(comp.generators) == 1:
            g = comp.generators[0]
            it = g.iter
            okrange = isinstance(it, ast.Call) and getattr(it.func, "id", "") == "range" and len(it.args) == 1 and src_of(it.args[0]) == f"{data}.natom"
            elt = comp.elt
            okelt = isinstance(elt, ast.Call) and isinstance(elt.func, ast.Name) and elt.func.id == atom_line and len(elt.args) == 2 and src_of(elt.args[0]) == data and isinstance(g.target, ast.Name) and src_of(elt.args[1]) == g.target.id
            okcomp = okrange and okelt and not g.ifs
        if okjoin and okcomp:
            ctx.ok("R1", f"geometry = '\\n'.join({atom_line}({data}, i) for i in range({data}.natom))", f"{base.module.relpath}:{gst.lineno}")
        else:
            ctx.violate("R1", "the geometry is not the newline-joined, unfiltered sequence atom_line(data, i) for i in range(data.natom)", base, gst)
        kinds = [k for k, _, _ in order]
        gi = [i for i, (k, n, _) in enumerate(order) if k == "store" and n == "geometry"]
        ui = [i for i, (k, n, _) in enumerate(order) if k == "update"]
        pi = [i for i, (k, n, _) in enumerate(order) if k == "print"]
        if gi and pi and gi[0] < pi[0] and (not ui or ui[-1] < gi[0]):
            ctx.ok("R1", "geometry is stored after the user fields and before rendering (a user field cannot replace it)", f"{base.module.relpath}:{gst.lineno}")
        else:
            ctx.violate("R1", "the geometry field is not stored after the user fields and before the template is rendered", base, gst, construct="geometry store order")

    # ------------------------------------------------------------------ R2
    ctx.rule("R2", "default atom lines: element symbol and coordinates in angstrom, in x y z order", "wrong element, wrong unit or permuted coordinates in the generated input")
    nprog = 0
    for short, m in prog.input_modules().items():
        nprog += 1
        wi = prog.func(f"{m.name}.write_input")
        # default atom_line function: assigned under `if atom_line is None`
        dal = None
        for st in walk_stmts(wi.body):
            if isinstance(st, ast.If) and src_of(st.test) == "atom_line is None":
                for s2 in st.body:
                    if isinstance(s2, ast.Assign) and src_of(s2.targets[0]) == "atom_line" and isinstance(s2.value, ast.Name):
                        r = prog.resolve_expr(wi, wi.module, s2.value)
                        if r and r[0] == "func":
                            dal = r[1]
        if dal is None:
            ctx.violate("R2", f"{short}: no default atom_line under `if atom_line is None`", wi, wi.node, construct="default atom_line")
            continue
        d, i = dal.posparams[:2]
        rets = [n for n in dal.own_nodes() if isinstance(n, ast.Return)]
        if len(rets) != 1 or not isinstance(rets[0].value, ast.JoinedStr):
            ctx.violate("R2", f"{short}: default atom line is not a single f-string", dal, dal.node, construct="atom line f-string")
            continue
        fvals = [deref(dal, x.value) for x in rets[0].value.values if isinstance(x, ast.FormattedValue)]
        specs = [src_of(x.format_spec) if x.format_spec is not None else "" for x in rets[0].value.values if isinstance(x, ast.FormattedValue)]
        if len(fvals) != 4:
            ctx.violate("R2", f"{short}: default atom line prints {len(fvals)} values, expected symbol + 3 coordinates", dal, rets[0])
            continue
        sym = fvals[0]
        oksym = isinstance(sym, ast.Subscript) and isinstance(sym.value, ast.Name) and src_of(sym.slice) == f"{d}.atnums[{i}]"
        if oksym:
            r = prog.resolve_expr(dal, dal.module, sym.value)
            oksym = bool(r and r[0] == "global" and r[1].name == "iodata.periodic" and r[2] == "num2sym")
        if oksym:
            ctx.ok("R2", f"{short}: symbol = num2sym[data.atnums[i]]", f"{dal.module.relpath}:{rets[0].lineno}")
        else:
            ctx.violate("R2", f"{short}: the element symbol is `{src_of(sym)}`, not num2sym[data.atnums[i]]", dal, rets[0])
        coords = []
        unit_ok = True
        for k, fv in enumerate(fvals[1:]):
            # atcoord[k] where atcoord = data.atcoords[i] / angstrom   (or the expression inline)
            if isinstance(fv, ast.Subscript) and isinstance(fv.slice, ast.Constant):
                coords.append(fv.slice.value)
                basev = deref(dal, fv.value)
            else:
                coords.append(None)
                basev = fv
            good = isinstance(basev, ast.BinOp) and isinstance(basev.op, ast.Div) and src_of(basev.left) == f"{d}.atcoords[{i}]"
            if good:
                r = prog.resolve_expr(dal, dal.module, basev.right)
                good = bool(r and r[0] == "global" and r[1].name == "iodata.utils" and r[2] == "angstrom")
            unit_ok = unit_ok and good
        if coords == [0, 1, 2]:
            ctx.ok("R2", f"{short}: coordinates printed in x, y, z order", f"{dal.module.relpath}:{rets[0].lineno}")
        else:
            ctx.violate("R2", f"{short}: coordinate components are printed in order {coords}", dal, rets[0])
        if unit_ok:
            ctx.ok("R2", f"{short}: coordinates are data.atcoords[i] / angstrom", f"{dal.module.relpath}:{rets[0].lineno}")
        else:
            ctx.violate("R2", f"{short}: coordinates are not data.atcoords[i] / angstrom (wrong unit factor or direction)", dal, rets[0], construct="atom line unit")
        for sp in specs[1:]:
            if "," in sp or "_" in sp:
                ctx.violate("R2", f"{short}: coordinate format `{sp}` uses a grouping option", dal, rets[0], construct=f"format spec {sp}")
    ctx.floor("R2", nprog, 2, "input modules")

    # ------------------------------------------------------------------ R3
    ctx.rule("R3", "charge and multiplicity are rounded, not truncated", "a charge of 0.9999999 (derived from float electron counts) is written as 0")
    cst = stores.get("charge")
    if cst is None:
        ctx.violate("R3", "no `charge` field", base, base.node, construct="charge field")
    else:
        v = cst.value
        main = v.body if isinstance(v, ast.IfExp) else v
        dflt = v.orelse if isinstance(v, ast.IfExp) else None
        guard_ok = isinstance(v, ast.IfExp) and src_of(v.test) == f"{data}.charge is not None" and isinstance(dflt, ast.Constant) and dflt.value == 0
        if _is_rounded_int(main) and f"{data}.charge" in src_of(main):
            ctx.ok("R3", f"charge = {src_of(main)} (rounded)", f"{base.module.relpath}:{cst.lineno}")
        else:
            ctx.violate("R3", f"the charge field is `{src_of(main)}`: int() truncates toward zero instead of rounding to the nearest integer", base, cst)
        if guard_ok:
            ctx.ok("R3", "charge defaults to 0 when unknown", f"{base.module.relpath}:{cst.lineno}")
        else:
            ctx.violate("R3", "the charge field does not default to 0 when data.charge is None", base, cst, construct="charge default")
    sst = stores.get("spinmult")
    if sst is None:
        ctx.violate("R3", "no `spinmult` field", base, base.node, construct="spinmult field")
    else:
        v = sst.value
        main = v.body if isinstance(v, ast.IfExp) else v
        okk = isinstance(main, ast.BinOp) and isinstance(main.op, ast.Add) and isinstance(main.right, ast.Constant) and main.right.value == 1 and _is_rounded_int(main.left) and f"{data}.spinpol" in src_of(main.left)
        okd = isinstance(v, ast.IfExp) and src_of(v.test) == f"{data}.spinpol is not None" and isinstance(v.orelse, ast.Constant) and v.orelse.value == 1
        if okk and okd:
            ctx.ok("R3", f"spinmult = {src_of(main)} (rounded spin polarisation + 1; 1 when unknown)", f"{base.module.relpath}:{sst.lineno}")
        else:
            ctx.violate("R3", f"the multiplicity field is `{src_of(v)}`, expected round(|spinpol|) + 1 with default 1", base, sst)

    # ------------------------------------------------------------------ R4
    ctx.rule("R4", "user-supplied fields and keyword arguments take precedence over defaults", "a user field is silently overwritten by a default")
    ui = [i for i, (k, n, _) in enumerate(order) if k == "update" and n == user]
    if len(ui) != 1:
        ctx.violate("R4", "write_input_base does not merge the user fields exactly once", base, base.node, construct="user fields update")
    else:
        late = [n for i, (k, n, _) in enumerate(order) if k == "store" and i > ui[0] and n != "geometry"]
        early = [n for i, (k, n, _) in enumerate(order) if k == "store" and i < ui[0]]
        if late:
            ctx.violate("R4", f"defaults {late} are assigned after the user fields were merged (they overwrite user input)", base, stores[late[0]])
        else:
            ctx.ok("R4", f"defaults {early} are assigned before fields.update({user})", f"{base.module.relpath}:{order[ui[0]][2].lineno}")
    tst = stores.get("title")
    if tst is not None and src_of(tst.value).startswith(f"{data}.title if {data}.title is not None else "):
        ctx.ok("R4", "title: the object's title, else a default", f"{base.module.relpath}:{tst.lineno}")
    else:
        ctx.violate("R4", "the title field is not `data.title if data.title is not None else <default>`", base, tst or base.node, construct="title default" if tst is None else "")
    for short, m in prog.input_modules().items():
        wi = prog.func(f"{m.name}.write_input")
        kw = wi.kwarg
        # the dict passed as user_fields to the base
        bcalls = [cs for cs in wi.calls if base in cs.callees]
        if len(bcalls) != 1 or kw is None:
            ctx.violate("R4", f"{short}.write_input does not call write_input_base exactly once with **kwargs support", wi, wi.node, construct="base call")
            continue
        b, e, okb = bind_call(bcalls[0].node, base)
        fname = src_of(b[user]) if user in b else None
        good_pass = all(isinstance(b.get(p), ast.Name) and b[p].id == q for p, q in ((fh, wi.posparams[0]), (data, wi.posparams[1]), (template, "template"), (atom_line, "atom_line")))
        if not good_pass:
            ctx.violate("R4", f"{short}.write_input does not pass (fh, data, template, atom_line) through to the base", wi, bcalls[0].node)
        seq = []
        for st in wi.body:
            if isinstance(st, ast.Assign) and src_of(st.targets[0]) == fname and isinstance(st.value, ast.Dict):
                seq.append(("defaults", st))
            elif isinstance(st, ast.Assign) and isinstance(st.targets[0], ast.Subscript) and src_of(st.targets[0].value) == fname:
                seq.append(("default1", st))
            elif isinstance(st, ast.Expr) and isinstance(st.value, ast.Call) and src_of(st.value.func) == f"{fname}.update" and st.value.args and src_of(st.value.args[0]) == kw:
                seq.append(("update", st))
            elif isinstance(st, ast.Expr) and isinstance(st.value, ast.Call) and st.value is bcalls[0].node:
                seq.append(("call", st))
        kinds = [k for k, _ in seq]
        if kinds.count("update") == 1 and "defaults" in kinds and kinds.index("update") > max(i for i, k in enumerate(kinds) if k in ("defaults", "default1")) and kinds.index("call") > kinds.index("update"):
            ctx.ok("R4", f"{short}: fields.update(kwargs) after the program defaults, before rendering", f"{wi.module.relpath}:{seq[kinds.index('update')][1].lineno}")
        else:
            ctx.violate("R4", f"{short}.write_input does not merge **kwargs after its defaults (order {kinds})", wi, wi.node, construct=f"kwargs precedence {kinds}")
        for pname in ("template", "atom_line"):
            ass = [n for n in wi.own_nodes() if isinstance(n, ast.Assign) and src_of(n.targets[0]) == pname]
            pm = prog.parents(wi)
            bad = [a for a in ass if not (isinstance(pm.get(id(a)), ast.If) and src_of(pm[id(a)].test) == f"{pname} is None")]
            if bad:
                ctx.violate("R4", f"{short}: `{pname}` is overwritten although the caller supplied one", wi, bad[0])
            elif ass:
                ctx.ok("R4", f"{short}: default {pname} only when the argument is None", f"{wi.module.relpath}:{ass[0].lineno}", sample=False)

    # ------------------------------------------------------------------ R5
    ctx.rule("R5", "documented defaults and run-type keywords", "a run type is mapped to the wrong keyword or an absent value breaks rendering")
    want_run = {"gaussian": GAUSSIAN_RUN, "orca": ORCA_RUN}
    want_def = {"gaussian": {"lot": "hf", "obasis_name": "sto-3g"}, "orca": {"lot": "HF", "obasis_name": "STO-3G"}}
    for short, m in prog.input_modules().items():
        wi = prog.func(f"{m.name}.write_input")
        d = wi.posparams[1]
        dicts = [n for n in wi.own_nodes() if isinstance(n, ast.Assign) and isinstance(n.value, ast.Dict)]
        table = None
        defaults = None
        for a in dicts:
            try:
                val = ce.eval_in_func(wi, a.value)
            except NotConstant:
                val = None
            if isinstance(val, dict) and "energy" in val:
                table = (a, val)
            keys = [k.value for k in a.value.keys if isinstance(k, ast.Constant)]
            if "lot" in keys and "run_type" in keys:
                defaults = a
        if short in want_run:
            if table is not None and table[1] == want_run[short]:
                ctx.ok("R5", f"{short}: run-type table {table[1]}", f"{wi.module.relpath}:{table[0].lineno}")
            else:
                ctx.violate("R5", f"{short}: run-type table is {table[1] if table else None}, documented {want_run[short]}", wi, table[0] if table else wi.node, construct="run-type table" if table is None else "")
        if defaults is None:
            ctx.violate("R5", f"{short}: no defaults dict with lot / obasis_name / run_type", wi, wi.node, construct="defaults dict")
            continue
        kv = {k.value: v for k, v in zip(defaults.value.keys, defaults.value.values) if isinstance(k, ast.Constant)}
        for fld in ("lot", "obasis_name"):
            v = kv.get(fld)
            okk = isinstance(v, ast.BoolOp) and isinstance(v.op, ast.Or) and len(v.values) == 2 and src_of(v.values[0]) == f"{d}.{fld}" and isinstance(v.values[1], ast.Constant)
            if okk and (short not in want_def or v.values[1].value == want_def[short][fld]):
                ctx.ok("R5", f"{short}: {fld} = data.{fld} or {v.values[1].value!r}", f"{wi.module.relpath}:{defaults.lineno}", sample=False)
            else:
                ctx.violate("R5", f"{short}: `{fld}` is `{src_of(v) if v is not None else None}`, expected data.{fld} or the documented default", wi, defaults, construct=f"{fld} default")
        v = kv.get("run_type")
        tname = src_of(table[0].targets[0]) if table else "?"
        want = f"{tname}[({d}.run_type or 'energy').lower()]"
        if v is not None and src_of(v).replace('"', "'") == want:
            ctx.ok("R5", f"{short}: run_type = {want}", f"{wi.module.relpath}:{defaults.lineno}")
        else:
            ctx.violate("R5", f"{short}: run_type is `{src_of(v) if v is not None else None}`, expected `{want}`", wi, defaults, construct="run_type lookup")

    # ------------------------------------------------------------------ R6
    ctx.rule("R6", "unknown program -> FileFormatError; any rendering failure -> WriteInputError", "a raw exception (AttributeError of a template field, an error of a user callback) escapes write_input")
    from ..excflow import ExcFlow, report_escapes
    from ..astutil import raises_class as _rc, walk_stmts as _ws

    api_wi = prog.func("iodata.api.write_input")
    ef = ExcFlow(prog)
    report_escapes(ctx, "R6", api_wi, ef.escapes(api_wi), {"FileFormatError", "WriteInputError"})
    nimpl = sum(len(cs.callees) for cs in api_wi.calls if cs.registry_op == "write_input")
    ctx.floor("R6", nimpl, 2, "input writers behind the funnel")
    selm = prog.func("iodata.api._select_input_module")
    rs = [s for s in _ws(selm.body) if isinstance(s, ast.Raise)]
    last = selm.body[-1]
    if rs and all(_rc(r) == "FileFormatError" for r in rs) and isinstance(last, (ast.Raise, ast.Return)):
        ctx.ok("R6", f"_select_input_module: all {len(rs)} failure exits raise FileFormatError and the routine cannot fall off its end", selm.where)
    else:
        ctx.violate("R6", f"_select_input_module failure exits: {[_rc(r) for r in rs]} / falls off its end", selm, selm.node, construct="input selection failure exits")
