"""C14 -- basis segmentation and orbital un-restriction preserve the physics (structural clauses)."""

from __future__ import annotations

import ast

from .. import AnalysisError
from ..astutil import bind_call, raises_class, walk_stmts
from ..cfg import cfg_of
from ..model import src_of
from ..schema import class_schema

PROP = "C14"
LEVEL = "other"
TECHNIQUE = "static analysis: loop-shape and constructor-binding rules on the two conversion routines, normalised-predicate agreement between prepare and convert, dominance of the generalized-orbitals guards"
EXPLANATION = (
    "Static decision of the structural clauses of C14: (R1) convert_to_segmented traverses shells and their "
    "(angmom, kind, coefficient column) triples in order, appends only, each new shell takes the parent's "
    "center and exponents and the matching triple, kept shells are appended as they are, and the result is "
    "attrs.evolve(obasis, shells=...) so conventions and normalisation carry over; (R2) the 'leave as is' "
    "predicate of convert_to_segmented and the 'nothing to do' predicate of prepare_segmented are the same "
    "boolean function of (ncon, keep_sp, angmoms); (R3) convert_to_unrestricted rejects generalized "
    "orbitals with ValueError, returns unrestricted orbitals unchanged and otherwise builds "
    "MolecularOrbitals('unrestricted', norba, norbb, concat(occsa, occsb), concat(coeffs, coeffs, axis=1), "
    "concat(energies, energies), concat(irreps, irreps)) with None propagated field by field, argument "
    "order checked against the class' field order; (R4) generalized orbitals are rejected in "
    "prepare_unrestricted_aminusb and, before it, in every writer's prepare_dump.  Declined: identical "
    "overlap matrix, density and spin density (numerical)."
)
TECHNIQUE += '; identity-shortcut predicate check'
EXPLANATION += ' Added: (R5) prepare_unrestricted_aminusb returns the unconverted object only under the documented nothing-to-do tests.'
TECHNIQUE += '; evaluation of convert_to_unrestricted on abstract restricted orbitals'
EXPLANATION += ' R3 no longer matches the constructor template: convert_to_unrestricted is interpreted on abstract restricted orbitals (explicit occs_aminusb, missing optional arrays, no occupations, six constant occupation patterns) and every alpha/beta view, nelec, spinpol and the orbital counts of the result are compared with those of the input; identity on unrestricted input and ValueError on generalized input are evaluated the same way.'
TRUSTED = ["CPython ast parser", "attrs.evolve copies all fields not named", "np.concatenate keeps the order of its inputs"]


def _norm_pred(e, shellvar):
    """Predicate text with the shell variable renamed to `S`."""
    class R(ast.NodeTransformer):
        def visit_Name(self, n):
            if n.id == shellvar:
                return ast.copy_location(ast.Name(id="S", ctx=n.ctx), n)
            return n
    import copy

    t = R().visit(copy.deepcopy(e))
    return " ".join(ast.unparse(t).split())


def run(ctx):
    prog = ctx.prog
    ctx.clauses_decided = ["R1 order-preserving split", "R2 keep_sp predicate agreement", "R3 un-restriction template", "R4 generalized orbitals rejected", "R5 identity shortcut of prepare_unrestricted_aminusb"]
    ctx.clauses_declined = ["identical overlap matrix, density, spin density (numerical)"]
    cs = prog.func("iodata.convert.convert_to_segmented")
    cu = prog.func("iodata.convert.convert_to_unrestricted")
    ps = prog.func("iodata.prepare.prepare_segmented")
    pa = prog.func("iodata.prepare.prepare_unrestricted_aminusb")
    shell_cls = prog.cls("iodata.basis.Shell")
    mo_cls, mof, mop = class_schema(prog, "iodata.orbitals.MolecularOrbitals")

    # ------------------------------------------------------------------ R1
    ctx.rule("R1", "segmentation splits shells in contraction order", "basis functions change order or lose their center/exponents, so every orbital coefficient means something else")
    ob = cs.posparams[0]
    loops = [n for n in cs.own_nodes() if isinstance(n, ast.For)]
    outer = [l for l in loops if src_of(l.iter) == f"{ob}.shells"]
    keep_pred = None
    if len(outer) != 1 or not isinstance(outer[0].target, ast.Name):
        ctx.violate("R1", f"convert_to_segmented does not iterate `{ob}.shells` directly (sorted / reversed / filtered?)", cs, cs.node, construct="shell loop")
    else:
        lp = outer[0]
        sv = lp.target.id
        ctx.ok("R1", f"for {sv} in {ob}.shells  (in order)", f"{cs.module.relpath}:{lp.lineno}")
        body = [s for s in lp.body]
        if len(body) == 1 and isinstance(body[0], ast.If):
            ifs = body[0]
            keep_pred = _norm_pred(ifs.test, sv)
            # kept shells appended as they are
            kept = [s for s in ifs.body if isinstance(s, ast.Expr) and isinstance(s.value, ast.Call) and getattr(s.value.func, "attr", "") == "append"]
            if len(kept) == 1 and len(ifs.body) == 1 and src_of(kept[0].value.args[0]) == sv:
                acc = src_of(kept[0].value.func.value)
                ctx.ok("R1", f"kept shells are appended unchanged ({acc}.append({sv}))", f"{cs.module.relpath}:{kept[0].lineno}")
            else:
                acc = None
                ctx.violate("R1", "shells that need no splitting are not appended unchanged", cs, ifs, construct="keep branch")
            inner = [s for s in ifs.orelse if isinstance(s, ast.For)]
            if len(inner) == 1 and len(ifs.orelse) == 1:
                il = inner[0]
                want_iter = f"zip({sv}.angmoms, {sv}.kinds, {sv}.coeffs.T)"
                if src_of(il.iter) == want_iter and isinstance(il.target, ast.Tuple) and len(il.target.elts) == 3:
                    a, k, c = (e.id for e in il.target.elts)
                    ctx.ok("R1", f"for {a}, {k}, {c} in {want_iter}  (contraction order)", f"{cs.module.relpath}:{il.lineno}")
                    calls = [x for x in prog.parents(cs) and [cs2 for cs2 in cs.calls if cs2.cls is shell_cls]]
                    apps = [s for s in il.body if isinstance(s, ast.Expr) and isinstance(s.value, ast.Call) and getattr(s.value.func, "attr", "") == "append"]
                    if len(apps) == 1 and len(il.body) == 1 and len(calls) == 1 and apps[0].value.args[0] is calls[0].node and (acc is None or src_of(apps[0].value.func.value) == acc):
                        ctor = calls[0].node
                        fields = list(shell_cls.fields)
                        bound = {}
                        for i, arg in enumerate(ctor.args):
                            bound[fields[i]] = arg
                        for kw in ctor.keywords:
                            bound[kw.arg] = kw.value
                        want = {
                            "icenter": f"{sv}.icenter", "angmoms": f"[{a}]", "kinds": f"[{k}]", "exponents": f"{sv}.exponents",
                        }
                        bad = [f"{f}={src_of(bound[f]) if f in bound else None}" for f, w in want.items() if f not in bound or src_of(bound[f]) != w]
                        cexp = src_of(bound["coeffs"]) if "coeffs" in bound else ""
                        if not (cexp.startswith(f"{c}.reshape(") or cexp in (f"{c}[:, None]", f"{c}[:, np.newaxis]")):
                            bad.append(f"coeffs={cexp}")
                        if bad:
                            ctx.violate("R1", f"a split shell is built with {bad}; expected the parent's center/exponents and the matching (angmom, kind, column)", cs, ctor)
                        else:
                            ctx.ok("R1", "each split shell: parent's icenter and exponents, [angmom], [kind], its own coefficient column", f"{cs.module.relpath}:{ctor.lineno}")
                    else:
                        ctx.violate("R1", "the contraction loop does not append exactly one new Shell per contraction to the same list", cs, il, construct="contraction loop body")
                else:
                    ctx.violate("R1", f"contractions are not traversed as `{want_iter}`", cs, il)
            else:
                ctx.violate("R1", "the split branch is not a single loop over the contractions", cs, ifs, construct="split branch")
        else:
            ctx.violate("R1", "the shell loop body is not a single keep-or-split decision", cs, lp, construct="shell loop body")
    rets = [n for n in cs.own_nodes() if isinstance(n, ast.Return)]
    okret = False
    if len(rets) == 1 and isinstance(rets[0].value, ast.Call):
        r = prog.resolve_expr(cs, cs.module, rets[0].value.func)
        c = rets[0].value
        okret = bool(r and r[0] == "external" and r[1] in ("attrs.evolve", "attr.evolve") and len(c.args) == 1 and src_of(c.args[0]) == ob and [k.arg for k in c.keywords] == ["shells"])
    if okret:
        ctx.ok("R1", f"returns attrs.evolve({ob}, shells=...): conventions and primitive normalisation carried over", f"{cs.module.relpath}:{rets[0].lineno}")
    else:
        ctx.violate("R1", "the segmented basis is not built with attrs.evolve(obasis, shells=...) (conventions / normalisation may be lost)", cs, rets[0] if rets else cs.node)
    for n in cs.own_nodes():
        if isinstance(n, ast.Call) and getattr(n.func, "attr", "") in ("sort", "reverse", "insert", "pop", "remove"):
            ctx.violate("R1", f"convert_to_segmented re-orders its shell list with .{n.func.attr}()", cs, n)
        if isinstance(n, ast.Call) and getattr(n.func, "id", "") in ("sorted", "reversed"):
            ctx.violate("R1", f"convert_to_segmented re-orders shells with {n.func.id}()", cs, n)

    # ------------------------------------------------------------------ R2
    ctx.rule("R2", "prepare and convert agree on which shells need splitting", "prepare declares a basis fine that convert would split (written with generalized contractions), or converts needlessly")
    prep_pred = None
    for n in ps.own_nodes():
        if isinstance(n, ast.Call) and getattr(n.func, "id", "") == "all" and n.args and isinstance(n.args[0], ast.GeneratorExp):
            g = n.args[0]
            if len(g.generators) == 1 and isinstance(g.generators[0].target, ast.Name) and src_of(g.generators[0].iter) == f"{ps.posparams[0]}.obasis.shells" and not g.generators[0].ifs:
                prep_pred = _norm_pred(g.elt, g.generators[0].target.id)
                # the all(...) must guard the identity return
                par = prog.parents(ps).get(id(n))
                if not (isinstance(par, ast.If) and par.test is n and any(isinstance(s, ast.Return) and src_of(s.value) == ps.posparams[0] for s in par.body)):
                    ctx.violate("R2", "the all(...) predicate of prepare_segmented does not guard the identity return", ps, n)
    norm = lambda s: s.replace("(", "").replace(")", "") if s else s
    if keep_pred and prep_pred and norm(keep_pred) == norm(prep_pred):
        ctx.ok("R2", f"both use `{prep_pred}`", f"{ps.module.relpath}:{ps.lineno}")
    else:
        ctx.violate("R2", f"predicates differ: convert_to_segmented keeps a shell when `{keep_pred}`, prepare_segmented sees nothing to do when all `{prep_pred}`", ps, ps.node, construct=f"keep `{keep_pred}` vs prepare `{prep_pred}`")
    # the predicate itself: ncon == 1 or (keep_sp and ncon == 2 and angmoms == [0, 1])
    want_pred = "S.ncon == 1 or keep_sp and S.ncon == 2 and (S.angmoms == [0, 1]).all()"
    if keep_pred and norm(keep_pred) == norm(want_pred):
        ctx.ok("R2", "keep predicate = single contraction, or SP shell when keep_sp", f"{cs.module.relpath}:{cs.lineno}")
    else:
        ctx.violate("R2", f"the keep predicate `{keep_pred}` is not `ncon == 1 or (keep_sp and ncon == 2 and angmoms == [0, 1])`", cs, cs.node, construct=f"keep predicate {keep_pred}")
    # prepare passes keep_sp through
    ccalls = [c for c in ps.calls if cs in c.callees]
    if len(ccalls) == 1:
        b, e, okb = bind_call(ccalls[0].node, cs)
        if src_of(b.get(cs.posparams[0])) == f"{ps.posparams[0]}.obasis" and src_of(b.get("keep_sp")) == "keep_sp":
            ctx.ok("R2", "prepare_segmented converts data.obasis with the same keep_sp", f"{ps.module.relpath}:{ccalls[0].node.lineno}")
        else:
            ctx.violate("R2", "prepare_segmented does not call convert_to_segmented(data.obasis, keep_sp)", ps, ccalls[0].node)
    else:
        ctx.violate("R2", "prepare_segmented does not call convert_to_segmented exactly once", ps, ps.node, construct="convert call")

    # ------------------------------------------------------------------ R3
    ctx.rule("R3", "un-restriction keeps the alpha and beta occupations, coefficients, energies and irreps; idempotent; generalized rejected", "the unrestricted copy has swapped / truncated spin blocks, other occupations, or loses optional arrays")
    _check_unrestriction(ctx, cu, mo_cls)

    # ------------------------------------------------------------------ R4
    ctx.rule("R4", "generalized (two-component) orbitals are rejected before any conversion", "generalized orbitals reach a writer or converter that treats them as spin blocks")
    d = pa.posparams[0]
    tests = {src_of(st.test).replace('"', "'"): st for st in walk_stmts(pa.body) if isinstance(st, ast.If)}
    cfg = cfg_of(pa)
    gen = tests.get(f"{d}.mo.kind == 'generalized'")
    ccall = [c for c in pa.calls if cu in c.callees]
    if gen is not None and isinstance(gen.body[-1], ast.Raise) and ccall:
        stc = ccall[0].node
        pm = prog.parents(pa)
        while not isinstance(stc, ast.stmt):
            stc = pm[id(stc)]
        if cfg.dominates(gen, stc):
            ctx.ok("R4", "prepare_unrestricted_aminusb rejects generalized orbitals before converting", f"{pa.module.relpath}:{gen.lineno}")
        else:
            ctx.violate("R4", "the generalized-orbitals guard does not dominate the conversion", pa, gen)
    else:
        ctx.violate("R4", "prepare_unrestricted_aminusb has no guard rejecting generalized orbitals", pa, pa.node, construct="generalized guard")
    ncallers = 0
    for short in prog.format_modules():
        g = prog.format_op(short, "prepare_dump")
        if g is None:
            continue
        calls = [c for c in g.calls if pa in c.callees]
        if not calls:
            continue
        ncallers += 1
        cfgg = cfg_of(g)
        pmg = prog.parents(g)
        d0 = g.posparams[0]
        guards = [st for st in walk_stmts(g.body) if isinstance(st, ast.If) and src_of(st.test).replace('"', "'") == f"{d0}.mo.kind == 'generalized'" and st.body and isinstance(st.body[-1], ast.Raise) and raises_class(st.body[-1]) == "PrepareDumpError"]
        stc = calls[0].node
        while not isinstance(stc, ast.stmt):
            stc = pmg[id(stc)]
        if guards and cfgg.dominates(guards[0], stc):
            ctx.ok("R4", f"{short}.prepare_dump rejects generalized orbitals (PrepareDumpError) before prepare_unrestricted_aminusb", f"{g.module.relpath}:{guards[0].lineno}")
        else:
            ctx.violate("R4", f"{short}.prepare_dump does not reject generalized orbitals with PrepareDumpError before converting", g, stc)
    ctx.floor("R4", ncallers, 4, "prepare_dump callers of prepare_unrestricted_aminusb")

    # ------------------------------------------------------------------ R5
    ctx.rule("R5", "the un-restriction shortcut returns the same object only when nothing needs converting", "restricted orbitals with an explicit alpha-minus-beta occupation pass through unconverted")
    from .guards import check_aminusb_predicate

    check_aminusb_predicate(ctx, "R5")


def _check_unrestriction(ctx, cu, mo_cls):
    """Evaluate convert_to_unrestricted on abstract restricted orbitals and compare every view of the result."""
    import numpy as np

    from ..accessors import AccessorEval, Raised, Rec
    from ..symarr import NotSymbolic, sym_array
    from .c12_semantics import _eq

    prog = ctx.prog

    def ev():
        e = AccessorEval(prog, mo_cls)
        e.module = cu.module
        return e

    def mk(kind="restricted", occs="sym", aminusb="sym", coeffs=True, energies=True, irreps=True):
        o = sym_array("o", (3,)) if occs == "sym" else (None if occs is None else np.array(occs, dtype=float))
        d = sym_array("d", (3,)) if aminusb == "sym" else None
        n = 3 if kind != "unrestricted" else 6
        return Rec(mo_cls, kind=kind, norba=3, norbb=3, occs=(sym_array("o", (n,)) if kind == "unrestricted" else o), coeffs=sym_array("c", (2, n)) if coeffs else None, energies=sym_array("e", (n,)) if energies else None, irreps=[chr(65 + i) for i in range(n)] if irreps else None, occs_aminusb=d if kind == "restricted" else None)

    where = f"{cu.module.relpath}:{cu.lineno}"
    cases = [("explicit occs_aminusb", dict()), ("missing optional arrays", dict(coeffs=False, energies=False, irreps=False)), ("no occupations", dict(occs=None, aminusb=None))]
    for occs in ([2.0, 1.0, 0.0], [2.0, 2.0, 0.0], [1.8, 0.2, 0.0], [1.0, 1.0, 1.0], [0.9999999, 1.0000001, 0.0], [2.0, 1.0 - 1e-9, 1e-9]):
        cases.append((f"heuristic occupations {occs}", dict(occs=occs, aminusb=None)))
    try:
        for label, kw in cases:
            src = mk(**kw)
            ref = src.clone()
            new = ev().run_free(cu, [src], {})
            if not isinstance(new, Rec):
                ctx.violate("R3", f"{label}: convert_to_unrestricted does not return orbitals", cu, cu.node, construct=f"unrestriction {label}: result")
                continue
            bad = None
            if new.fields.get("kind") != "unrestricted":
                bad = f"kind is {new.fields.get('kind')!r}"
            elif new.fields.get("occs_aminusb") is not None:
                bad = "occs_aminusb is set on unrestricted orbitals"
            else:
                for view in ("occsa", "occsb", "coeffsa", "coeffsb", "energiesa", "energiesb", "irrepsa", "irrepsb", "nelec", "spinpol", "norba", "norbb"):
                    a, b = ev().get(ref, view), ev().get(new, view)
                    if view.startswith("irreps") and a is not None and b is not None:
                        a, b = list(a), list(b)
                    if not _eq(a, b):
                        bad = f"`{view}` of the unrestricted copy is {str(b)[:60]}, the restricted orbitals give {str(a)[:60]}"
                        break
            if bad is None and any(not _eq(src.fields[k], ref.fields[k]) for k in ref.fields if k not in ("kind",)):
                bad = "the restricted orbitals passed in were modified"
            if bad:
                ctx.violate("R3", f"restricted -> unrestricted ({label}): {bad}", cu, cu.node, construct=f"unrestriction {label}: {bad}"[:200])
            else:
                ctx.ok("R3", f"restricted -> unrestricted ({label}): occsa/occsb, coeffsa/b, energiesa/b, irrepsa/b, nelec, spinpol, norba/norbb are unchanged", where)
        u = mk(kind="unrestricted", aminusb=None)
        if ev().run_free(cu, [u], {}) is u:
            ctx.ok("R3", "unrestricted orbitals are returned as the very same object (idempotent)", where)
        else:
            ctx.violate("R3", "convert_to_unrestricted does not return unrestricted orbitals unchanged", cu, cu.node, construct="unrestriction idempotence")
        g = Rec(mo_cls, kind="generalized", norba=None, norbb=None, occs=sym_array("o", (4,)), coeffs=sym_array("c", (4, 4)), energies=None, irreps=None, occs_aminusb=None)
        try:
            ev().run_free(cu, [g], {})
            ctx.violate("R3", "convert_to_unrestricted accepts generalized orbitals", cu, cu.node, construct="unrestriction generalized")
        except Raised as r:
            if r.cls == "ValueError":
                ctx.ok("R3", "generalized orbitals raise ValueError", where)
            else:
                ctx.violate("R3", f"generalized orbitals raise {r.cls}, documented ValueError", cu, cu.node, construct="unrestriction generalized")
    except NotSymbolic as exc:
        raise AnalysisError(f"convert_to_unrestricted is outside the accessor-evaluation whitelist: {exc}") from exc
