"""C14 -- basis segmentation and orbital un-restriction preserve the physics (structural clauses)."""

from __future__ import annotations

import ast

from .. import AnalysisError
from ..astutil import bind_call, raises_class, walk_stmts
from ..cfg import cfg_of
from ..model import src_of
from ..schema import class_schema

PROP = "C14"
LEVEL = "other"
TECHNIQUE = "static analysis: loop-shape and constructor-binding rules on the two conversion routines, normalised-predicate agreement between prepare and convert, dominance of the generalized-orbitals guards"
EXPLANATION = (
    "Static decision of the structural clauses of C14: (R1) convert_to_segmented traverses shells and their "
    "(angmom, kind, coefficient column) triples in order, appends only, each new shell takes the parent's "
    "center and exponents and the matching triple, kept shells are appended as they are, and the result is "
    "attrs.evolve(obasis, shells=...) so conventions and normalisation carry over; (R2) the 'leave as is' "
    "predicate of convert_to_segmented and the 'nothing to do' predicate of prepare_segmented are the same "
    "boolean function of (ncon, keep_sp, angmoms); (R3) convert_to_unrestricted rejects generalized "
    "orbitals with ValueError, returns unrestricted orbitals unchanged and otherwise builds "
    "MolecularOrbitals('unrestricted', norba, norbb, concat(occsa, occsb), concat(coeffs, coeffs, axis=1), "
    "concat(energies, energies), concat(irreps, irreps)) with None propagated field by field, argument "
    "order checked against the class' field order; (R4) generalized orbitals are rejected in "
    "prepare_unrestricted_aminusb and, before it, in every writer's prepare_dump.  Declined: identical "
    "overlap matrix, density and spin density (numerical)."
)
TECHNIQUE += '; identity-shortcut predicate check'
EXPLANATION += ' Added: (R5) prepare_unrestricted_aminusb returns the unconverted object only under the documented nothing-to-do tests.'
TECHNIQUE += '; evaluation of convert_to_unrestricted on abstract restricted orbitals'
EXPLANATION += ' R3 no longer matches the constructor template: convert_to_unrestricted is interpreted on abstract restricted orbitals (explicit occs_aminusb, missing optional arrays, no occupations, six constant occupation patterns) and every alpha/beta view, nelec, spinpol and the orbital counts of the result are compared with those of the input; identity on unrestricted input and ValueError on generalized input are evaluated the same way.'
TECHNIQUE += '; evaluation of convert_to_segmented / prepare_segmented on abstract basis sets'
EXPLANATION += ' R1/R2 no longer match loop templates: convert_to_segmented is interpreted on ten abstract shells (symbolic exponents / coefficients, one contraction with vanishing coefficients) for keep_sp in {False, True} and the output is compared shell by shell (center, angular momentum, kind, exponents, coefficient column, order, idempotence); prepare_segmented is interpreted on 20 shell / keep_sp combinations and must return the same object exactly when convert_to_segmented keeps the shell, else raise PrepareDumpError.'
# --- metadata added for batch 7
TECHNIQUE += '; evaluated guard matrix; typestate clause for copyability'
EXPLANATION += " Added: (R6) the writers' pre-flight applies segmentation / un-restriction exactly where the format needs it (guard matrix evaluated per format and object class, also prepare_*(allow_changes=True) contents); (R7) every conversion is a copy made with attrs.evolve, which exists only if an object in any reachable state can be constructed again from its own fields (typestate clause C11-R5)."
# --- end metadata batch 7
# --- metadata added for batch 8
EXPLANATION += ' R1 / R6 evaluate caches keyed by `id()` with weak references; the guard matrix has a row for shells listed out of atom order.'
# --- end metadata batch 8
# --- metadata added after the round-3 refactoring twins
TECHNIQUE += '; evaluation of the generalized-orbital guard'
EXPLANATION += ' R4: prepare_unrestricted_aminusb is interpreted on four model objects with generalized orbitals; the conversion routine is a recorder that must not be reached before the exception.'
# --- end metadata round-3 twins
TRUSTED = ["CPython ast parser", "attrs.evolve copies all fields not named", "np.concatenate keeps the order of its inputs"]


def _norm_pred(e, shellvar):
    """Predicate text with the shell variable renamed to `S`."""
    class R(ast.NodeTransformer):
        def visit_Name(self, n):
            if n.id == shellvar:
                return ast.copy_location(ast.Name(id="S", ctx=n.ctx), n)
            return n
    import copy

    t = R().visit(copy.deepcopy(e))
    return " ".join(ast.unparse(t).split())


def run(ctx):
    prog = ctx.prog
    ctx.clauses_decided = ["R1 order-preserving split", "R2 keep_sp predicate agreement", "R3 un-restriction template", "R4 generalized orbitals rejected", "R5 identity shortcut of prepare_unrestricted_aminusb"]
    ctx.clauses_declined = ["identical overlap matrix, density, spin density (numerical)"]
    cs = prog.func("iodata.convert.convert_to_segmented")
    cu = prog.func("iodata.convert.convert_to_unrestricted")
    ps = prog.func("iodata.prepare.prepare_segmented")
    pa = prog.func("iodata.prepare.prepare_unrestricted_aminusb")
    shell_cls = prog.cls("iodata.basis.Shell")
    mo_cls, mof, mop = class_schema(prog, "iodata.orbitals.MolecularOrbitals")

    # ------------------------------------------------------------------ R1 / R2
    # decided by evaluating convert_to_segmented and prepare_segmented on abstract basis sets (symbolic exponents and
    # coefficient matrices; ten shells covering single, SP, PS, SS, PP, DF, SPD and SSS contractions): no loop template.
    ctx.rule("R1", "segmentation splits shells in contraction order", "basis functions change order or lose their center/exponents, so every orbital coefficient means something else")
    ctx.rule("R2", "prepare and convert agree on which shells need splitting", "prepare declares a basis fine that convert would split (written with generalized contractions), or converts needlessly")
    from .segpred import check_segmentation

    check_segmentation(ctx, "R1", "R2")
    # prepare passes keep_sp through
    ccalls = [c for c in ps.calls if cs in c.callees]
    if len(ccalls) == 1:
        b, e, okb = bind_call(ccalls[0].node, cs)
        if src_of(b.get(cs.posparams[0])) == f"{ps.posparams[0]}.obasis" and src_of(b.get("keep_sp")) == "keep_sp":
            ctx.ok("R2", "prepare_segmented converts data.obasis with the same keep_sp", f"{ps.module.relpath}:{ccalls[0].node.lineno}")
        else:
            ctx.violate("R2", "prepare_segmented does not call convert_to_segmented(data.obasis, keep_sp)", ps, ccalls[0].node)
    else:
        ctx.violate("R2", "prepare_segmented does not call convert_to_segmented exactly once", ps, ps.node, construct="convert call")

    # ------------------------------------------------------------------ R3
    ctx.rule("R3", "un-restriction keeps the alpha and beta occupations, coefficients, energies and irreps; idempotent; generalized rejected", "the unrestricted copy has swapped / truncated spin blocks, other occupations, or loses optional arrays")
    _check_unrestriction(ctx, cu, mo_cls)

    # ------------------------------------------------------------------ R4
    ctx.rule("R4", "generalized (two-component) orbitals are rejected before any conversion", "generalized orbitals reach a writer or converter that treats them as spin blocks")
    # decided by evaluation: model objects with generalized orbitals (with and without occs_aminusb, conversion allowed
    # or not); convert_to_unrestricted is replaced by a recorder: the call must end in an exception before it is reached
    import numpy as np

    from ..accessors import AccessorEval, Raised, Rec
    from ..symarr import NotSymbolic

    iocls = prog.cls("iodata.iodata.IOData")
    bad = None
    for has_amb in (False, True):
        for allow in (False, True):
            reached = []
            f0 = {n_: None for n_ in mo_cls.fields}
            f0.update(kind="generalized", norba=None, norbb=None, occs=np.array([1.0, 0.0]), coeffs=np.zeros((4, 2)), occs_aminusb=np.array([1.0, 0.0]) if has_amb else None)
            d0 = {n_: None for n_ in iocls.fields}
            d0.update(mo=Rec(mo_cls, **f0))
            ev = AccessorEval(prog, iocls, limit=4000)
            ev.module = pa.module
            ev.stubs = {cu.qualname: lambda a_, k_, reached=reached: reached.append(1) or a_[0]}
            ev.ext_stubs = {"warnings.warn": lambda a_, k_: None}
            label = f"generalized orbitals {'with' if has_amb else 'without'} occs_aminusb, allow_changes={allow}"
            try:
                ev.run_free(pa, [Rec(iocls, **d0), allow, "FILE", "FMT"], {})
                bad = bad or f"{label}: accepted" + (" and converted as if they were spin blocks" if reached else "")
            except Raised as exc:
                if reached:
                    bad = bad or f"{label}: the conversion is reached before {exc.args[0]} is raised"
            except NotSymbolic as exc:
                raise AnalysisError(f"prepare_unrestricted_aminusb is outside the evaluation whitelist: {exc}") from exc
    if bad:
        ctx.violate("R4", f"prepare_unrestricted_aminusb has no guard rejecting generalized orbitals ({bad})", pa, pa.node, construct="generalized guard")
    else:
        ctx.ok("R4", "prepare_unrestricted_aminusb rejects generalized orbitals before converting (4 model objects evaluated)", f"{pa.module.relpath}:{pa.lineno}")
    ncallers = 0
    for short in prog.format_modules():
        g = prog.format_op(short, "prepare_dump")
        if g is None:
            continue
        calls = [c for c in g.calls if pa in c.callees]
        if not calls:
            continue
        ncallers += 1
        cfgg = cfg_of(g)
        pmg = prog.parents(g)
        d0 = g.posparams[0]
        guards = [st for st in walk_stmts(g.body) if isinstance(st, ast.If) and src_of(st.test).replace('"', "'") == f"{d0}.mo.kind == 'generalized'" and st.body and isinstance(st.body[-1], ast.Raise) and raises_class(st.body[-1]) == "PrepareDumpError"]
        stc = calls[0].node
        while not isinstance(stc, ast.stmt):
            stc = pmg[id(stc)]
        if guards and cfgg.dominates(guards[0], stc):
            ctx.ok("R4", f"{short}.prepare_dump rejects generalized orbitals (PrepareDumpError) before prepare_unrestricted_aminusb", f"{g.module.relpath}:{guards[0].lineno}")
        else:
            ctx.violate("R4", f"{short}.prepare_dump does not reject generalized orbitals with PrepareDumpError before converting", g, stc)
    ctx.floor("R4", ncallers, 4, "prepare_dump callers of prepare_unrestricted_aminusb")

    # ------------------------------------------------------------------ R5
    ctx.rule("R5", "the un-restriction shortcut returns the same object only when nothing needs converting", "restricted orbitals with an explicit alpha-minus-beta occupation pass through unconverted")
    from .guards import check_aminusb_predicate

    check_aminusb_predicate(ctx, "R5")
    ctx.rule("R6", "the writers' pre-flight applies segmentation / un-restriction exactly where the format needs it (evaluated guard matrix)", "a basis with general contractions or orbitals with alpha-minus-beta occupations reach a writer unconverted on some combination of attributes (e.g. when there are no orbitals)")
    from .guards_semantics import check_guard_semantics

    check_guard_semantics(ctx, "R6")
    # every conversion returns a copy made with attrs.evolve: it exists only if an object in any reachable state
    # (stored charge / electron count / spin with or without orbitals) can be constructed again from its own fields
    ctx.borrow("c11", {"R5": "R7"})


def _check_unrestriction(ctx, cu, mo_cls):
    """Evaluate convert_to_unrestricted on abstract restricted orbitals and compare every view of the result."""
    import numpy as np

    from ..accessors import AccessorEval, Raised, Rec
    from ..symarr import NotSymbolic, sym_array
    from .c12_semantics import _eq

    prog = ctx.prog

    def ev():
        e = AccessorEval(prog, mo_cls)
        e.module = cu.module
        return e

    def mk(kind="restricted", occs="sym", aminusb="sym", coeffs=True, energies=True, irreps=True):
        o = sym_array("o", (3,)) if occs == "sym" else (None if occs is None else np.array(occs, dtype=float))
        d = sym_array("d", (3,)) if aminusb == "sym" else (np.array(aminusb, dtype=float) if isinstance(aminusb, (list, tuple)) else None)
        n = 3 if kind != "unrestricted" else 6
        return Rec(mo_cls, kind=kind, norba=3, norbb=3, occs=(sym_array("o", (n,)) if kind == "unrestricted" else o), coeffs=sym_array("c", (2, n)) if coeffs else None, energies=sym_array("e", (n,)) if energies else None, irreps=[chr(65 + i) for i in range(n)] if irreps else None, occs_aminusb=d if kind == "restricted" else None)

    where = f"{cu.module.relpath}:{cu.lineno}"
    cases = [("explicit occs_aminusb", dict()), ("no occupations", dict(occs=None, aminusb=None))]
    import itertools as _it

    for hc, he, hi in _it.product((True, False), repeat=3):
        if not (hc and he and hi):
            cases.append((f"optional arrays present: coeffs={hc}, energies={he}, irreps={hi}", dict(coeffs=hc, energies=he, irreps=hi)))
            cases.append((f"no occupations; coeffs={hc}, energies={he}, irreps={hi}", dict(occs=None, aminusb=None, coeffs=hc, energies=he, irreps=hi)))
    for occs in ([2.0, 1.0, 0.0], [2.0, 2.0, 0.0], [1.8, 0.2, 0.0], [1.0, 1.0, 1.0], [0.9999999, 1.0000001, 0.0], [2.0, 1.0 - 1e-9, 1e-9], [2.0, 1.0 + 1e-11, 1.0 - 1e-11], [2.0, 1.0 - 1e-5, 1e-5]):
        cases.append((f"heuristic occupations {occs}", dict(occs=occs, aminusb=None)))
    cases.append(("explicit occs_aminusb, beta majority [1,1,0] / [-1,-1,0]", dict(occs=[1.0, 1.0, 0.0], aminusb=[-1.0, -1.0, 0.0])))
    cases.append(("explicit occs_aminusb, alpha majority [2,1,0] / [0,1,0]", dict(occs=[2.0, 1.0, 0.0], aminusb=[0.0, 1.0, 0.0])))
    try:
        for label, kw in cases:
            src = mk(**kw)
            ref = src.clone()
            try:
                new = ev().run_free(cu, [src], {})
            except Raised as exc:
                ctx.violate("R3", f"restricted -> unrestricted ({label}): convert_to_unrestricted raises {exc.cls}", cu, cu.node, construct=f"unrestriction {label}: raises {exc.cls}")
                continue
            except NotSymbolic as exc:
                if kw.get("aminusb", "sym") == "sym" and kw.get("occs", "sym") == "sym":
                    # a decision on symbolic occupations (e.g. an ordering): the constant patterns decide instead
                    ctx.note(f"convert_to_unrestricted ({label}): not decidable on symbols ({exc}); decided on the constant occupation patterns")
                    continue
                raise
            if not isinstance(new, Rec):
                ctx.violate("R3", f"{label}: convert_to_unrestricted does not return orbitals", cu, cu.node, construct=f"unrestriction {label}: result")
                continue
            bad = None
            if new.fields.get("kind") != "unrestricted":
                bad = f"kind is {new.fields.get('kind')!r}"
            elif new.fields.get("occs_aminusb") is not None:
                bad = "occs_aminusb is set on unrestricted orbitals"
            else:
                for view in ("occsa", "occsb", "coeffsa", "coeffsb", "energiesa", "energiesb", "irrepsa", "irrepsb", "nelec", "spinpol", "norba", "norbb"):
                    try:
                        a, b = ev().get(ref, view), ev().get(new, view)
                    except NotSymbolic as exc:
                        if kw.get("aminusb", "sym") == "sym" and kw.get("occs", "sym") == "sym":
                            # a value-dependent accessor on symbolic occupations: the constant patterns decide this view
                            ctx.note(f"convert_to_unrestricted ({label}): `{view}` not decidable on symbols ({exc}); decided on the constant occupation patterns")
                            continue
                        raise
                    if view.startswith("irreps") and a is not None and b is not None:
                        a, b = list(a), list(b)
                    if not _eq(a, b):
                        bad = f"`{view}` of the unrestricted copy is {str(b)[:60]}, the restricted orbitals give {str(a)[:60]}"
                        break
            if bad is None and any(not _eq(src.fields[k], ref.fields[k]) for k in ref.fields if k not in ("kind",)):
                bad = "the restricted orbitals passed in were modified"
            if bad:
                ctx.violate("R3", f"restricted -> unrestricted ({label}): {bad}", cu, cu.node, construct=f"unrestriction {label}: {bad}"[:200])
            else:
                ctx.ok("R3", f"restricted -> unrestricted ({label}): occsa/occsb, coeffsa/b, energiesa/b, irrepsa/b, nelec, spinpol, norba/norbb are unchanged", where)
        u = mk(kind="unrestricted", aminusb=None)
        if ev().run_free(cu, [u], {}) is u:
            ctx.ok("R3", "unrestricted orbitals are returned as the very same object (idempotent)", where)
        else:
            ctx.violate("R3", "convert_to_unrestricted does not return unrestricted orbitals unchanged", cu, cu.node, construct="unrestriction idempotence")
        g = Rec(mo_cls, kind="generalized", norba=None, norbb=None, occs=sym_array("o", (4,)), coeffs=sym_array("c", (4, 4)), energies=None, irreps=None, occs_aminusb=None)
        try:
            ev().run_free(cu, [g], {})
            ctx.violate("R3", "convert_to_unrestricted accepts generalized orbitals", cu, cu.node, construct="unrestriction generalized")
        except Raised as r:
            if r.cls == "ValueError":
                ctx.ok("R3", "generalized orbitals raise ValueError", where)
            else:
                ctx.violate("R3", f"generalized orbitals raise {r.cls}, documented ValueError", cu, cu.node, construct="unrestriction generalized")
    except NotSymbolic as exc:
        raise AnalysisError(f"convert_to_unrestricted is outside the accessor-evaluation whitelist: {exc}") from exc
