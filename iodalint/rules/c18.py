"""C18 -- the command-line converter does exactly what the API does (structural)."""

from __future__ import annotations

import ast
import os

from .. import AnalysisError
from ..astutil import attr_chain, bind_call, deref, raises_class
from ..model import src_of

PROP = "C18"
LEVEL = "other"
EXPLANATION = (
    "Static decision of the structural clauses of C18: (R1) iodata.__main__.convert is a thin wrapper "
    "-- its only calls are dump_many(load_many(..)) under `many` and dump_one(load_one(..)) otherwise, "
    "resolved to iodata.api, every convert parameter bound (by signature, positional or keyword) to the "
    "API parameter of the same role and nothing else passed (other calls are tolerated only when they see none "
    "of convert's data and do not touch the file system); (R2) every argparse destination reaches the "
    "convert parameter of the same role, flags are store_true/False; (R3) exit-status analysis: every exception "
    "handler in main/convert/parse_args ends by re-raising or with a failure status, no contextlib.suppress, no "
    "file access of their own, and a status returned by main() reaches sys.exit on both entry paths (console "
    "script and `python -m iodata`), so an API exception ends the process non-zero; "
    "(R4) the console script points at iodata.__main__:main; (R5) the required lists of all writers are truthful "
    "(nullness analysis shared with C08-R4), so a conversion that must fail fails before the output is opened.  "
    "Decides the wrapper's structure, not the "
    "byte-for-byte equality observed through a subprocess (declined: run-time observation)."
)
TECHNIQUE = "static analysis: call-binding rules on the CLI wrapper, argparse destination binding, exit-status analysis of handlers and entry paths, nullness abstract interpretation of the writers' required lists"
EXPLANATION += ' R5 also includes the segmentation pre-flight agreement (shared with C14-R2).'
TRUSTED = [
    "CPython ast parser",
    "argparse destination naming rule (first long option, '-' -> '_')",
    "an uncaught exception ends a Python process with non-zero status",
]

API_ROLE = {
    # api function -> {api param: role}
    "load_one": {"filename": "infn", "fmt": "infmt"},
    "load_many": {"filename": "infn", "fmt": "infmt"},
    "dump_one": {"data": "<load>", "filename": "outfn", "fmt": "outfmt", "allow_changes": "allow_changes"},
    "dump_many": {"iter_data": "<load>", "filename": "outfn", "fmt": "outfmt", "allow_changes": "allow_changes"},
}
EXPLANATION += " (R5) the CLI passes allow_changes and the API's pre-flight decides; required lists are truthful and segmentation agrees with the API (evaluated); (R6) library handlers that name arithmetic exceptions raise on every path (only the CLI traps floating-point errors); (R7) no set iteration order reaches a written file."
TECHNIQUE += '; set-iteration-order dataflow rule; all-paths-raise on arithmetic handlers'
# --- metadata added for batch 7
TECHNIQUE += '; argparse table comparison; guard matrix borrowed for the pre-flight clause'
EXPLANATION += " Added: (R8) the converter's argument table is the documented one (options, positionals, defaults, actions) and the parsed values reach convert() as parsed, the loaded object is not edited before it is written; (R9) what a writer cannot store is refused by its prepare_dump -- before the API opens (truncates) the output file -- not by its dump_one (guard matrix C08-R5)."
# --- end metadata batch 7
# --- metadata added for batch 8
EXPLANATION += ' Added: (R10) the same ordering clause for the converter (C08-R1).'
# --- end metadata batch 8
# --- metadata added after the round-2 refactoring twins
TECHNIQUE += '; evaluation of parse_args on a recording model of argparse.ArgumentParser'
EXPLANATION += ' R2 / R8: parse_args() is interpreted with argparse.ArgumentParser replaced by a recorder: the option strings, actions and defaults are the values the calls receive (from literals, a table, a loop), any other parser method called is reported, and the value returned must be what parser.parse_args() gave.'
# --- end metadata round-2 twins


def _polarity_of_many(test, param="many"):
    """+1 if test is `many`/`many is True`..., -1 if `not many`, None otherwise."""
    if isinstance(test, ast.Name) and test.id == param:
        return 1
    if isinstance(test, ast.UnaryOp) and isinstance(test.op, ast.Not):
        p = _polarity_of_many(test.operand, param)
        return -p if p else None
    if isinstance(test, ast.Compare) and len(test.ops) == 1 and isinstance(test.left, ast.Name) and test.left.id == param:
        c = test.comparators[0]
        if isinstance(c, ast.Constant) and isinstance(c.value, bool):
            if isinstance(test.ops[0], (ast.Is, ast.Eq)):
                return 1 if c.value else -1
            if isinstance(test.ops[0], (ast.IsNot, ast.NotEq)):
                return -1 if c.value else 1
    return None


def _evaluate_parse_args(prog, pa):
    """parse_args() interpreted with a recording model of argparse.ArgumentParser: the arguments added (destination ->
    (node, option strings, keywords as values)) and whether the value returned is what the parser's parse_args() gave."""
    from ..accessors import AccessorEval, Raised, Rec
    from ..symarr import NotSymbolic

    added = []
    others = _evaluate_parse_args.others = []
    result = Rec(None, kind="namespace")

    def make_parser(a, k):
        parser = Rec(None)
        parser.fields["add_argument"] = ("<function>", lambda a2, k2: added.append((list(a2), dict(k2))))
        parser.fields["parse_args"] = ("<function>", lambda a2, k2: result if not a2 and not k2 else Rec(None, kind="other arguments"))
        for other in ("set_defaults", "add_mutually_exclusive_group", "add_argument_group", "add_subparsers", "parse_known_args", "parse_intermixed_args"):
            parser.fields[other] = ("<function>", lambda a2, k2, other=other: others.append((other, list(a2), dict(k2))))
        return parser

    ev = AccessorEval(prog, None, limit=4000)
    ev.module = pa.module
    ev.ext_stubs = {"argparse.ArgumentParser": make_parser}
    # texts shown to the user (built from the registry / the installed version): no role in how options are bound
    ev._globals = {(pa.module.name, "DESCRIPTION"): "DESCRIPTION", (pa.module.name, "__version__"): "0.0.0"}
    try:
        got = ev.run_free(pa, [], {})
    except Raised as exc:
        raise AnalysisError(f"parse_args: evaluation raises {exc.args[0]}") from exc
    except NotSymbolic as exc:
        raise AnalysisError(f"parse_args is outside the evaluation whitelist: {exc}") from exc
    dests = {}
    for args, kws in added:
        strs = [a for a in args if isinstance(a, str)]
        if isinstance(kws.get("dest"), str):
            dest = kws["dest"]
        else:
            longs = [s_ for s_ in strs if s_.startswith("--")]
            if longs:
                dest = longs[0][2:].replace("-", "_")
            elif strs and not strs[0].startswith("-"):
                dest = strs[0]
            elif strs:
                dest = strs[0].lstrip("-").replace("-", "_")
            else:
                continue
        # the node for reports: the add_argument call mentioning the option string when it is literal, else the function
        node = next((n for n in pa.own_nodes() if isinstance(n, ast.Call) and isinstance(n.func, ast.Attribute) and n.func.attr == "add_argument" and any(isinstance(x, ast.Constant) and x.value in strs for x in n.args)), pa.node)
        dests[dest] = (node, strs, kws)
    _evaluate_parse_args.order = [(dest, v[1]) for dest, v in dests.items()]
    return dests, got is result


def run(ctx):
    prog = ctx.prog
    conv = prog.func("iodata.__main__.convert")
    main = prog.func("iodata.__main__.main")
    api = {n: prog.func(f"iodata.api.{n}") for n in API_ROLE}
    ctx.clauses_decided = ["R1 thin wrapper", "R2 argparse binding", "R3 no swallowed failure", "R4 console script", "R5 writers required lists are truthful; segmentation pre-flight agreement", "R6 no absorbed arithmetic exceptions"]
    ctx.clauses_declined = [
        "byte-for-byte equality observed through a subprocess",
        "effect of np.seterr trapping on particular inputs (can only turn success into non-zero exit)",
    ]

    # ------------------------------------------------------------------ R1
    ctx.rule("R1", "convert is a thin wrapper over the API", "a swapped/dropped argument converts with the wrong format or flag")
    calls = [cs for cs in conv.calls]
    # every call in convert resolves to one of the four API functions
    api_calls = {}
    for cs in calls:
        tgt = cs.callees[0] if cs.callees else None
        if tgt is None or tgt not in api.values():
            # other calls are harmless for the wrapper clause unless they see convert's data (file names, formats,
            # flags, loaded objects) or touch the file system
            sees = {x.id for x in ast.walk(cs.node) if isinstance(x, ast.Name)} & set(conv.locals)
            fsys = bool(cs.external) and cs.external.split(".")[0] in ("os", "shutil", "pathlib", "tempfile", "io") or cs.external in ("builtins.open",)
            if sees or fsys or cs.callees:
                ctx.violate("R1", "convert() calls something other than the four API functions with its own data" if not fsys else f"convert() touches the file system itself via {cs.external}", conv, cs.node)
            continue
        api_calls.setdefault(tgt.name, []).append(cs)
    # what convert() does with its arguments is decided by evaluation: convert() interpreted with the four API functions
    # replaced by recorders, for many False / True / omitted and both values of allow_changes
    _check_convert_evaluated(ctx, conv, api)
    # ------------------------------------------------------------------ R2
    ctx.rule("R2", "argparse destinations reach convert() by role", "a mis-bound option silently converts with the wrong setting")
    pa = prog.func("iodata.__main__.parse_args")
    dests, parser_result = _evaluate_parse_args(prog, pa)
    role_of_dest = {"input": "infn", "output": "outfn", "many": "many", "infmt": "infmt", "outfmt": "outfmt", "allow_changes": "allow_changes"}
    for d in role_of_dest:
        if d not in dests:
            ctx.violate("R2", f"no argparse argument with destination '{d}'", pa, pa.node, construct=f"dest {d}")
    for d in ("many", "allow_changes"):
        if d in dests:
            n, strs, kws = dests[d]
            if kws.get("action") != "store_true":
                ctx.violate("R2", f"flag '{d}' is not action='store_true'", pa, n)
            elif "default" in kws and kws["default"] is not False:
                ctx.violate("R2", f"flag '{d}' does not default to False", pa, n)
            else:
                ctx.ok("R2", f"flag {d}: store_true, default False", pa.where)
    for d in ("infmt", "outfmt", "input", "output"):
        if d in dests:
            n, strs, kws = dests[d]
            bad = [k for k in ("action", "type", "nargs", "const", "default", "choices") if k in kws and not (k == "default" and kws[k] is None)]
            if bad:
                ctx.violate("R2", f"argument '{d}' has transforming options {bad}", pa, n)
            else:
                ctx.ok("R2", f"argument {d}: plain string", pa.where)
    # parse_args returns parser.parse_args()
    if parser_result is not True:
        ctx.violate("R2", "parse_args() does not return parser.parse_args()", pa, pa.node, construct="parse_args result")
    # main: convert(args.X ...)
    conv_calls = [cs for cs in main.calls if conv in cs.callees]
    if len(conv_calls) != 1:
        ctx.violate("R2", f"main() must call convert exactly once (found {len(conv_calls)})", main, main.node, construct="calls of convert")
    for cs in conv_calls:
        bound, extra, ok = bind_call(cs.node, conv)
        if not ok or extra:
            ctx.violate("R2", "convert() call in main cannot be bound exactly", main, cs.node)
            continue
        for d, role in role_of_dest.items():
            e = bound.get(role)
            if e is None:
                dflt = conv.default_of(role)
                ctx.violate("R2", f"main() does not pass '{role}' to convert (option '{d}' ignored)", main, cs.node)
                continue
            ch = attr_chain(e)
            good = False
            if ch and len(ch) == 2 and ch[1] == d:
                src = deref(main, ast.Name(id=ch[0], ctx=ast.Load()))
                if isinstance(src, ast.Call):
                    r = prog.resolve_expr(main, main.module, src.func)
                    good = bool(r and r[0] == "func" and r[1] is pa)
            if good:
                ctx.ok("R2", f"convert.{role} <- args.{d}", main.where)
            else:
                ctx.violate("R2", f"convert parameter '{role}' receives `{src_of(e)}` instead of args.{d}", main, cs.node)

    # ------------------------------------------------------------------ R3
    ctx.rule("R3", "no swallowed failure in the CLI", "an API exception caught or exit(0) reports success with partial content")
    EXITS = ("sys.exit", "os._exit", "builtins.exit", "builtins.quit")

    def exit_status(f, call):
        """'nonzero' / 'zero' / None (not an exit call) for a call node."""
        r = prog.resolve_expr(f, f.module, call.func)
        nm = r[1] if r and r[0] == "external" else ""
        if nm not in EXITS and nm != "builtins.SystemExit":
            return None
        if not call.args:
            return "zero"
        a = call.args[0]
        if isinstance(a, ast.Constant):
            return "zero" if a.value in (0, None, False) else "nonzero"
        if isinstance(a, ast.Call) and any(g is main for cs in f.calls if cs.node is a for g in cs.callees):
            return "main"
        return "nonzero" if isinstance(a, (ast.JoinedStr,)) else "unknown"

    def ends_failing(f, stmts):
        """Every path through `stmts` ends by re-raising, exiting with a failure status, or (in main) returning one."""
        if not stmts:
            return False
        last = stmts[-1]
        if isinstance(last, ast.Raise):
            return not (isinstance(last.exc, ast.Call) and exit_status(f, last.exc) == "zero")
        if isinstance(last, ast.Expr) and isinstance(last.value, ast.Call):
            return exit_status(f, last.value) == "nonzero"
        if isinstance(last, ast.Return) and f is main:
            return isinstance(last.value, ast.Constant) and last.value.value not in (0, None, False)
        if isinstance(last, ast.If):
            return ends_failing(f, last.body) and ends_failing(f, last.orelse)
        return False

    for f in (main, conv, pa):
        bad = False
        in_handler = set()
        for n in f.own_nodes():
            if isinstance(n, ast.Try):
                for h in n.handlers:
                    for x in h.body:
                        in_handler.update(id(y) for y in ast.walk(x))
                    if not ends_failing(f, h.body):
                        ctx.violate("R3", f"a handler in the CLI path (`except {src_of(h.type) if h.type is not None else ''}`) does not end by re-raising or by a failure exit status: the failure is reported as success", f, h, construct=f"handler in {f.name}")
                        bad = True
                if n.finalbody and any(isinstance(x, (ast.Return, ast.Break, ast.Continue)) for st_ in n.finalbody for x in ast.walk(st_)):
                    ctx.violate("R3", "a finally block in the CLI path leaves with return/break (discards a pending exception)", f, n, construct=f"finally in {f.name}")
                    bad = True
        for n in f.own_nodes():
            if isinstance(n, ast.Call):
                r = prog.resolve_expr(f, f.module, n.func)
                nm = r[1] if r and r[0] == "external" else ""
                if nm in EXITS + ("os.abort",) and exit_status(f, n) in ("zero", "unknown") and id(n) in in_handler:
                    ctx.violate("R3", f"{nm} with a success/unknown status inside a handler of the CLI path", f, n)
                    bad = True
                if nm in ("builtins.open", "os.remove", "os.unlink", "os.rename", "shutil.copy", "shutil.move", "os.replace"):
                    ctx.violate("R3", f"the CLI touches files itself via {nm}", f, n)
                    bad = True
                if nm in ("contextlib.suppress",):
                    ctx.violate("R3", "contextlib.suppress in the CLI path", f, n)
                    bad = True
        if not bad:
            ctx.ok("R3", f"{f.name}: no handler that turns a failure into success, no suppress, no file access", f.where)
    # a status returned by main() must reach the process exit status on every entry path
    returns_status = any(isinstance(n, ast.Return) and n.value is not None and not (isinstance(n.value, ast.Constant) and n.value.value is None) for n in main.own_nodes())
    topm = prog.module("iodata.__main__").toplevel
    pmt = prog.parents(topm)
    guard_calls = [cs for cs in topm.calls if main in cs.callees]
    if not guard_calls:
        ctx.violate("R3", "the `if __name__ == '__main__'` path does not call main()", topm, topm.node if hasattr(topm, "node") else None, construct="module guard")
    for cs in guard_calls:
        par = pmt.get(id(cs.node))
        wrapped = isinstance(par, ast.Call) and exit_status(topm, par) == "main"
        if returns_status and not wrapped:
            ctx.violate("R3", "main() returns an exit status but the `python -m iodata` path calls it without passing the value to sys.exit: a failure reported through the return value exits with status 0", topm, cs.node)
        else:
            ctx.ok("R3", "module guard: main() " + ("status passed to sys.exit" if wrapped else "returns no status; failures propagate as exceptions (exit status 1)"), f"{main.module.relpath}:{cs.node.lineno}")
    # the __main__ guard calls main() and nothing else catches
    top = prog.module("iodata.__main__").toplevel
    for n in top.own_nodes():
        if isinstance(n, ast.Try):
            hs = [h for h in n.handlers]
            # the only permitted module-level try is the version import fallback
            names = {raises_class(ast.Raise(exc=h.type)) if h.type is not None else None for h in hs}
            body_imports = all(isinstance(s, (ast.Import, ast.ImportFrom)) for s in n.body)
            if not (body_imports and names <= {"ImportError", "ModuleNotFoundError"}):
                ctx.violate("R3", "module-level try in __main__ other than an import fallback", top, n, construct="module-level try")

    # ------------------------------------------------------------------ R4
    ctx.rule("R4", "console script entry point", "the installed command runs something else than main()")
    pp = os.path.join(prog.root, "pyproject.toml")
    try:
        import tomllib

        with open(pp, "rb") as fh:
            cfg = tomllib.load(fh)
    except FileNotFoundError as exc:
        raise AnalysisError("pyproject.toml not found") from exc
    scripts = cfg.get("project", {}).get("scripts", {})
    tgt = scripts.get("iodata-convert")
    if tgt == "iodata.__main__:main":
        ctx.ok("R4", f"iodata-convert = {tgt}", "pyproject.toml")
    else:
        ctx.violate("R4", f"console script iodata-convert points at {tgt!r}", relpath="pyproject.toml", function="project.scripts", construct=f"iodata-convert = {tgt!r}")
    ctx.floor("R1", ctx.rules["R1"]["obligations"], 1, "wrapper obligations")
    ctx.floor("R2", ctx.rules["R2"]["obligations"], 10, "argument-binding obligations")

    # ------------------------------------------------------------------ R5
    # a conversion that is going to fail must fail before the output file is opened: that rests on the declared
    # required lists being truthful for every writer the CLI can select (same analysis as C08-R4)
    from .c08_required import check_required_truthfulness

    check_required_truthfulness(ctx, "R5")

    # the segmentation pre-flight agrees with the converter (evaluated on abstract shells; shared with C14-R2)
    from .segpred import check_segmentation

    check_segmentation(ctx, "R5", "R5")

    # ------------------------------------------------------------------ R6
    # main() switches numpy to raising floating-point errors; the library API does not.  Library code that absorbs an
    # arithmetic exception therefore behaves differently under the CLI than under load_one/dump_one on the same file.
    ctx.rule("R6", "library code does not absorb arithmetic exceptions (the CLI traps floating-point errors, the API does not)", "the CLI silently takes another path than the API on the same input and writes different bytes")
    from .c07 import _ends_raising

    seterr = [cs for cs in main.calls if cs.external == "numpy.seterr"]
    FP = {"ArithmeticError", "FloatingPointError", "ZeroDivisionError", "OverflowError"}
    nh = 0
    for f in prog.package_funcs():
        if f.module.name == "iodata.__main__":
            continue
        for n in f.own_nodes():
            if isinstance(n, ast.ExceptHandler) and n.type is not None:
                names = {x.id if isinstance(x, ast.Name) else getattr(x, "attr", "") for x in (n.type.elts if isinstance(n.type, ast.Tuple) else [n.type])}
                if names & FP:
                    nh += 1
                    if _ends_raising(n.body):
                        ctx.ok("R6", f"{f.name}: `except {src_of(n.type)}` re-raises / converts on every path", f"{f.module.relpath}:{n.lineno}")
                    else:
                        ctx.violate("R6", f"`except {src_of(n.type)}` in library code can complete without raising: under iodata-convert (floating-point errors raise) this branch runs, under the API it does not" + ("" if seterr else " [note: main() no longer calls numpy.seterr]"), f, n)
    if seterr:
        ctx.ok("R6", "main() enables floating-point trapping before converting (a numerical fault ends the process non-zero)", f"{main.module.relpath}:{seterr[0].node.lineno}")
    ctx.floor("R6", nh, 1, "handlers naming arithmetic exceptions")

    # ------------------------------------------------------------------ R7
    # every iodata-convert run is a new process: anything that depends on the interpreter's hash seed makes the CLI
    # write other bytes than the API call made in the caller's process
    ctx.rule("R7", "no set iteration order reaches the written file", "the CLI and the API write different bytes for the same input (and the CLI differs from run to run)")
    from .setorder import check_set_order

    check_set_order(ctx, "R7", list(prog.package_funcs()), "package functions")
    ctx.rule("R8", "the converter's argument table is the documented one and the parsed values are used as parsed", "input and output swapped, an option string re-used for another destination, a default set behind the table's back, or the loaded object edited before it is written")
    check_cli_arguments(ctx, "R8")
    # "a pre-flight rejection leaves an existing output file untouched": what a writer cannot store is refused by its
    # prepare_dump (before the API opens the file), not by its dump_one (after the file was truncated) -- the guard
    # matrix C08 decides, evaluated per format and object class
    ctx.borrow("c08", {"R5": "R9", "R1": "R10"})



CLI_OPTIONS = {
    # destination: (option strings, action, default) -- the documented interface
    # `iodata-convert [-h] [-V] [-i INFMT] [-o OUTFMT] [-c] [-m] input output`
    "version": (("-V", "--version"), "version", None),
    "infmt": (("-i", "--infmt"), None, None),
    "outfmt": (("-o", "--outfmt"), None, None),
    "allow_changes": (("-c", "--allow-changes"), "store_true", False),
    "many": (("-m", "--many"), "store_true", False),
}
CLI_POSITIONALS = ["input", "output"]


def check_cli_arguments(ctx, rid):
    """The argument table of the converter is the documented one, and what was parsed is used as parsed.

    `parse_args` may only construct the parser, add arguments and parse; the positional arguments are `input`, then
    `output`; every option has its documented strings, action and default; `main` passes the namespace attributes to
    `convert` under the parameters of the same meaning and never assigns to the namespace."""
    prog = ctx.prog
    pa = prog.func("iodata.__main__.parse_args")
    mainf = prog.func("iodata.__main__.main")
    conv = prog.func("iodata.__main__.convert")
    # the parser as parse_args() builds it, by evaluation with a recording model of argparse.ArgumentParser
    dests, _res = _evaluate_parse_args(prog, pa)
    positionals, options = [], {}
    for dest, (node, names, kw) in dests.items():
        if names and not names[0].startswith("-"):
            positionals.append(names[0])
        else:
            options[dest] = (tuple(names), kw.get("action"), kw.get("default"), node)
    for other, a2, k2 in _evaluate_parse_args.others:
        ctx.violate(rid, f"parse_args calls `parser.{other}(...)`: the parser is changed outside the documented argument table (defaults set elsewhere override what the table says)", pa, pa.node, construct=f"parser.{other}")
    if positionals != CLI_POSITIONALS:
        ctx.violate(rid, f"the positional arguments are {positionals}, documented {CLI_POSITIONALS}: `iodata-convert a b` reads the file it should write", pa, pa.node, construct=f"positionals {positionals}")
    else:
        ctx.ok(rid, "positional arguments: input, then output", pa.where)
    for dest, (names, action, default) in CLI_OPTIONS.items():
        got = options.get(dest)
        if got is None:
            ctx.violate(rid, f"the documented option {'/'.join(names)} is gone", pa, pa.node, construct=f"option {dest} missing")
        elif (tuple(got[0]), got[1], got[2]) != (names, action, default):
            ctx.violate(rid, f"option `{dest}` is declared as {got[0]} action={got[1]!r} default={got[2]!r}; documented {names} action={action!r} default={default!r}", pa, got[3])
        else:
            ctx.ok(rid, f"option {'/'.join(names)} -> {dest}", f"{pa.module.relpath}:{got[3].lineno}", sample=False)
    for dest in sorted(set(options) - set(CLI_OPTIONS)):
        ctx.violate(rid, f"undocumented option {options[dest][0]} (destination `{dest}`)", pa, options[dest][3])
    # main: convert(<namespace attributes>) under the parameters of the same meaning; no stores into the namespace
    want = {"infn": "input", "outfn": "output", "many": "many", "infmt": "infmt", "outfmt": "outfmt", "allow_changes": "allow_changes"}
    calls = [cs for cs in mainf.calls if conv in cs.callees]
    if len(calls) != 1:
        raise AnalysisError(f"__main__.main: expected one call of convert, found {len(calls)}")
    b, _e, okb = bind_call(calls[0].node, conv)
    avar = next((n.targets[0].id for n in mainf.own_nodes() if isinstance(n, ast.Assign) and isinstance(n.value, ast.Call) and any(cs.node is n.value and pa in cs.callees for cs in mainf.calls) and isinstance(n.targets[0], ast.Name)), None)
    bad = [p_ for p_, a_ in want.items() if not (isinstance(b.get(p_), ast.Attribute) and isinstance(b[p_].value, ast.Name) and b[p_].value.id == avar and b[p_].attr == a_)]
    if bad or not okb:
        ctx.violate(rid, f"main() calls `{src_of(calls[0].node)[:100]}`: the parameter(s) {bad} of convert do not receive the namespace attribute of the same meaning", mainf, calls[0].node)
    else:
        ctx.ok(rid, "main(): every parameter of convert receives the parsed argument of the same meaning", f"{mainf.module.relpath}:{calls[0].node.lineno}")
    for n in mainf.own_nodes():
        if isinstance(n, (ast.Assign, ast.AugAssign)):
            for t in (n.targets if isinstance(n, ast.Assign) else [n.target]):
                if isinstance(t, ast.Attribute) and isinstance(t.value, ast.Name) and t.value.id == avar:
                    ctx.violate(rid, f"main() assigns `{src_of(t)}`: the parsed arguments are altered before they are used", mainf, n)
    # convert: what was loaded is what is dumped -- the loaded object is only handed to the dump function
    for n in conv.own_nodes():
        if isinstance(n, ast.Assign) and isinstance(n.value, ast.Call) and isinstance(n.value.func, ast.Name) and n.value.func.id in ("load_one", "load_many") and len(n.targets) == 1 and isinstance(n.targets[0], ast.Name):
            v = n.targets[0].id
            uses = [x for x in conv.own_nodes() if isinstance(x, ast.Name) and x.id == v and isinstance(x.ctx, ast.Load)]
            pmc = prog.parents(conv)
            for u in uses:
                par = pmc.get(id(u))
                if not (isinstance(par, ast.Call) and isinstance(par.func, ast.Name) and par.func.id in ("dump_one", "dump_many") and par.args and par.args[0] is u):
                    ctx.violate(rid, f"convert() uses the loaded object in `{src_of(pmc.get(id(par), par) if isinstance(par, ast.Attribute) else par)[:70]}` before dumping it: the object written is not the object loaded", conv, par if isinstance(par, ast.AST) else n)
    ctx.ok(rid, "convert(): the loaded object is only handed to the dump function", conv.where, sample=False)


def _check_convert_evaluated(ctx, conv, api):
    """convert() interpreted (iodalint.accessors) with load_one / load_many / dump_one / dump_many replaced by recorders:
    exactly one load and one dump of the matching kind are called, the dump receives what the load returned, and every
    argument reaches the API parameter of its role -- however the body is written (if / else, early return, keyword or
    positional calls, intermediate names)."""
    from ..accessors import AccessorEval, Raised, Rec
    from ..symarr import NotSymbolic

    prog = ctx.prog
    cases = [
        ("many omitted", dict(), False),
        ("many=False", dict(many=False), False),
        ("many=True", dict(many=True), True),
    ]
    for label, extra, many in cases:
        for allow in (False, True):
            log = []
            loaded = Rec(None, marker="loaded")

            def rec(name):
                fn = api[name]

                def stub(args, kw, name=name, fn=fn):
                    bound = dict(zip(fn.posparams, args))
                    bound.update(kw)
                    log.append((name, bound))
                    return loaded if name.startswith("load") else (bound.get("data") if name == "dump_one" else None)

                return stub

            ev = AccessorEval(prog, None, limit=2000)
            ev.module = conv.module
            ev.stubs = {api[nm].qualname: rec(nm) for nm in api}
            kwargs = dict(infmt="FI", outfmt="FO", allow_changes=allow)
            kwargs.update(extra)
            try:
                ev.run_free(conv, ["IN", "OUT"], kwargs)
            except Raised as exc:
                ctx.violate("R1", f"convert({label}, allow_changes={allow}) raises {exc.args[0]} before / instead of calling the API", conv, conv.node, construct=f"convert raises: {label}")
                return
            except NotSymbolic as exc:
                raise AnalysisError(f"iodata.__main__.convert is outside the evaluation whitelist: {exc}") from exc
            lname, dname = ("load_many", "dump_many") if many else ("load_one", "dump_one")
            names = [nm for nm, _ in log]
            if names != [lname, dname]:
                ctx.violate("R1", f"convert({label}) calls {names or 'nothing'}; the API calls it stands for are {lname} then {dname}", conv, conv.node, construct=f"convert calls: {label}: {names}")
                return
            lb, db = log[0][1], log[1][1]
            first = "iter_data" if many else "data"
            problems = []
            if lb.get("filename") != "IN" or lb.get("fmt") != "FI":
                problems.append(f"{lname} gets filename={lb.get('filename')!r}, fmt={lb.get('fmt')!r} (input file `IN`, input format `FI`)")
            if set(lb) - {"filename", "fmt"}:
                problems.append(f"{lname} gets extra arguments {sorted(set(lb) - {'filename', 'fmt'})}")
            if db.get(first) is not loaded:
                problems.append(f"{dname} does not get the object(s) {lname} returned")
            if db.get("filename") != "OUT" or db.get("fmt") != "FO":
                problems.append(f"{dname} gets filename={db.get('filename')!r}, fmt={db.get('fmt')!r} (output file `OUT`, output format `FO`)")
            if db.get("allow_changes", False) is not allow:
                problems.append(f"{dname} gets allow_changes={db.get('allow_changes', '<default>')!r}, the caller said {allow}")
            if set(db) - {first, "filename", "fmt", "allow_changes"}:
                problems.append(f"{dname} gets extra arguments {sorted(set(db) - {first, 'filename', 'fmt', 'allow_changes'})}")
            if problems:
                ctx.violate("R1", f"convert({label}, allow_changes={allow}): {problems[0]}", conv, conv.node, construct=f"convert arguments: {problems[0]}"[:150])
                return
    ctx.ok("R1", "convert(): for many omitted / False / True and both values of allow_changes, exactly the matching load and dump are called, the dump gets what the load returned, and file names, formats and the flag reach the API parameters of their roles (evaluated)", conv.where)
