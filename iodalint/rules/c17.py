"""C17 -- format selection is deterministic; declared capabilities are truthful."""

from __future__ import annotations

import ast

from .. import AnalysisError
from ..absint import Interp, State, V
from ..astutil import attr_chain, bind_call, deref, names_in, raises_class, walk_stmts
from ..cfg import cfg_of
from ..consteval import ConstEval, NotConstant
from ..domains.nullness import NullDomain, VV, NV
from ..globs import included, intersects
from ..model import src_of
from ..schema import class_schema, iodata_attr_names

PROP = "C17"
LEVEL = "other"
TECHNIQUE = "static analysis: CFG/dominance rules on the selection routine, exhaustive glob-language algebra over all pattern pairs, constant evaluation of every declared list, nullness abstract interpretation of every loader result against its guaranteed list"
EXPLANATION = (
    "Static decision of the structural clauses of C17: (R1) pattern matching is reachable only without an "
    "explicit format, a candidate must match a pattern of the base name AND support the operation, the "
    "three failure exits raise FileFormatError, the routine touches no file, and selection dominates the "
    "first file-system call in every API function; (R2) the registry is ordered by module name and for "
    "every pair of patterns where one glob language contains the other the more specific module sorts "
    "first (all pattern pairs, exhaustive); (R3) every name in every guaranteed/ifpresent/required/optional "
    "list is an IOData attribute; (R4) every constant key of every loader result is a constructor argument; "
    "(R5) every guaranteed name is present and not maybe-None in the loader result on every path to a "
    "return (interprocedural nullness analysis); (R6) the attribute names attached by the decorators are "
    "those consumed by the API, the docs generators and the CLI help.  Declined: case folding of fnmatch "
    "per platform."
)
TECHNIQUE += '; recognition of precompiled fnmatch.translate patterns'
EXPLANATION += ' R1 recognises patterns precompiled with re.compile(fnmatch.translate(p)) and requires .match/.fullmatch (translate anchors the end only).'
TECHNIQUE += "; finite-domain evaluation of the selection routine against a registry modelled from the modules' PATTERNS"
EXPLANATION += " R1's decision table is evaluated: _select_format_module is interpreted on several hundred (file name, operation, explicit format) combinations built from every registered pattern (plain, inside a directory whose name matches a pattern, with prefix / suffix, upper-cased), with FORMAT_MODULES modelled from the modules' own PATTERNS and entry points; the result must be the documented module or FileFormatError.  The structural part of R1 keeps the effect discipline (no I/O in the selector) and the place of the selection in the API functions."
# --- metadata added for batch 7
TECHNIQUE += '; decorator and registry-builder evaluation on model modules; selection decision table'
EXPLANATION += " Added: (R7) the documenting decorators attach the declared lists unchanged (evaluated; `<function>.guaranteed` in a declaration is resolved to that function's own declaration); (R8) file-name patterns are the frozen documented ones and disjoint per operation (spec/patterns.json); (R9) the registry builders evaluated on a model package listing; (R10) `_select_format_module` / `_select_input_module` as decision tables on a model registry."
# --- end metadata batch 7
# --- metadata added for batch 8
EXPLANATION += ' Added: (R11) no file-system effect in the dump entry points before selection and pre-flight are through (C08-R1): `FileFormatError without touching the file system`.'
# --- end metadata batch 8
# --- metadata added after the round-2 refactoring twins
TECHNIQUE += '; whole evaluation of the documentation decorator factories'
EXPLANATION += ' R7: every public document_* factory is interpreted as a whole (its value is the decorator closure, which is applied to a model function object) with all lists given and with the optional list omitted; the lists attached are read off the object.'
# --- end metadata round-2 twins
# --- metadata added after the round-3 refactoring twins
EXPLANATION += ' R2 looks for the listing call in the registry builder and the helpers it calls (the order is decided by evaluation in R9). R5 sees "not found" checks written as a loop over (value, message) rows.'
# --- end metadata round-3 twins
# --- metadata added after the round-4 refactoring twins
EXPLANATION += ' R5: a loader that dispatches through a literal table of functions (`TABLE[key](...)`) is analysed as the join over the functions of the table.'
# --- end metadata round-4 twins
TRUSTED = ["CPython ast parser", "pkgutil.iter_modules yields modules in sorted name order", "fnmatch glob semantics (* ? [seq])"]

OPS = ("load_one", "load_many", "dump_one", "dump_many")
DOC_DECORATORS = {"document_load_one": "load", "document_load_many": "load", "document_dump_one": "dump", "document_dump_many": "dump", "document_write_input": "write"}
# frozen exception table for R5: (module short, attribute) -> reason
R5_EXCEPTIONS = {
    ("molden", "load_one", "atcoords"): "None only if the [Atoms] section is missing; then the norm check (compute_overlap(obasis, atcoords)) subscripts None and the load fails with LoadError",
    ("molden", "load_one", "atnums"): "None only if the [Atoms] section is missing (assigned together with atcoords); the load then fails in the norm check, see atcoords",
}


def _declared_value(prog, ce, mod, expr, depth=0):
    """Constant value of a declared list; `<function>.guaranteed` (the attribute the documenting decorators store on
    the function they wrap) is resolved to that function's own declaration."""
    try:
        return ce.eval_in_module(mod, expr)
    except NotConstant:
        if depth > 4:
            raise
        if isinstance(expr, ast.BinOp) and isinstance(expr.op, ast.Add):
            left = _declared_value(prog, ce, mod, expr.left, depth + 1)
            right = _declared_value(prog, ce, mod, expr.right, depth + 1)
            return list(left or []) + list(right or [])
        if isinstance(expr, ast.Attribute) and expr.attr in ("guaranteed", "ifpresent", "required", "optional"):
            r = prog.resolve_expr(None, mod, expr.value)
            if r and r[0] == "func":
                other = r[1]
                for d in other.decorators:
                    if not isinstance(d, ast.Call):
                        continue
                    rd = prog.resolve_expr(None, other.module, d.func)
                    if not (rd and rd[0] == "func" and rd[1].name in DOC_DECORATORS
                            and rd[1].module.name == "iodata.docstrings"):
                        continue
                    bound, _extra, _ok = bind_call(d, rd[1])
                    if expr.attr in bound:
                        val = _declared_value(prog, ce, other.module, bound[expr.attr], depth + 1)
                        return list(val) if val is not None else []
                    return []
        raise


def declared_lists(prog, ce):
    """All decorator sites: (module, func, decorator name, {listname: [names]}, call node)."""
    out = []
    for mod in prog.modules.values():
        if not (mod.name.startswith("iodata.formats.") or mod.name.startswith("iodata.inputs.")):
            continue
        for f in mod.funcs:
            if f.parent is not None or f.cls is not None:
                continue
            for d in f.decorators:
                if not isinstance(d, ast.Call):
                    continue
                r = prog.resolve_expr(None, mod, d.func)
                if not (r and r[0] == "func" and r[1].name in DOC_DECORATORS and r[1].module.name == "iodata.docstrings"):
                    continue
                deco = r[1]
                bound, extra, ok = bind_call(d, deco)
                lists = {}
                for pname in ("guaranteed", "ifpresent", "required", "optional"):
                    if pname in bound:
                        try:
                            val = _declared_value(prog, ce, mod, bound[pname])
                        except NotConstant as exc:
                            raise AnalysisError(f"{mod.relpath}:{d.lineno}: declared list `{pname}` is not a constant: {exc}") from exc
                        lists[pname] = list(val) if val is not None else []
                try:
                    fmt = ce.eval_in_module(mod, bound["fmt"]) if "fmt" in bound else None
                except NotConstant:
                    fmt = None
                out.append((mod, f, deco.name, lists, d, fmt))
    return out


def _is_translated_regex(prog, func, recv):
    """True when `recv` is (an element of) a table built from re.compile(fnmatch.translate(...))."""
    seen = set()

    def has_compile(mod, fn, expr):
        for x in ast.walk(expr):
            if isinstance(x, ast.Call):
                r = prog.resolve_expr(fn, mod, x.func)
                if r and r[1] == "re.compile" and any(isinstance(y, ast.Call) and (prog.resolve_expr(fn, mod, y.func) or ("", ""))[1] == "fnmatch.translate" for a in x.args for y in ast.walk(a)):
                    return True
        return False

    def origin(expr, depth=0):
        if depth > 6:
            return False
        if has_compile(func.module, func, expr):
            return True
        for x in ast.walk(expr):
            if isinstance(x, ast.Name) and x.id not in seen:
                seen.add(x.id)
                # comprehension / loop variable in the function
                for n in func.own_nodes():
                    if isinstance(n, (ast.comprehension, ast.For)) and any(isinstance(t, ast.Name) and t.id == x.id for t in ast.walk(n.target)):
                        if origin(n.iter, depth + 1):
                            return True
                    if isinstance(n, ast.Assign) and any(isinstance(t, ast.Name) and t.id == x.id for t in n.targets):
                        if origin(n.value, depth + 1):
                            return True
                # module-level table
                for st in func.module.tree.body:
                    if isinstance(st, (ast.Assign, ast.AnnAssign)):
                        tg = st.targets if isinstance(st, ast.Assign) else [st.target]
                        if any(isinstance(t, ast.Name) and t.id == x.id for t in tg) and st.value is not None and has_compile(func.module, None, st.value):
                            return True
        return False

    return origin(recv)


def run(ctx):
    prog = ctx.prog
    ce = ConstEval(prog)
    ctx.clauses_decided = ["R1 selection structure", "R2 registry determinism and pattern overlaps", "R3 declared names exist", "R4 result keys are constructor arguments", "R5 guaranteed means set", "R6 declared-list protocol", "R7 decorators attach the declared lists unchanged (evaluated)", "R8 patterns frozen and disjoint", "R9 registry builders (evaluated)"]
    ctx.clauses_declined = ["case-folding behaviour of fnmatch per platform"]
    ctor_names, all_names = iodata_attr_names(prog)
    fm = prog.format_modules()

    # ------------------------------------------------------------------ R1
    ctx.rule("R1", "selection is a function of base name and explicit format only", "a wrong module is chosen, or the file system is touched before an unknown format is rejected")
    sel = prog.func("iodata.api._select_format_module")
    cfg = cfg_of(sel)
    pfile, pattr, pfmt = sel.posparams[0], sel.posparams[1], sel.posparams[2]
    # the routine's decision table is evaluated below (check_selection_semantics); only its effect discipline and its
    # place in the API functions are decided structurally here
    allowed_ext = {"os.path.basename", "os.path.normcase", "fnmatch.fnmatch", "fnmatch.fnmatchcase", "builtins.hasattr", "builtins.any", "builtins.all", "builtins.isinstance", "builtins.str", "builtins.len", "builtins.sorted"}
    for selector in (sel, prog.func("iodata.api._select_input_module")):
        bad = [cs for cs in selector.calls if (cs.external and cs.external not in allowed_ext) or (cs.callees and cs.cls is None)]
        bad = [cs for cs in bad if not (cs.cls is not None)]
        if bad:
            for cs in bad:
                ctx.violate("R1", f"the selection routine calls {cs.external or cs.callees[0].qualname} (may touch the file system)", selector, cs.node)
        else:
            ctx.ok("R1", f"{selector.name} performs no I/O (calls only basename/fnmatch/hasattr/dict methods)", selector.where)
    # selection dominates the first file-system call in every API function
    for nm in ("load_one", "load_many", "dump_one", "dump_many", "write_input"):
        f = prog.func(f"iodata.api.{nm}")
        c = cfg_of(f)
        pmf = prog.parents(f)

        def stmt_of(node):
            cur = node
            while not isinstance(cur, ast.stmt):
                cur = pmf[id(cur)]
            return cur

        sels = [cs for cs in f.calls if cs.callees and cs.callees[0].name in ("_select_format_module", "_select_input_module")]
        fs = [cs for cs in f.calls if cs.external == "builtins.open" or (cs.cls is not None and cs.cls.name == "LineIterator")]
        if len(sels) == 1 and fs and all(c.dominates(stmt_of(sels[0].node), stmt_of(x.node)) for x in fs):
            ctx.ok("R1", f"api.{nm}: selection dominates the first file-system access", f.where)
        else:
            ctx.violate("R1", f"api.{nm}: a file is opened on a path that has not passed format selection", f, f.node, construct="selection before file access")
        # the operation name passed to the selector is the function's own operation
        if sels and nm != "write_input":
            b, e, okb = bind_call(sels[0].node, sel)
            a = b.get(pattr)
            if isinstance(a, ast.Constant) and a.value == nm:
                ctx.ok("R1", f"api.{nm} asks the selector for '{nm}'", f.where)
            else:
                ctx.violate("R1", f"api.{nm} asks the selector for `{src_of(a) if a is not None else None}`", f, sels[0].node)
            ff = b.get(pfmt)
            fa = b.get(pfile)
            if not (isinstance(ff, ast.Name) and ff.id == "fmt" and isinstance(fa, ast.Name) and fa.id == "filename"):
                ctx.violate("R1", f"api.{nm} does not pass (filename, fmt) to the selector", f, sels[0].node)

    # ------------------------------------------------------------------ R2
    ctx.rule("R2", "registry order resolves overlapping patterns in favour of the more specific module", "a file name matching two formats is loaded by the wrong one")
    finder = prog.func("iodata.api._find_format_modules")
    # registry construction: iterates iter_modules(...) in order, keeps modules having PATTERNS
    # (through helpers of the API module as well; that the listing order is kept is decided by evaluation in R9)
    builders = [finder] + [h for h in prog.callees_closure([finder]) if h is not finder and h.module is finder.module]
    it_calls = [cs for g_ in builders for cs in g_.calls if cs.external == "pkgutil.iter_modules"]
    srt = [cs for g_ in builders for cs in g_.calls if cs.external in ("builtins.sorted", "builtins.reversed", "random.shuffle")]
    if len(it_calls) == 1 and not [c for c in srt if c.external != "builtins.sorted"]:
        ctx.ok("R2", "registry filled in pkgutil.iter_modules order (sorted module names)", finder.where)
    else:
        ctx.violate("R2", "registry construction no longer iterates pkgutil.iter_modules in order", finder, finder.node, construct="registry construction")
    pats = {}
    for short, m in fm.items():
        try:
            v = ce.global_value(m, "PATTERNS")
        except NotConstant as exc:
            raise AnalysisError(f"{m.relpath}: PATTERNS is not a constant: {exc}") from exc
        if not isinstance(v, (list, tuple)) or not all(isinstance(x, str) for x in v):
            ctx.violate("R2", f"{short}.PATTERNS is not a list of strings", relpath=m.relpath, function=f"{m.name}.PATTERNS", construct=repr(v)[:80])
            continue
        pats[short] = list(v)
    # the selection routine itself, evaluated with the registry modelled from these PATTERNS and the modules' entry points
    if len(pats) == len(fm):
        from .c17_semantics import check_selection_semantics

        check_selection_semantics(ctx, "R1", pats)
    order = list(fm)
    npairs = 0
    for i, a in enumerate(order):
        for b in order[i + 1:]:
            for pa_ in pats.get(a, []):
                for pb in pats.get(b, []):
                    npairs += 1
                    if not intersects(pa_, pb):
                        continue
                    shared = [op for op in OPS if prog.format_op(a, op) and prog.format_op(b, op)]
                    if not shared:
                        continue
                    a_in_b, b_in_a = included(pa_, pb), included(pb, pa_)
                    if b_in_a and not a_in_b:
                        ctx.violate("R2", f"pattern {pb!r} of {b} is contained in {pa_!r} of {a}, but {a} sorts first: {b} can never be selected for {shared}", relpath=fm[b].relpath, function=f"{fm[b].name}.PATTERNS", construct=f"{pb!r} within {pa_!r} of {a}")
                    elif a_in_b and not b_in_a:
                        ctx.ok("R2", f"{pa_!r} ({a}) is more specific than {pb!r} ({b}) and sorts first; winner for {shared}: {a}", fm[a].relpath)
                    else:
                        ctx.ok("R2", f"{pa_!r} ({a}) and {pb!r} ({b}) overlap without inclusion; names matching both resolve to {a} (sorted order) for {shared}", fm[a].relpath, sample=False)
    ctx.extra["pattern_pairs_checked"] = npairs
    ctx.floor("R2", npairs, 350, "pattern pairs")

    # ------------------------------------------------------------------ R3
    ctx.rule("R3", "declared attribute names exist", "the documentation promises (or _check_required tests) an attribute IOData does not have")
    decls = declared_lists(prog, ce)
    nnames = 0
    for mod, f, dname, lists, dnode, fmt in decls:
        for lname, names in lists.items():
            for n in names:
                nnames += 1
                if n in all_names:
                    ctx.ok("R3", f"{mod.short}.{f.name} {lname}: {n}", f"{mod.relpath}:{dnode.lineno}", sample=False, nontrivial=True)
                else:
                    ctx.violate("R3", f"{mod.short}.{f.name} declares `{n}` in its {lname} list, which is not an IOData attribute", f, dnode, construct=f"{lname}: {n}")
    ctx.extra["declared_names_checked"] = nnames
    ctx.floor("R3", len(decls), 45, "decorator sites")
    ctx.floor("R3", nnames, 250, "declared names")

    # ------------------------------------------------------------------ R4 / R5
    ctx.rule("R4", "loader result keys are IOData constructor arguments", "IOData(**result) raises TypeError for an unknown key (or a typo silently drops data)")
    ctx.rule("R5", "guaranteed attributes are set on every successful load", "a loaded object lacks (or has None for) an attribute the format guarantees")
    nload = 0
    for mod, f, dname, lists, dnode, fmt in decls:
        if DOC_DECORATORS[dname] != "load":
            continue
        nload += 1
        dom = NullDomain(prog)
        it = Interp(prog, dom)
        st = State()
        try:
            ret, st2 = it.run_function(f, {f.posparams[0]: V(VV)}, st)
        except AnalysisError as exc:
            raise AnalysisError(f"while analysing {f.qualname}: {exc}") from exc
        res = ret
        if f.is_generator:
            o = it.obj(st2, ret)
            res = o.elem if o is not None else None
        ro = it.obj(st2, res) if res is not None else None
        if ro is None or ro.kind not in ("dict", "unknown"):
            raise AnalysisError(f"{f.qualname}: the loader result is not a dict in the abstract interpretation")
        keys = {k for k in ro.slots if isinstance(k, str)}
        for k in sorted(keys):
            if k in ctor_names:
                ctx.ok("R4", f"{mod.short}.{f.name} result key {k}", f.where, sample=False)
            else:
                ctx.violate("R4", f"{mod.short}.{f.name} returns key `{k}`, which is not an argument of IOData()", f, f.node, construct=f"result key {k}")
        open_dict = ro.elem is not None
        for g in lists.get("guaranteed", []):
            if g not in all_names:
                continue  # R3
            key = (mod.short, f.name, g)
            if g in ro.slots:
                tag = ro.slots[g].tag
                probs = []
                if "A" in tag:
                    probs.append("is not set on every path to a return")
                if "N" in tag:
                    probs.append("may be None")
                if not probs:
                    ctx.ok("R5", f"{mod.short}.{f.name}: guaranteed `{g}` is set and non-None on every path", f.where, sample=(g == "atcoords"))
                elif key in R5_EXCEPTIONS:
                    ctx.ok("R5", f"{mod.short}.{f.name}: `{g}`: frozen exception: {R5_EXCEPTIONS[key]}", f.where)
                else:
                    ctx.violate("R5", f"{mod.short}.{f.name} declares `{g}` as guaranteed, but the result value {' and '.join(probs)}", f, dnode, construct=f"guaranteed {g}: {'/'.join(sorted(tag))}")
            elif open_dict:
                ctx.violate("R5", f"{mod.short}.{f.name} declares `{g}` as guaranteed, but it is only set through a computed key", f, dnode, construct=f"guaranteed {g}: dynamic")
            else:
                ctx.violate("R5", f"{mod.short}.{f.name} declares `{g}` as guaranteed, but never sets it", f, dnode, construct=f"guaranteed {g}: missing")
        # keys set but not declared at all (documentation incomplete): note only
        undeclared = keys - set(lists.get("guaranteed", [])) - set(lists.get("ifpresent", []))
        if undeclared:
            ctx.note(f"{mod.short}.{f.name} sets {sorted(undeclared)} without declaring them (guaranteed/ifpresent)")
    ctx.floor("R5", nload, 30, "loader decorator sites")

    # ------------------------------------------------------------------ R6
    ctx.rule("R6", "the declared-list protocol is consistent between decorators and consumers", "a consumer reads an attribute the decorators never attach")
    dm = prog.module("iodata.docstrings")
    attached = {"load": set(), "dump": set(), "write": set()}
    for f in dm.funcs:
        if f.parent is not None and f.parent.name in ("_document_load", "_document_dump", "_document_write"):
            kind = f.parent.name.split("_")[-1]
            for n in f.own_nodes():
                if isinstance(n, ast.Assign) and isinstance(n.targets[0], ast.Attribute) and isinstance(n.targets[0].value, ast.Name) and n.targets[0].value.id == f.posparams[0]:
                    attached[kind].add(n.targets[0].attr)
            rets = [n for n in f.own_nodes() if isinstance(n, ast.Return)]
            if len(rets) == 1 and isinstance(rets[0].value, ast.Name) and rets[0].value.id == f.posparams[0]:
                ctx.ok("R6", f"{f.parent.name}: the decorator returns the decorated function itself", f"{dm.relpath}:{f.lineno}")
            else:
                ctx.violate("R6", f"{f.parent.name}: the decorator does not return the function it decorates", f, f.node, construct="decorator return")
    need = {"load": {"fmt", "guaranteed", "ifpresent"}, "dump": {"fmt", "required", "optional"}, "write": {"fmt", "required", "optional"}}
    for k, want in need.items():
        miss = want - attached[k]
        if miss:
            ctx.violate("R6", f"document_{k}* decorators no longer attach {sorted(miss)}", relpath=dm.relpath, function=f"iodata.docstrings._document_{k}", construct=f"missing {sorted(miss)}")
        else:
            ctx.ok("R6", f"document_{k}* attach {sorted(attached[k])}", dm.relpath)
    # consumers
    consumers = [("iodata.api._check_required", "dump")]
    for q, kind in consumers:
        f = prog.func(q)
        used = {n.attr for n in f.own_nodes() if isinstance(n, ast.Attribute) and isinstance(n.value, ast.Name) and n.value.id == "dump_func"}
        if used <= attached[kind]:
            ctx.ok("R6", f"{f.name} reads {sorted(used)} (all attached)", f.where)
        else:
            ctx.violate("R6", f"{f.name} reads {sorted(used - attached[kind])}, which the decorators do not attach", f, f.node, construct="consumer attrs")
    for mn in ("docs.gen_formats", "docs.gen_formats_tab", "docs.gen_inputs"):
        m = prog.modules.get(mn)
        if m is None:
            continue
        used = set()
        for n in ast.walk(m.tree):
            if isinstance(n, ast.Attribute) and n.attr in ("guaranteed", "ifpresent", "required", "optional", "fmt", "kwdocs", "notes"):
                used.add(n.attr)
            if isinstance(n, ast.Call) and isinstance(n.func, ast.Name) and n.func.id == "getattr" and len(n.args) >= 2 and isinstance(n.args[1], ast.Constant):
                if n.args[1].value in ("guaranteed", "ifpresent", "required", "optional", "fmt", "kwdocs", "notes"):
                    used.add(n.args[1].value)
        allatt = attached["load"] | attached["dump"] | attached["write"]
        if used <= allatt:
            ctx.ok("R6", f"{mn} reads {sorted(used)} (all attached by the decorators)", m.relpath)
        else:
            ctx.violate("R6", f"{mn} reads {sorted(used - allatt)}, which the decorators do not attach", relpath=m.relpath, function=mn, construct="docs consumer attrs")
    # the CLI help lists, per operation, the formats that have it: the module-level DESCRIPTION evaluated on a model registry
    _check_cli_help(ctx)

    # ------------------------------------------------------------------ R7
    ctx.rule("R7", "the decorators attach the declared lists as written (evaluated)", "the lists that iodata reports for a format differ from the ones its source declares (names wrapped in markup, a default shared between functions, lists swapped)")
    _check_decorator_passthrough(ctx)
    ctx.rule("R8", "file-name patterns are the documented ones; no pattern is shared by two modules with the same operation", "`*.out` added to the Gaussian log patterns: ORCA outputs are loaded as Gaussian logs (or a documented extension is no longer recognised)")
    check_patterns_frozen(ctx, "R8", ce)
    ctx.rule("R9", "the registries are built from every module that carries the marker attribute (evaluated on a model listing)", "a format with an empty pattern list (QCSchema) vanishes from the registry, or modules are registered under another key / order")
    check_registry_builders(ctx, "R9")
    ctx.rule("R10", "format / program selection as a decision table on a model registry (evaluated)", "a module that lacks the requested feature is selected by file name: the caller fails with AttributeError / an unrelated LoadError instead of FileFormatError")
    check_selection_table(ctx, "R10")
    # "... raises FileFormatError without touching the file system; required attributes are enforced before the output
    # file is opened": the ordering clause C08 decides (no file-system effect in the dump entry points before selection
    # and pre-flight are through)
    ctx.borrow("c08", {"R1": "R11"})


DECLARED = {"guaranteed", "ifpresent", "required", "optional"}


def _check_decorator_passthrough(ctx):
    """Each public `document_*` factory, evaluated on marker lists: the attributes attached to the decorated function
    are the lists given (a missing optional list becomes an empty list), under their own names."""
    from ..accessors import AccessorEval, Raised, Rec
    from ..symarr import NotSymbolic

    prog = ctx.prog
    dm = prog.module("iodata.docstrings")
    publics = [f for f in prog.package_funcs() if f.module is dm and f.parent is None and f.name.startswith("document_")]
    n = 0
    for pub in publics:
        lists = [p_ for p_ in pub.posparams if p_ in DECLARED]
        for missing in (False, True):
            given = {}
            for i, p_ in enumerate(lists):
                given[p_] = None if (missing and i > 0) else [f"{p_}_x", f"{p_}_y"]
            ev = AccessorEval(prog, None, limit=4000)
            ev.module = dm
            func = Rec(None)
            deco = pub.node
            inner = pub
            try:
                # the factory as a whole: its value is the decorator (a closure); the decorator applied to a model
                # function object; the declared lists are then read off that object
                kw = {p_: v for p_, v in given.items() if v is not None}
                deco_value = ev.run_free(pub, ["FMT"], kw)
                if not (isinstance(deco_value, tuple) and len(deco_value) == 2 and deco_value[0] == "<function>"):
                    ctx.violate("R7", f"{pub.name} does not return a decorator", pub, pub.node, construct=f"{pub.name}: no decorator")
                    continue
                g_ = getattr(deco_value[1], "func", None) if callable(deco_value[1]) else deco_value[1]
                if g_ is not None:
                    inner, deco = (g_.parent or g_), g_.node
                got_func = deco_value[1]([func], {}) if callable(deco_value[1]) else ev.run_free(deco_value[1], [func], {})
                if got_func is not func:
                    ctx.violate("R7", f"{pub.name}: the decorator does not return the function it decorates", inner, deco, construct=f"{pub.name}: decorator result")
                    continue
            except Raised as exc:
                ctx.violate("R7", f"{pub.name}: attaching the declared lists raises {exc.args[0]}", pub, pub.node, construct=f"{pub.name}: raises")
                continue
            except NotSymbolic as exc:
                raise AnalysisError(f"{pub.qualname}: the decorator is outside the evaluation whitelist: {exc}") from exc
            bad = None
            for p_ in lists:
                want = given[p_] if given[p_] is not None else []
                got = func.fields.get(p_, "<not attached>")
                if not (isinstance(got, (list, tuple)) and list(got) == want):
                    bad = f"`{p_}` declared as {given[p_]!r} is attached as {got!r}"
                    break
            for extra in sorted(set(func.fields) & DECLARED - set(lists)):
                bad = bad or f"an undeclared list `{extra}` is attached"
            n += 1
            label = "optional list omitted" if missing else "all lists given"
            if bad:
                ctx.violate("R7", f"{pub.name} ({label}): {bad}", inner, deco, construct=f"{pub.name}: {bad}"[:160])
            else:
                ctx.ok("R7", f"{pub.name} ({label}): {', '.join(lists)} are attached as declared", f"{dm.relpath}:{deco.lineno}")
    ctx.floor("R7", n, 10, "decorator factory evaluations")


def _hasattr_call(n, attrparam):
    return isinstance(n, ast.Call) and isinstance(n.func, ast.Name) and n.func.id == "hasattr" and len(n.args) == 2 and isinstance(n.args[1], ast.Name) and n.args[1].id == attrparam


def check_patterns_frozen(ctx, rid, ce):
    """The file-name patterns of every format module are the documented ones (spec/patterns.json), and no two
    modules that share an operation claim the same pattern (selection between them would depend on module order)."""
    import json
    import os

    prog = ctx.prog
    with open(os.path.join(os.path.dirname(os.path.dirname(os.path.dirname(os.path.abspath(__file__)))), "spec", "patterns.json")) as fh:
        spec = json.load(fh)["formats"]
    fm = prog.format_modules()
    seen = {}
    for short, m in sorted(fm.items()):
        try:
            pats = ce.global_value(m, "PATTERNS")
        except (NotConstant, KeyError) as exc:
            raise AnalysisError(f"{m.name}.PATTERNS is not a constant: {exc}") from exc
        where = f"{m.relpath}:{m.bindings['PATTERNS'].stmt.lineno}" if "PATTERNS" in m.bindings else m.relpath
        if short not in spec:
            ctx.violate(rid, f"format module `{short}` has no documented patterns in spec/patterns.json (new module: add them)", relpath=m.relpath, function=f"{m.name}.PATTERNS", construct=f"{short}: patterns not in spec")
        elif sorted(pats) != sorted(spec[short]):
            ctx.violate(rid, f"{short}.PATTERNS is {sorted(pats)}, the documented patterns are {sorted(spec[short])}: files are attributed to another format (or to none)", relpath=m.relpath, function=f"{m.name}.PATTERNS", construct=f"{short}.PATTERNS = {sorted(pats)}")
        else:
            ctx.ok(rid, f"{short}: {sorted(pats)}", where, sample=False)
        for p_ in pats:
            for op in OPS:
                if prog.funcs.get(f"{m.name}.{op}") is not None:
                    seen.setdefault((p_.lower(), op), []).append(short)
    for (p_, op), mods in sorted(seen.items()):
        if len(mods) > 1:
            ctx.violate(rid, f"the pattern `{p_}` is claimed by {mods} for {op}: which format reads / writes such a file depends on the order of the modules", relpath=fm[mods[1]].relpath, function=f"{fm[mods[1]].name}.PATTERNS", construct=f"pattern {p_} shared by {mods} for {op}")
    for short in sorted(set(spec) - set(fm)):
        ctx.violate(rid, f"documented format `{short}` has no module any more", relpath="iodata/formats", function="iodata.formats", construct=f"format {short} missing")
    ctx.floor(rid, len(fm), 20, "format modules")


def check_registry_builders(ctx, rid):
    """`_find_format_modules` / `_find_input_modules`, evaluated on a model package listing: every non-package module
    that has the marker attribute is registered under its own name, in listing order -- also one whose PATTERNS list
    is empty (it is still selectable with an explicit `fmt`)."""
    from ..accessors import AccessorEval, Raised, Rec
    from ..symarr import NotSymbolic

    prog = ctx.prog
    for q, pkg, marker in (("iodata.api._find_format_modules", "iodata.formats", "PATTERNS"), ("iodata.api._find_input_modules", "iodata.inputs", "write_input")):
        f = prog.funcs.get(q)
        if f is None:
            raise AnalysisError(f"{q} not found")
        mods = {
            "alpha": Rec(None, **{marker: ["*.a"]}),
            "beta_pkg": Rec(None, **{marker: ["*.b"]}),
            "gamma": Rec(None, other=1),
            "delta": Rec(None, **{marker: []}),
        }
        listing = [Rec(None, name="alpha", ispkg=False), Rec(None, name="beta_pkg", ispkg=True), Rec(None, name="gamma", ispkg=False), Rec(None, name="delta", ispkg=False)]

        def imp(args, kw, pkg=pkg, mods=mods):
            name = args[0]
            if name == pkg:
                return Rec(None, __path__=["PKGPATH"])
            if isinstance(name, str) and name.startswith(pkg + ".") and name[len(pkg) + 1:] in mods:
                return mods[name[len(pkg) + 1:]]
            raise Raised("ModuleNotFoundError")

        def itm(args, kw, listing=listing):
            if not args or args[0] != ["PKGPATH"]:
                raise Raised("TypeError")
            return list(listing)

        ev = AccessorEval(prog, None, limit=2000)
        ev.module = f.module
        ev.ext_stubs = {"importlib.import_module": imp, "pkgutil.iter_modules": itm}
        try:
            res = ev.run_free(f, [], {})
        except Raised as exc:
            ctx.violate(rid, f"{f.name} raises {exc.args[0]} on a model package listing", f, f.node, construct=f"{f.name} raises")
            continue
        except NotSymbolic as exc:
            raise AnalysisError(f"{q} is outside the evaluation whitelist: {exc}") from exc
        want = [("alpha", mods["alpha"]), ("delta", mods["delta"])]
        got = list(res.items()) if isinstance(res, dict) else None
        if got is not None and len(got) == len(want) and all(g[0] == w[0] and g[1] is w[1] for g, w in zip(got, want)):
            ctx.ok(rid, f"{f.name}: modules with `{marker}` (also an empty one) are registered under their own names in listing order; packages and modules without it are skipped", f.where)
        else:
            ctx.violate(rid, f"{f.name} on a model listing [alpha, beta_pkg (package), gamma (no {marker}), delta ({marker} empty)] registers {[g[0] for g in got] if got is not None else res!r}, expected ['alpha', 'delta'] mapped to their modules", f, f.node, construct=f"{f.name}: registers {[g[0] for g in got] if got is not None else None}")


def check_selection_table(ctx, rid, which=("format", "input")):
    """`_select_format_module` / `_select_input_module` as decision tables on a model registry: three format modules
    (two share a pattern, one of them lacks `load_many`; one has no pattern at all) and every way of asking -- by file
    name or by explicit format, for a feature the module has or lacks, for names nobody knows.  The answer is a module
    of the registry that has the feature, or FileFormatError; never a module without it, never another exception."""
    import fnmatch

    from ..accessors import AccessorEval, Raised, Rec
    from ..symarr import NotSymbolic

    prog = ctx.prog
    if "format" in which:
        f = prog.func("iodata.api._select_format_module")
        mods = {
            "alpha": Rec(None, PATTERNS=["*.a", "*.shared"], load_one=1, dump_one=1),
            "beta": Rec(None, PATTERNS=["*.b", "*.shared"], load_one=1, load_many=1),
            "gamma": Rec(None, PATTERNS=[], dump_one=1),
        }
        E = "FileFormatError"
        table = [
            (("x.a", "load_one", None), "alpha"), (("x.a", "dump_one", None), "alpha"),
            (("x.a", "load_many", None), E), (("x.b", "dump_one", None), E),
            (("x.shared", "load_one", None), "alpha"), (("x.shared", "load_many", None), "beta"),
            (("some.b/x.a", "load_one", None), "alpha"), (("/tmp/x.b", "load_many", None), "beta"),
            (("x.unknown", "load_one", None), E), (("a", "load_one", None), E),
            (("x.a", "load_one", "beta"), "beta"), (("x.a", "load_many", "alpha"), E),
            # an explicit format is final: when it lacks the feature, the file name is not consulted as a fallback
            (("x.b", "load_many", "alpha"), E), (("x.shared", "load_many", "alpha"), E), (("x.a", "dump_one", "beta"), E),
            (("x.a", "load_one", "nope"), E), (("x.q", "dump_one", "gamma"), "gamma"), (("x.q", "load_one", "gamma"), E),
        ]
        bad = None
        for args, want in table:
            ev = AccessorEval(prog, None, limit=4000)
            ev.module = f.module
            ev._globals = {("iodata.api", "FORMAT_MODULES"): mods}
            ev.ext_stubs = {"fnmatch.fnmatch": lambda a, k: fnmatch.fnmatchcase(*a)}
            try:
                r = ev.run_free(f, list(args), {})
                got = next((k for k, v in mods.items() if v is r), repr(r))
            except Raised as exc:
                got = exc.args[0]
            except NotSymbolic as exc:
                raise AnalysisError(f"_select_format_module is outside the evaluation whitelist: {exc}") from exc
            if got != want:
                bad = (args, got, want)
                break
        if bad:
            args, got, want = bad
            what = "the feature asked for" if want == E and got in mods else "the documented outcome"
            ctx.violate(rid, f"_select_format_module{args} on a model registry (alpha: *.a *.shared with load_one dump_one; beta: *.b *.shared with load_one load_many; gamma: no pattern, dump_one) gives `{got}`, expected `{want}`" + (f": a module without `{args[1]}` is handed to the caller, which then fails with another exception class" if want == E and got in mods else ""), f, f.node, construct=f"format selection {args}: {got}")
        else:
            ctx.ok(rid, f"_select_format_module: {len(table)} requests on a model registry (by name / by format, feature present / absent, shared pattern, unknown names) give the module that has the feature or FileFormatError", f.where)
    if "input" in which:
        f = prog.func("iodata.api._select_input_module")
        mods = {"prog": Rec(None, write_input=1), "other": Rec(None, write_input=1)}
        bad = None
        table = [(("x.in", "prog"), "prog"), (("x.in", "other"), "other"), (("x.in", "common"), "FileFormatError"), (("prog", "x"), "FileFormatError")]
        for args, want in table:
            ev = AccessorEval(prog, None, limit=2000)
            ev.module = f.module
            ev._globals = {("iodata.api", "INPUT_MODULES"): mods}
            try:
                r = ev.run_free(f, list(args), {})
                got = next((k for k, v in mods.items() if v is r), repr(r))
            except Raised as exc:
                got = exc.args[0]
            except NotSymbolic as exc:
                raise AnalysisError(f"_select_input_module is outside the evaluation whitelist: {exc}") from exc
            if got != want:
                bad = (args, got, want)
                break
        if bad:
            ctx.violate(rid, f"_select_input_module{bad[0]} on a model registry (prog, other) gives `{bad[1]}`, expected `{bad[2]}`", f, f.node, construct=f"input selection {bad[0]}: {bad[1]}")
        else:
            ctx.ok(rid, f"_select_input_module: registered names give their module, any other name FileFormatError ({len(table)} requests)", f.where)


def _check_cli_help(ctx):
    """`iodata.__main__.DESCRIPTION` (built at import time from the registry) evaluated with a model registry: under each
    of the four operations the help names exactly the formats that have that operation."""
    from ..accessors import AccessorEval, Raised, Rec, _Expr
    from ..symarr import NotSymbolic

    prog = ctx.prog
    mm = prog.module("iodata.__main__")
    b = mm.bindings.get("DESCRIPTION")
    if b is None or getattr(b, "value", None) is None:
        raise AnalysisError("iodata.__main__.DESCRIPTION not found")
    mods = {"zeta": Rec(None, load_one=1), "alpha": Rec(None, load_one=1, dump_one=1, load_many=1, dump_many=1), "mid": Rec(None, dump_one=1, load_many=1)}
    ev = AccessorEval(prog, None, limit=4000)
    ev.module = mm
    ev._globals = {("iodata.api", "FORMAT_MODULES"): mods}
    try:
        text = _Expr({}, ev).eval(b.value)
    except Raised as exc:
        ctx.violate("R6", f"the CLI help text raises {exc.args[0]} when built from a model registry", relpath=mm.relpath, function="iodata.__main__.DESCRIPTION", construct="cli help raises")
        return
    except NotSymbolic as exc:
        raise AnalysisError(f"iodata.__main__.DESCRIPTION is outside the evaluation whitelist: {exc}") from exc
    if not isinstance(text, str):
        raise AnalysisError("iodata.__main__.DESCRIPTION does not evaluate to a string")
    lines = [ln.strip() for ln in text.split("\n")]
    bad = None
    for op in OPS:
        if op not in lines:
            bad = f"the help has no entry for `{op}`"
            break
        listed = lines[lines.index(op) + 1].split() if lines.index(op) + 1 < len(lines) else []
        want = sorted(k for k, v in mods.items() if op in v.fields)
        if listed != want:
            bad = f"under `{op}` the help lists {listed}; the registry modules that have it are {want}"
            break
    if bad:
        ctx.violate("R6", f"CLI help (model registry zeta: load_one; alpha: all four; mid: dump_one, load_many): {bad}", relpath=mm.relpath, function="iodata.__main__.DESCRIPTION", construct=f"cli help: {bad}"[:150])
    else:
        ctx.ok("R6", "CLI help: under each of the four operations exactly the formats that have it, sorted (DESCRIPTION evaluated on a model registry)", mm.relpath)
