"""C08 -- dump failures follow the error contract; pre-flight errors spare existing files."""

from __future__ import annotations

import ast

from .. import AnalysisError
from ..astutil import attr_chain, bind_call, raises_class, walk_stmts
from ..cfg import cfg_of
from ..excflow import ExcFlow, _classes_of_handler, report_escapes
from ..littype import propagate_names
from ..model import src_of

PROP = "C08"
LEVEL = "other"
TECHNIQUE = "static analysis: CFG dominance (pre-flight before open), interprocedural may-escape exception flow for the three funnels, def-use of the file argument in dump-side errors, nullness of dereferenced attributes against declared required lists"
EXPLANATION = (
    "Static decision of the structural clauses of C08: (R1) in dump_one/dump_many the node that opens "
    "(truncates) the target is dominated by format selection, the required-attribute check of the (first) "
    "object and the prepare_dump dispatch, in write_input by the input-module selection; (R2) the may-escape "
    "sets of dump_one/dump_many/write_input, computed over all writers, are exactly the contract's "
    "(PrepareDumpError, DumpError, FileFormatError / WriteInputError, plus the OS error of open); the "
    "pre-flight funnel re-raises PrepareDumpError and converts everything else to it, the write funnel "
    "re-raises DumpError; an empty iterable becomes DumpError before open; (R3) later frames are checked "
    "and prepared lazily inside the generator handed to the format's dump_many; (R4) every unguarded "
    "dereference of an optional attribute in a writer is declared in its `required` list (or is implied by "
    "a declared one); (R5) the prepare_dump guard matrix; (R6) every DumpError/PrepareDumpError carries the "
    "file.  Declined: fault injection at the k-th write (OS behaviour); byte-exactness of the untouched file "
    "follows from R1 given POSIX open semantics (assumption)."
)
TECHNIQUE += '; interprocedural must-pass summaries of API pre-flight helpers'
EXPLANATION += ' R1/R3 accept the required-attribute check and the prepare_dump dispatch inside an API helper only if every normal exit of the helper passes through them.'
TECHNIQUE += '; evaluation of the segmentation pre-flight on abstract shells'
EXPLANATION += ' R5 also includes the agreement of prepare_segmented with convert_to_segmented on 20 abstract shell / keep_sp combinations (shared with C14-R2).'
EXPLANATION += ' R5 is the same semantic guard matrix (126 evaluations), replacing the textual classification of guard statements.'
# --- metadata added for batch 7
TECHNIQUE += '; evaluated guard matrix rows for ECP and ghost centres; CFG reachability of PrepareDumpError sources'
EXPLANATION += ' Added: (R7) variants a writer does not implement and a missing selector key are rejected by the pre-flight (evaluated); (R8) the required attributes checked are those of the operation that writes the file, also through helpers, and dump_many requires at least what dump_one requires; (R9) PrepareDumpError is raised only before the output file is opened; R5 has rows for effective core charges and for ghost centres (core charge 0, atomic number kept): Molekel must refuse both because its reader derives the electron count from the atomic numbers.'
# --- end metadata batch 7
# --- metadata added for batch 8
EXPLANATION += ' Added: (R10) the selection decision table (an explicit format is final: no fall-back to the file name), before anything is written. R5 has rows for ghost centres and for shells listed out of atom order.'
# --- end metadata batch 8
# --- metadata added after the round-2 refactoring twins

EXPLANATION += ' R8 follows the operation handed to _check_required through a local.'
# --- end metadata round-2 twins
# --- metadata added after the round-3 refactoring twins
TECHNIQUE += '; evaluation of the writer for every selector value'
EXPLANATION += ' R7: which selector values end in NotImplementedError is found by interpreting the writer (everything it calls replaced by no-ops) for every string constant it contains -- if / elif, a table or a loop. R6 follows files through functions taken from local dispatch tables (may-call resolution).'
# --- end metadata round-3 twins
# --- metadata added for batch 9
EXPLANATION += ' R3 also: one object yielded for every frame (updated in place by the caller) is checked once per frame.'
# --- end metadata batch 9
TRUSTED = [
    "CPython ast parser", "open(name, 'w') is the only truncation point (POSIX)",
    "with-statement closes the file on every exit", "whitelisted total externals do not raise",
]


def run(ctx):
    prog = ctx.prog
    ef = ExcFlow(prog)
    ctx.clauses_decided = ["R1 pre-flight before open", "R2 funnels", "R3 later frames checked lazily", "R4 required-list truthfulness", "R5 guard matrix", "R6 dump-side errors carry the file"]
    ctx.clauses_declined = ["fault injection at the k-th write", "byte-exactness of the untouched file (follows from R1 under POSIX open semantics)"]
    d1 = prog.func("iodata.api.dump_one")
    dm = prog.func("iodata.api.dump_many")
    wi = prog.func("iodata.api.write_input")
    chk = prog.func("iodata.api._check_required")
    sel = prog.func("iodata.api._select_format_module")
    seli = prog.func("iodata.api._select_input_module")

    # ------------------------------------------------------------------ R1
    ctx.rule("R1", "the output file is opened only after the pre-flight checks", "a pre-flight rejection after open() truncates an existing file")
    # a conversion warning that the caller escalated to an error must be raised inside prepare_dump (where it becomes a
    # PrepareDumpError before the file is opened): nothing wrapped around the API functions may change the warning filters
    for f in (d1, dm, wi):
        for g in [f] + [d_ for dd in f.decorators for r_ in [prog.resolve_expr(None, f.module, dd.func if isinstance(dd, ast.Call) else dd)] if r_ and r_[0] == "func" for d_ in [r_[1]] + list(r_[1].nested.values())]:
            for cs in g.calls:
                if cs.external in ("warnings.simplefilter", "warnings.filterwarnings", "warnings.resetwarnings"):
                    ctx.violate("R1", f"{g.name} changes the warning filters ({cs.external}) around {f.name}: a PrepareDumpWarning the caller turned into an error is no longer raised during the pre-flight but re-issued after the file was overwritten", g, cs.node)
    for f, selector in ((d1, sel), (dm, sel), (wi, seli)):
        cfg = cfg_of(f)
        pm = prog.parents(f)
        opens = [cs for cs in f.calls if cs.external == "builtins.open"]
        if len(opens) != 1 or not isinstance(pm.get(id(opens[0].node)), ast.withitem):
            ctx.violate("R1", f"{f.name}: expected exactly one `with open(...)`", f, f.node, construct="with open")
            continue
        ocall = opens[0].node
        mode = ocall.args[1] if len(ocall.args) > 1 else next((k.value for k in ocall.keywords if k.arg == "mode"), None)
        if not (isinstance(mode, ast.Constant) and mode.value == "w"):
            ctx.violate("R1", f"{f.name} opens the output with mode `{src_of(mode) if mode is not None else 'r (default)'}`: the contract is a fresh text file (`w`); appending or reading modes leave old content in place or fail", f, ocall)
        else:
            ctx.ok("R1", f"{f.name}: output opened with mode 'w'", f"{f.module.relpath}:{ocall.lineno}", sample=False)
        wst = pm[id(pm[id(ocall)])]
        onode = cfg.idx(wst)

        def stmt_of(node):
            cur = node
            while not isinstance(cur, ast.stmt):
                cur = pm[id(cur)]
            return cur

        sels = [cs for cs in f.calls if selector in cs.callees]
        if len(sels) == 1 and cfg.dominates(stmt_of(sels[0].node), onode):
            ctx.ok("R1", f"{f.name}: format selection dominates open()", f"{f.module.relpath}:{sels[0].node.lineno}")
        else:
            ctx.violate("R1", f"{f.name}: open() is not dominated by the format selection", f, wst, construct="open before selection")
        if f is wi:
            continue
        helpers = {}
        for cs in f.calls:
            for g in cs.callees:
                if g.module is f.module and g is not chk and cs.registry_op is None and g.parent is None:
                    helpers[id(cs.node)] = (cs, g, _preflight_summary(prog, g, chk))
        checks = [cs for cs in f.calls if chk in cs.callees] + [cs for cs, g, sm in helpers.values() if sm["check"]]
        partial = [g.name for cs, g, sm in helpers.values() if not sm["check"] and any(chk in c2.callees for c2 in g.calls)]
        if checks and any(cfg.dominates(stmt_of(cs.node), onode) for cs in checks):
            ctx.ok("R1", f"{f.name}: required-attribute check dominates open()", f"{f.module.relpath}:{checks[0].node.lineno}")
        else:
            ctx.violate("R1", f"{f.name}: open() is not dominated by the required-attribute check" + (f" (helper {partial[0]} performs it on some paths only)" if partial else ""), f, wst, construct="open before _check_required")
        preps = [cs for cs in f.calls if cs.registry_op == "prepare_dump"]
        okp = False
        for cs, g, sm in helpers.values():
            if sm["prepare"] and cfg.dominates(stmt_of(cs.node), onode):
                okp = True
                ctx.ok("R1", f"{f.name}: prepare_dump dispatch (in helper {g.name}, on all its paths) precedes and dominates open()", f"{f.module.relpath}:{cs.node.lineno}")
        for cs in preps:
            st = stmt_of(cs.node)
            # guarded by hasattr(format_module, "prepare_dump")
            cur, guard = st, None
            while id(cur) in pm:
                par = pm[id(cur)]
                if isinstance(par, ast.If) and _is_hasattr(par.test, "prepare_dump") and any(cur is s for s in par.body):
                    guard = par
                cur = par
            if guard is not None and cfg.dominates(guard, onode) and onode not in cfg.reachable(cfg.idx(st), avoid=set()) - cfg.reachable(onode) | set() and cfg.idx(st) not in cfg.reachable(onode):
                okp = True
                ctx.ok("R1", f"{f.name}: prepare_dump dispatch precedes and dominates open()", f"{f.module.relpath}:{cs.node.lineno}")
        if not okp:
            ctx.violate("R1", f"{f.name}: prepare_dump is not dispatched (under hasattr) before open()", f, wst, construct="open before prepare_dump")
        # the checked object is the one written
        if f is dm:
            nx = [cs for cs in f.calls if cs.external == "builtins.next"]
            if nx and all(cfg.dominates(stmt_of(cs.node), onode) for cs in nx):
                ctx.ok("R1", "dump_many: the first frame is drawn before open()", f"{f.module.relpath}:{nx[0].node.lineno}")
            else:
                ctx.violate("R1", "dump_many: the first frame is not drawn before open()", f, wst, construct="first frame after open")
        # nothing else touches the file system before open
        for cs in f.calls:
            if cs.external in ("os.remove", "os.unlink", "os.rename", "os.replace", "os.truncate", "shutil.move", "shutil.copy", "pathlib.Path.write_text", "os.makedirs"):
                ctx.violate("R1", f"{f.name}: touches the file system via {cs.external}", f, cs.node)

    # ------------------------------------------------------------------ R2
    ctx.rule("R2", "only the contract's exception classes leave dump_one / dump_many / write_input", "another exception type escapes, or a pre-flight error is reported as DumpError after truncation")
    allowed = {
        d1: {"PrepareDumpError", "DumpError", "FileFormatError"},
        dm: {"PrepareDumpError", "DumpError", "FileFormatError"},
        wi: {"FileFormatError", "WriteInputError"},
    }
    nwriters = 0
    for f, ok_cls in allowed.items():
        report_escapes(ctx, "R2", f, ef.escapes(f), ok_cls)
        for cs in f.calls:
            if cs.registry_op in ("dump_one", "dump_many", "write_input"):
                nwriters += len(cs.callees)
    ctx.floor("R2", nwriters, 17, "writer implementations behind the funnels")
    # handler shapes
    for f in (d1, dm):
        tries = [n for n in f.own_nodes() if isinstance(n, ast.Try)]
        pm = prog.parents(f)
        for t in tries:
            inside_with = False
            cur = t
            while id(cur) in pm:
                cur = pm[id(cur)]
                if isinstance(cur, ast.With):
                    inside_with = True
            body_calls = {cs.registry_op for cs in f.calls if cs.registry_op and any(cs.node is n for s in t.body for n in ast.walk(s))}
            has_check = any((chk in cs.callees or any(g.module is f.module and g.parent is None and cs.registry_op is None and (_preflight_summary(prog, g, chk)["check"] or _preflight_summary(prog, g, chk)["prepare"]) for g in cs.callees)) and any(cs.node is n for s in t.body for n in ast.walk(s)) for cs in f.calls)

            def handler_for(cls):
                for h in t.handlers:
                    c = _classes_of_handler(prog, f, h.type)
                    if c is None or cls in c:
                        return h
                return None

            def reraises(h):
                return h is not None and len(h.body) == 1 and isinstance(h.body[0], ast.Raise) and h.body[0].exc is None

            def converts(h, to):
                # every path through the handler ends in a raise (an early `return` would swallow the failure), and the
                # raise at its end is the conversion
                from .c07 import _ends_raising

                return h is not None and isinstance(h.body[-1], ast.Raise) and raises_class(h.body[-1]) == to and _ends_raising(h.body)

            if has_check or "prepare_dump" in body_calls:
                if inside_with:
                    ctx.violate("R2", f"{f.name}: pre-flight funnel is inside `with open`", f, t, construct="pre-flight inside with")
                if reraises(handler_for("PrepareDumpError")) and converts(handler_for("Other"), "PrepareDumpError"):
                    ctx.ok("R2", f"{f.name}: pre-flight funnel: PrepareDumpError re-raised, anything else -> PrepareDumpError", f"{f.module.relpath}:{t.lineno}")
                else:
                    ctx.violate("R2", f"{f.name}: pre-flight funnel does not (re-raise PrepareDumpError, convert the rest to PrepareDumpError)", f, t, construct="pre-flight funnel handlers")
                hd = handler_for("DumpError")
                if hd is not None and not converts(hd, "PrepareDumpError"):
                    ctx.violate("R2", f"{f.name}: a DumpError raised during pre-flight is not reported as PrepareDumpError", f, hd)
            elif body_calls & {"dump_one", "dump_many"}:
                if not inside_with:
                    ctx.violate("R2", f"{f.name}: the write funnel is not inside `with open` (file not closed on error)", f, t, construct="write funnel outside with")
                good = reraises(handler_for("DumpError")) and converts(handler_for("Other"), "DumpError")
                if f is dm:
                    good = good and reraises(handler_for("PrepareDumpError"))
                else:
                    good = good and converts(handler_for("PrepareDumpError"), "DumpError") or (good and reraises(handler_for("PrepareDumpError")) is False and converts(handler_for("PrepareDumpError"), "DumpError"))
                if good:
                    ctx.ok("R2", f"{f.name}: write funnel: DumpError re-raised, anything else -> DumpError" + (" (PrepareDumpError of a later frame re-raised)" if f is dm else ""), f"{f.module.relpath}:{t.lineno}")
                else:
                    ctx.violate("R2", f"{f.name}: write funnel handlers deviate from the contract", f, t, construct="write funnel handlers")
            elif any(cs.external == "builtins.next" and any(cs.node is n for s in t.body for n in ast.walk(s)) for cs in f.calls):
                if converts(handler_for("StopIteration"), "DumpError") and not inside_with:
                    ctx.ok("R2", "dump_many: empty iterable -> DumpError before open()", f"{f.module.relpath}:{t.lineno}")
                else:
                    ctx.violate("R2", "dump_many: an empty iterable is not reported as DumpError before open()", f, t, construct="empty iterable handler")
    twi = [n for n in wi.own_nodes() if isinstance(n, ast.Try)]
    if len(twi) == 1:
        h = twi[0].handlers
        if len(h) == 1 and _classes_of_handler(prog, wi, h[0].type) is None and isinstance(h[0].body[-1], ast.Raise) and raises_class(h[0].body[-1]) == "WriteInputError":
            ctx.ok("R2", "write_input: every rendering failure -> WriteInputError", f"{wi.module.relpath}:{twi[0].lineno}")
        else:
            ctx.violate("R2", "write_input: funnel does not convert every exception to WriteInputError", wi, twi[0], construct="write_input funnel")
    # _check_required raises PrepareDumpError when an attribute is None
    rs = [s for s in walk_stmts(chk.body) if isinstance(s, ast.Raise)]
    if rs and all(raises_class(r) == "PrepareDumpError" for r in rs):
        ctx.ok("R2", "_check_required raises PrepareDumpError", chk.where)
    else:
        ctx.violate("R2", "_check_required does not raise PrepareDumpError", chk, chk.node, construct="_check_required raise")
    # it iterates the declared `required` list and tests `is None`
    loops = [n for n in chk.own_nodes() if isinstance(n, ast.For)]
    okl = False
    for lp in loops:
        ch = attr_chain(lp.iter)
        if ch and ch[-1] == "required" and ch[0] in chk.params:
            for st in walk_stmts(lp.body):
                if isinstance(st, ast.If) and isinstance(st.test, ast.Compare) and isinstance(st.test.ops[0], ast.Is) and isinstance(st.test.comparators[0], ast.Constant) and st.test.comparators[0].value is None:
                    g = st.test.left
                    if isinstance(g, ast.Call) and getattr(g.func, "id", "") == "getattr" and len(g.args) == 2 and isinstance(g.args[1], ast.Name) and g.args[1].id == getattr(lp.target, "id", None):
                        if any(isinstance(s, ast.Raise) for s in st.body):
                            okl = True
    if okl:
        ctx.ok("R2", "_check_required tests every name of dump_func.required for None", chk.where)
    else:
        ctx.violate("R2", "_check_required does not test every declared required attribute for None", chk, chk.node, construct="_check_required loop")

    # ------------------------------------------------------------------ R3
    ctx.rule("R3", "later frames are checked and prepared lazily", "a faulty later frame is written unchecked, or the iterable is consumed eagerly")
    check_dump_many_events(ctx, dm, chk)

    # ------------------------------------------------------------------ R6
    ctx.rule("R6", "DumpError / PrepareDumpError / WriteInputError carry the file", "an error message without the file name")
    seeds = {}
    for f in (d1, dm, wi):
        s = {"filename"} & set(f.params)
        for n in f.own_nodes():
            if isinstance(n, ast.With):
                for it in n.items:
                    if isinstance(it.optional_vars, ast.Name) and isinstance(it.context_expr, ast.Call) and getattr(it.context_expr.func, "id", "") == "open":
                        s.add(it.optional_vars.id)
        seeds[f.qualname] = s
    seeds[chk.qualname] = {"filename"}
    fnames = propagate_names(prog, seeds)
    classes = [prog.cls("iodata.utils.DumpError"), prog.cls("iodata.utils.PrepareDumpError"), prog.cls("iodata.utils.WriteInputError")]
    nsites = 0
    for f in prog.package_funcs():
        mine = set(fnames.get(f.qualname, ()))
        p = f.parent
        while p is not None:
            mine |= fnames.get(p.qualname, set())
            p = p.parent
        for cs in f.calls:
            if cs.cls not in classes:
                continue
            nsites += 1
            call = cs.node
            kw = {k.arg: k.value for k in call.keywords}
            farg = call.args[1] if len(call.args) > 1 else kw.get("file")
            where = f"{f.module.relpath}:{call.lineno}"
            if farg is None:
                ctx.violate("R6", f"{cs.cls.name} constructed without a file argument", f, call)
            elif isinstance(farg, ast.Name) and farg.id in mine:
                ctx.ok("R6", f"{cs.cls.name} carries `{farg.id}` (file / filename passed down from the API)", where, sample=(nsites % 10 == 1))
            elif attr_chain(farg) and attr_chain(farg)[0] in mine and attr_chain(farg)[-1] == "name":
                ctx.ok("R6", f"{cs.cls.name} carries <file>.name", where)
            else:
                ctx.violate("R6", f"{cs.cls.name} file argument `{src_of(farg)}` is not the file or filename passed down from the API", f, call)
    ctx.floor("R6", nsites, 38, "dump-side error construction sites")

    # ------------------------------------------------------------------ R4 / R5 (need E-core; added when present)
    try:
        from .c08_required import check_required_truthfulness
    except ImportError:
        check_required_truthfulness = None
    if check_required_truthfulness is not None:
        check_required_truthfulness(ctx)
    try:
        from .guards import check_guard_matrix
    except ImportError:
        check_guard_matrix = None
    if check_guard_matrix is not None:
        ctx.rule("R5", "prepare_dump guard matrix", "a dropped guard lets an unsupported object through to a writer that mis-writes it or fails after truncation")
        check_guard_matrix(ctx, "R5")
        # the segmentation pre-flight agrees with the converter (evaluated on abstract shells; shared with C14-R2)
        from .segpred import check_segmentation

        check_segmentation(ctx, "R5", "R5")
    from .apiplumb import check_required_operation

    ctx.rule("R8", "the required attributes checked are those of the operation that writes the file", "dump_many checks dump_one's list (or the reverse): an object lacking an attribute the writer needs passes the pre-flight")
    check_required_operation(ctx, "R8")
    from .apiplumb import check_many_required

    check_many_required(ctx, "R8")
    from .apiplumb import check_prepare_error_sources

    ctx.rule("R9", "PrepareDumpError is raised only before the output file is opened", "a writer reports `bad atom_columns` as PrepareDumpError after truncating the file")
    check_prepare_error_sources(ctx, "R9")
    ctx.rule("R7", "variants a writer does not implement are rejected by its pre-flight (evaluated)", "an object the writer can only answer with 'not implemented' gets past the pre-flight: the target file is truncated before the failure")
    check_unimplemented_variants(ctx, "R7")
    ctx.rule("R10", "a format that cannot do what is asked is reported as FileFormatError by the selection step, before anything is written (decision table, evaluated)", "an explicit format without the feature falls back to the file name: the file is silently written in another format")
    from .c17 import check_selection_table

    check_selection_table(ctx, "R10", which=("format",))


def check_unimplemented_variants(ctx, rid):
    """For every `raise NotImplementedError` that a writer reaches by comparing a value taken from the object with a
    constant, the module's prepare_dump -- evaluated on an abstract object carrying that value -- raises PrepareDumpError."""
    from ..accessors import AccessorEval, Raised, Rec
    from ..symarr import NotSymbolic

    prog = ctx.prog
    iocls = prog.cls("iodata.iodata.IOData")
    n = 0
    for short, m in prog.format_modules().items():
        do = prog.funcs.get(f"{m.name}.dump_one")
        pd = prog.funcs.get(f"{m.name}.prepare_dump")
        if do is None:
            continue
        dparam = do.posparams[1]
        raises_ni = [x for x in do.own_nodes() if isinstance(x, ast.Raise) and raises_class(x) == "NotImplementedError"]
        if not raises_ni:
            continue
        # selectors: values the writer takes from the object (`data.extra["key"]`, `data.extra.get("key")`, `data.attr`)
        # and keeps in a local; candidates: the string constants of the writer.  Which (selector, value) pairs end in
        # NotImplementedError is found by evaluating the writer with everything it calls replaced by no-ops -- whether
        # it dispatches with if / elif, a table or a loop.
        selectors = []
        for x in do.own_nodes():
            if not (isinstance(x, ast.Assign) and len(x.targets) == 1 and isinstance(x.targets[0], ast.Name)):
                continue
            src = x.value
            if isinstance(src, ast.Subscript) and isinstance(src.value, ast.Attribute) and isinstance(src.value.value, ast.Name) and src.value.value.id == dparam and isinstance(src.slice, ast.Constant):
                selectors.append((src.value.attr, src.slice.value))
            elif isinstance(src, ast.Call) and isinstance(src.func, ast.Attribute) and src.func.attr == "get" and isinstance(src.func.value, ast.Attribute) and isinstance(src.func.value.value, ast.Name) and src.func.value.value.id == dparam and src.args and isinstance(src.args[0], ast.Constant):
                selectors.append((src.func.value.attr, src.args[0].value))
            elif isinstance(src, ast.Attribute) and isinstance(src.value, ast.Name) and src.value.id == dparam:
                selectors.append((src.attr, None))
        consts = sorted({c.value for c in ast.walk(do.node) if isinstance(c, ast.Constant) and isinstance(c.value, str) and c.value and len(c.value) < 40 and " " not in c.value})
        found = []
        for holder, key in selectors:
            for value in consts:
                fields = {name: None for name in iocls.fields}
                fields["extra"] = {}
                if key is None:
                    fields[holder] = value
                else:
                    fields[holder] = {key: value}
                ev0 = AccessorEval(prog, iocls, limit=4000)
                ev0.module = do.module
                ev0.stubs = {h.qualname: (lambda a_, k_: {}) for h in prog.package_funcs() if h.module is do.module and h is not do and h.parent is None}
                ev0.ext_stubs = {"json.dump": lambda a_, k_: None}
                try:
                    ev0.run_free(do, [Rec(None), Rec(iocls, **fields)], {})
                except Raised as exc:
                    if exc.args[0] == "NotImplementedError":
                        what = f"{dparam}.{holder}[{key!r}] == {value!r}" if key is not None else f"{dparam}.{holder} == {value!r}"
                        found.append((holder, key, value, fields, what))
                except NotSymbolic:
                    continue
        if not found:
            raise AnalysisError(f"{do.qualname}: `raise NotImplementedError` at line {raises_ni[0].lineno}: no value taken from the object was found that leads to it")
        for holder, key, value, fields, what in found:
            r = raises_ni[0]
            n += 1
            if pd is None:
                ctx.violate(rid, f"{short}.dump_one raises NotImplementedError for {what}, and the module has no prepare_dump to reject it before the file is opened", do, r)
                continue
            try:
                AccessorEval(prog, iocls).run_free(pd, [Rec(iocls, **fields), False, "FILE"], {})
                got = None
            except Raised as exc:
                got = exc.args[0]
            except NotSymbolic as exc:
                raise AnalysisError(f"{pd.qualname} is outside the accessor-evaluation whitelist: {exc}") from exc
            # the selector itself missing from the object: the writer cannot even dispatch (documented rejection reason)
            if "[" in what and got == "PrepareDumpError":
                f2 = dict(fields)
                f2[holder] = {}
                try:
                    AccessorEval(prog, iocls).run_free(pd, [Rec(iocls, **f2), False, "FILE"], {})
                    got2 = None
                except Raised as exc:
                    got2 = exc.args[0]
                except NotSymbolic as exc:
                    raise AnalysisError(f"{pd.qualname} is outside the accessor-evaluation whitelist: {exc}") from exc
                key_ = what.split("[")[1].split("]")[0]
                if got2 != "PrepareDumpError":
                    ctx.violate(rid, f"{short}.dump_one selects what to write by {dparam}.{holder}[{key_}], but prepare_dump {'accepts' if got2 is None else 'raises ' + got2 + ' for'} an object without that key: the failure comes after the file was opened", pd, pd.node, construct=f"{short}: missing {holder}[{key_}] not rejected pre-flight")
                else:
                    ctx.ok(rid, f"{short}: an object without {holder}[{key_}] is rejected by prepare_dump with PrepareDumpError", f"{pd.module.relpath}:{pd.lineno}")
            if got == "PrepareDumpError":
                ctx.ok(rid, f"{short}: {what} (not implemented by dump_one) is rejected by prepare_dump with PrepareDumpError", f"{pd.module.relpath}:{pd.lineno}")
            else:
                ctx.violate(rid, f"{short}.dump_one raises NotImplementedError for {what}, but prepare_dump {'accepts the object' if got is None else 'raises ' + got}: the file is opened (truncated) before the failure", pd, pd.node, construct=f"{short}: {what} not rejected pre-flight")
    ctx.floor(rid, n, 1, "not-implemented variants in writers")


def _preflight_summary(prog, h, chk, depth=0):
    """Summary of an API helper: {'check': every normal exit passes a _check_required call,
    'prepare': every normal exit passes the hasattr-guarded prepare_dump dispatch,
    'data_param': the parameter checked/prepared, 'returns_data': returns the prepared or the given object}."""
    from ..cfg import EXIT

    out = {"check": False, "prepare": False, "data_param": None, "returns_data": False}
    if h is None or h is chk or depth > 2 or h.is_generator:
        return out
    cfg = cfg_of(h)
    pm = prog.parents(h)

    def stmt_of(node):
        cur = node
        while not isinstance(cur, ast.stmt):
            cur = pm[id(cur)]
        return cur

    exits = [cfg.idx(n) for n in h.own_nodes() if isinstance(n, ast.Return)] + [a for a, lab in cfg.pred[EXIT] if lab not in ("return", "raise", "exc")]
    if not exits:
        return out
    csites, dparams = set(), set()
    for cs in h.calls:
        if chk in cs.callees:
            csites.add(cfg.idx(stmt_of(cs.node)))
            b, e, okb = bind_call(cs.node, chk)
            a = b.get(chk.posparams[1])
            if isinstance(a, ast.Name):
                dparams.add(a.id)
        else:
            for g in cs.callees:
                if g.module is h.module and g is not h and cs.registry_op is None:
                    sub = _preflight_summary(prog, g, chk, depth + 1)
                    if sub["check"]:
                        csites.add(cfg.idx(stmt_of(cs.node)))
    out["check"] = bool(csites) and cfg.must_pass(exits, csites)
    psites = set()
    for cs in h.calls:
        if cs.registry_op == "prepare_dump":
            cur, guard = cs.node, None
            while id(cur) in pm:
                par = pm[id(cur)]
                if isinstance(par, (ast.If, ast.IfExp)) and _is_hasattr(par.test, "prepare_dump") and (cur is par.body or (isinstance(par, ast.If) and any(cur is x for x in par.body))):
                    guard = par
                cur = par
            if guard is not None:
                psites.add(cfg.idx(stmt_of(guard) if isinstance(guard, ast.IfExp) else guard))
                if cs.node.args and isinstance(cs.node.args[0], ast.Name):
                    dparams.add(cs.node.args[0].id)
    out["prepare"] = bool(psites) and cfg.must_pass(exits, psites)
    if len(dparams) == 1 and next(iter(dparams)) in h.params:
        out["data_param"] = next(iter(dparams))
    rets = [n for n in h.own_nodes() if isinstance(n, ast.Return)]
    out["returns_data"] = bool(rets) and all(r.value is not None for r in rets)
    return out


def _is_hasattr(test, name):
    return (
        isinstance(test, ast.Call) and isinstance(test.func, ast.Name) and test.func.id == "hasattr"
        and len(test.args) == 2 and isinstance(test.args[1], ast.Constant) and test.args[1].value == name
    )


def check_dump_many_events(ctx, dm, chk):
    """R3 in two parts.  *Order and values* by evaluation: api.dump_many interpreted with a model format module (with and
    without `prepare_dump`), `_check_required`, `open` and the format's `dump_many` replaced by recorders, on three
    model frames -- every frame is checked once and (if the format prepares) prepared once, check before prepare, the
    first frame before the file is opened, the format receives the prepared frames in order together with the caller's
    keyword arguments.  (The evaluator runs the generator eagerly, so it shows order per frame, not laziness.)
    *Laziness* by structure: the caller's iterable is only ever advanced (`iter`, `next`, `for`), never materialised,
    and what the format's dump_many receives is a generator."""
    from ..accessors import AccessorEval, Raised, Rec, TextSink
    from ..symarr import NotSymbolic

    prog = ctx.prog
    # a trajectory generator may yield one object again and again, updated in place: every yield is a frame of its own
    same_label = "format without prepare_dump, one object yielded three times"
    for label, has_prepare, allow in (("format with prepare_dump, allow_changes=True", True, True), ("format with prepare_dump, allow_changes=False", True, False), ("format without prepare_dump", False, False), (same_label, False, False)):
        log = []
        frames = [Rec(None, tag=f"f{i}") for i in range(3)]
        if label == same_label:
            frames = [frames[0]] * 3
        prepared = {}

        def prep(a, k, log=log, prepared=prepared):
            bound = dict(zip(("data", "allow_changes", "filename"), a))
            bound.update(k)
            log.append(("prepare", bound["data"].fields["tag"], bound.get("allow_changes"), bound.get("filename")))
            out = Rec(None, tag=bound["data"].fields["tag"] + "'")
            prepared[bound["data"].fields["tag"]] = out
            return out

        def fdm(a, k, log=log):
            log.append(("dump_many", list(a[1]) if len(a) > 1 else None, dict(k), a[0] if a else None))

        fields = {"dump_many": ("<function>", fdm), "dump_one": ("<function>", lambda a, k: None)}
        if has_prepare:
            fields["prepare_dump"] = ("<function>", prep)
        fm = Rec(None, **fields)
        sink = TextSink()
        ev = AccessorEval(prog, None, limit=8000)
        ev.module = dm.module
        ev.eager_generators = True
        ev.stubs = {"iodata.api._select_format_module": lambda a, k: fm, chk.qualname: lambda a, k, log=log: log.append(("check", (a[1] if len(a) > 1 else k.get("data")).fields["tag"]))}
        ev.ext_stubs = {"builtins.open": lambda a, k, log=log: (log.append(("open", a[0], a[1] if len(a) > 1 else k.get("mode", "r"))), sink)[1]}
        try:
            ev.run_free(dm, [list(frames), "OUT"], {"allow_changes": allow, "option": 7})
        except Raised as exc:
            ctx.violate("R3", f"api.dump_many ({label}) raises {exc.args[0]} on three well-formed frames", dm, dm.node, construct=f"dump_many events: raises ({label})")
            return
        except NotSymbolic as exc:
            raise AnalysisError(f"api.dump_many is outside the evaluation whitelist: {exc}") from exc
        names = [e[0] for e in log]
        bad = None
        opens = [i for i, e in enumerate(log) if e[0] == "open"]
        dumps = [e for e in log if e[0] == "dump_many"]
        if len(opens) != 1 or log[opens[0]][1:] != ("OUT", "w"):
            bad = f"the output file is opened {[e[1:] for e in log if e[0] == 'open']} (once, for writing, expected)"
        elif len(dumps) != 1:
            bad = f"the format's dump_many is called {len(dumps)} times"
        else:
            if label == same_label:
                nchk = sum(1 for e in log if e[0] == "check")
                if nchk != 3:
                    bad = f"an object yielded three times (updated in place between the frames) is checked {nchk} time(s): a later state of it reaches the writer unchecked"
            for i, fr in enumerate(frames if label != same_label else []):
                tag = fr.fields["tag"]
                ci = [j for j, e in enumerate(log) if e[0] == "check" and e[1] == tag]
                pi = [j for j, e in enumerate(log) if e[0] == "prepare" and e[1] == tag]
                if len(ci) != 1:
                    bad = f"frame {i} is checked {len(ci)} time(s) for its required attributes"
                elif has_prepare and (len(pi) != 1 or log[pi[0]][2] is not allow or log[pi[0]][3] != "OUT"):
                    bad = f"frame {i} is prepared {len(pi)} time(s)" + (f" with allow_changes={log[pi[0]][2]!r}, filename={log[pi[0]][3]!r} (the caller said {allow}, `OUT`)" if pi else "")
                elif has_prepare and ci[0] > pi[0]:
                    bad = f"frame {i} is prepared before its required attributes are checked"
                elif i == 0 and max(ci + pi) > opens[0]:
                    bad = "the first frame is checked / prepared only after the output file was opened (a frame that cannot be written truncates an existing file)"
                if bad:
                    break
            if not bad:
                got = dumps[0][1]
                want = [prepared[fr.fields["tag"]] for fr in frames] if has_prepare else frames
                if got is None or len(got) != 3 or any(g is not w for g, w in zip(got, want)):
                    bad = f"the format's dump_many receives {[getattr(g, 'fields', {}).get('tag') for g in (got or [])]}, expected {[w.fields['tag'] for w in want]} (each frame" + (" as its prepare_dump returned it" if has_prepare else " as given") + ", in order)"
                elif dumps[0][2] != {"option": 7} or dumps[0][3] is not sink:
                    bad = f"the format's dump_many gets the keyword arguments {dumps[0][2]} / another file object (the caller's `option=7` and the opened file expected)"
        if bad:
            ctx.violate("R3", f"api.dump_many, {label}: {bad} (events: {names})", dm, dm.node, construct=f"dump_many events: {bad}"[:150])
            return
        ctx.ok("R3", f"api.dump_many, {label}: every frame checked once" + (", then prepared once" if has_prepare else "") + "; the first before the file is opened; the format gets the frames in order with the caller's keyword arguments", dm.where)
    # laziness (structural): the caller's iterable is advanced, never materialised
    itname = dm.posparams[0]
    funcs = [dm] + list(dm.nested.values())
    for g in funcs:
        for n in g.own_nodes():
            if isinstance(n, ast.Call) and isinstance(n.func, ast.Name) and n.func.id in ("list", "tuple", "sorted", "len", "reversed", "set", "frozenset", "sum", "max", "min") and any(isinstance(x, ast.Name) and x.id == itname for a in n.args for x in ast.walk(a)):
                ctx.violate("R3", f"api.dump_many materialises the caller's iterable with `{src_of(n)[:50]}`: a generator of frames is consumed as a whole before anything is written (and a failing late frame is found before the first is written)", g, n, construct="dump_many materialises the iterable")
                return
    dmcall = [cs for cs in dm.calls if cs.registry_op == "dump_many"]
    gens = {g.name for g in dm.nested.values() if g.is_generator}
    lazy_arg = False
    for cs in dmcall:
        for a in cs.node.args[1:2]:
            if (isinstance(a, ast.Call) and isinstance(a.func, ast.Name) and a.func.id in gens) or isinstance(a, ast.GeneratorExp):
                lazy_arg = True
    if len(dmcall) == 1 and lazy_arg:
        ctx.ok("R3", "the format's dump_many receives a generator over the caller's iterable (frames are checked and prepared as they are written)", dm.where)
    else:
        ctx.violate("R3", "the format's dump_many does not receive a generator: later frames are checked / prepared all at once, or not through the checking code", dm, dm.node, construct="dump_many lazy argument")
