"""C12: the accessor semantics of MolecularOrbitals, decided by evaluating the accessors on abstract instances."""

from __future__ import annotations

import numpy as np

from .. import AnalysisError
from ..accessors import AccessorEval, Raised, Rec
from ..symarr import NotSymbolic, Sym, _opaque, same, sym_array


def _eq(a, b):
    if a is None or b is None:
        return a is None and b is None
    if isinstance(a, (list, tuple)) and isinstance(b, (list, tuple)):
        return list(a) == list(b)
    aa, bb = np.asarray(a), np.asarray(b)
    if aa.dtype != object and bb.dtype != object:
        return aa.shape == bb.shape and bool(np.allclose(aa.astype(float), bb.astype(float), rtol=0, atol=1e-12))
    return same(a, b)


def _tot(a):
    t = Sym.const(0)
    for x in np.asarray(a, dtype=object).ravel():
        t = t + x
    return t


def _abs(v):
    if isinstance(v, Sym):
        if all(m == () for m in v.terms):
            return Sym.const(abs(v.terms.get((), 0)))
        return _opaque("abs", v)
    return abs(v)


# restricted occupations with an explicit alpha-minus-beta vector: open-shell singlet (integer occupations, zero net
# spin), beta-majority, fractional, and one where the guess and the explicit vector agree
AMB = [
    ([2.0, 1.0, 1.0], [0.0, 1.0, -1.0]),
    ([1.0, 1.0, 0.0], [-1.0, -1.0, 0.0]),
    ([1.5, 0.5, 0.0], [0.5, 0.5, 0.0]),
    ([2.0, 1.0, 0.0], [0.0, 1.0, 0.0]),
    ([2.0, 2.0, 0.0], [0.0, 0.0, 0.0]),
]


def check_orbital_semantics(ctx):
    prog = ctx.prog
    mo = prog.cls("iodata.orbitals.MolecularOrbitals")

    def fresh():
        return AccessorEval(prog, mo)

    def obligation(rid, title, where, fn):
        """fn() -> None when it holds, or a message."""
        try:
            msg = fn()
        except NotSymbolic as exc:
            raise AnalysisError(f"C12 accessor evaluation: {title}: outside the whitelist: {exc}") from exc
        except Raised as r:
            msg = f"raises {r.cls}"
        if msg is None:
            ctx.ok(rid, title, where)
        else:
            g = where_func.get(where)
            ctx.violate(rid, f"{title}: {msg}", g, g.node if g is not None else None, construct=f"{title}: {msg}"[:200])

    where_func = {}

    def W(name, setter=False):
        g = (mo.setters if setter else mo.getters).get(name)
        if g is None:
            raise AnalysisError(f"MolecularOrbitals.{name} {'setter' if setter else 'getter'} not found")
        w = f"{g.module.relpath}:{g.lineno}"
        where_func[w] = g
        return w

    def unres(na=2, nb=1):
        n = na + nb
        return Rec(mo, kind="unrestricted", norba=na, norbb=nb, occs=sym_array("o", (n,)), coeffs=sym_array("c", (2, n)), energies=sym_array("e", (n,)), irreps=[chr(65 + i) for i in range(n)], occs_aminusb=None)

    def res(aminusb=True, occs=None):
        o = sym_array("o", (3,)) if occs is None else np.array(occs, dtype=float)
        d = sym_array("d", (3,)) if aminusb else None
        return Rec(mo, kind="restricted", norba=3, norbb=3, occs=o, coeffs=sym_array("c", (2, 3)), energies=sym_array("e", (3,)), irreps=["A", "B", "C"], occs_aminusb=d)

    def gen():
        return Rec(mo, kind="generalized", norba=None, norbb=None, occs=sym_array("o", (4,)), coeffs=sym_array("c", (4, 4)), energies=sym_array("e", (4,)), irreps=None, occs_aminusb=None)

    # ------------------------------------------------------------------ R2: generalized orbitals
    for name in ("occsa", "occsb", "coeffsa", "coeffsb", "energiesa", "energiesb", "irrepsa", "irrepsb", "spinpol"):
        def f(name=name):
            try:
                v = fresh().get(gen(), name)
            except Raised as r:
                return None if r.cls == "NotImplementedError" else f"raises {r.cls}, expected NotImplementedError"
            return f"returns {str(v)[:60]} for generalized orbitals instead of raising NotImplementedError"
        obligation("R2", f"generalized orbitals: `{name}` refuses spin-resolved access", W(name), f)
    for name in ("occsa", "occsb"):
        def f(name=name):
            try:
                fresh().set(gen(), name, sym_array("x", (2,)))
            except Raised as r:
                return None if r.cls == "NotImplementedError" else f"raises {r.cls}, expected NotImplementedError"
            return "assignment accepted for generalized orbitals"
        obligation("R2", f"generalized orbitals: assigning `{name}` is refused", W(name, True), f)

    # every *other* accessor of the class, present or future: on generalized orbitals it either raises
    # NotImplementedError or is one of the combined quantities (nelec, norb); a new spin-resolved accessor without the
    # guard shows here
    COMBINED = {"nelec", "norb", "nbasis"}
    for name in sorted(set(mo.getters) - COMBINED - {"occsa", "occsb", "coeffsa", "coeffsb", "energiesa", "energiesb", "irrepsa", "irrepsb", "spinpol"}):
        def f(name=name):
            try:
                v = fresh().get(gen(), name)
            except Raised as r_:
                return None if r_.cls == "NotImplementedError" else f"raises {r_.cls}"
            return f"returns {str(v)[:50]} for generalized orbitals (a spin-resolved or derived quantity must raise NotImplementedError; a combined one belongs in the reviewed list {sorted(COMBINED)})"
        obligation("R2", f"generalized orbitals: accessor `{name}` (not in the reviewed lists) refuses", W(name), f)
    for name in sorted(set(mo.setters) - {"occsa", "occsb"}):
        def f(name=name):
            r = gen()
            try:
                fresh().set(r, name, sym_array("x", (2,)))
            except Raised as r_:
                return None if r_.cls == "NotImplementedError" else f"raises {r_.cls}"
            return "is accepted for generalized orbitals"
        obligation("R2", f"generalized orbitals: assigning `{name}` (not in the reviewed lists) is refused", W(name, True), f)

    def f():
        r = gen()
        ev = fresh()
        if not _eq(ev.get(r, "nelec"), _tot(r.fields["occs"])):
            return "nelec is not the sum of the occupations"
        if ev.get(r, "norb") != 4:
            return f"norb = {ev.get(r, 'norb')} for a 4-column coefficient matrix"
        r2 = Rec(mo, kind="generalized", norba=None, norbb=None, occs=sym_array("o", (4,)), coeffs=sym_array("c", (6, 4)), energies=sym_array("e", (4,)), irreps=None, occs_aminusb=None)
        if fresh().get(r2, "norb") != 4:
            return f"norb = {fresh().get(r2, 'norb')} for a 6 x 4 coefficient matrix (four orbitals over six basis functions)"
        if fresh().get(r2, "nbasis") != 3:
            return f"nbasis = {fresh().get(r2, 'nbasis')} for generalized orbitals with a 6 x 4 coefficient matrix (two spin blocks of three spatial functions)"
        if fresh().get(unres(), "nbasis") != 2 or fresh().get(res(), "nbasis") != 2:
            return "nbasis is not the number of rows of the coefficient matrix for (un)restricted orbitals"
        return None
    obligation("R2", "generalized orbitals expose the combined quantities (nelec, norb)", W("nelec"), f)

    # ------------------------------------------------------------------ R3: views
    slices = {"occs": (lambda a, n: a[:n], lambda a, n: a[n:]), "energies": (lambda a, n: a[:n], lambda a, n: a[n:]), "coeffs": (lambda a, n: a[:, :n], lambda a, n: a[:, n:]), "irreps": (lambda a, n: a[:n], lambda a, n: a[n:])}
    COUNTS = [(2, 1), (1, 2), (2, 0), (0, 2), (1, 1), (3, 3)]
    for fld, (fa, fb) in slices.items():
        for side, fn_ in (("a", fa), ("b", fb)):
            name = fld + side
            def f(name=name, fld=fld, fn_=fn_):
                for na, nb in COUNTS:
                    r = unres(na, nb)
                    got = fresh().get(r, name)
                    want = fn_(r.fields[fld], na)
                    if not _eq(got, want):
                        return f"unrestricted (norba={na}, norbb={nb}): got {str(got)[:70]}, expected the {'first ' + str(na) if name.endswith('a') else 'last ' + str(nb)} of {fld}"
                return None
            obligation("R3", f"unrestricted `{name}` is the documented slice of `{fld}` at norba (orbital counts {COUNTS})", W(name), f)
            if fld != "occs":
                def f2(name=name, fld=fld):
                    r = res()
                    got = fresh().get(r, name)
                    return None if _eq(got, r.fields[fld]) else f"restricted: got {str(got)[:70]}, expected `{fld}` itself (alpha and beta share the spatial orbitals)"
                obligation("R3", f"restricted `{name}` is `{fld}` itself", W(name), f2)

    def f():
        for na, nb in COUNTS:
            r = unres(na, nb)
            ev = fresh()
            a, b = ev.get(r, "occsa"), ev.get(r, "occsb")
            if not _eq(_tot(a) + _tot(b), _tot(r.fields["occs"])):
                return f"unrestricted (norba={na}, norbb={nb}): sum(occsa) + sum(occsb) differs from sum(occs)"
        return None
    obligation("R3", "unrestricted: alpha and beta occupations add up to the stored occupations for every split of the orbitals", W("occsb"), f)
    for name in ("occsa", "occsb", "coeffsa", "energiesa", "irrepsb", "spinpol", "nelec"):
        def f(name=name):
            r = res()
            r.fields.update(occs=None, coeffs=None, energies=None, irreps=None, occs_aminusb=None)
            v = fresh().get(r, name)
            return None if v is None else f"returns {str(v)[:40]} although the underlying array is None"
        obligation("R3", f"`{name}` is None when the underlying array is absent", W(name), f)

    def f():
        r = res(True)
        ev = fresh()
        a, b = ev.get(r, "occsa"), ev.get(r, "occsb")
        o, d = r.fields["occs"], r.fields["occs_aminusb"]
        if not _eq(a, (o + d) / 2):
            return f"occsa = {a[0]!r}..., expected (occs + occs_aminusb)/2"
        if not _eq(b, (o - d) / 2):
            return f"occsb = {b[0]!r}..., expected (occs - occs_aminusb)/2"
        return None
    obligation("R3", "restricted with occs_aminusb: occsa = (occs + d)/2, occsb = (occs - d)/2 (so they sum to occs and differ by d)", W("occsa"), f)

    NUM = [[2.0, 2.0, 0.0], [2.0, 1.0, 0.0], [2.0, 1.0, 1.0], [1.0, 1.0, 0.0], [1.8, 0.2, 0.0], [2.0, 0.5, 0.0], [0.0, 0.0, 0.0], [0.9999999, 1.0000001, 0.0], [2.0, 1.0 - 1e-9, 1e-9], [2.0, 1.0 + 1e-11, 1.0 - 1e-11], [2.0 - 1e-13, 1.0, 1e-13], [2.0, 1.0 - 1e-5, 1e-5]]

    def f():
        for occs in NUM:
            r = res(False, occs)
            ev = fresh()
            a, b = ev.get(r, "occsa"), ev.get(r, "occsb")
            o = np.array(occs)
            if not _eq(a + b, o):
                return f"occs={occs}: occsa + occsb = {(a + b).tolist()}"
            integer = all(float(x).is_integer() for x in occs)
            wa = np.clip(o, 0, 1) if integer else o / 2
            if not _eq(a, wa):
                return f"occs={occs}: occsa = {a.tolist()}, documented heuristic gives {wa.tolist()}"
        return None
    obligation("R3", f"restricted without occs_aminusb ({len(NUM)} occupation patterns): occsa + occsb = occs; integer occupations -> alpha = min(occ, 1), fractional -> occ/2", W("occsa"), f)

    # ------------------------------------------------------------------ R4: setters
    for side, other in (("a", "b"), ("b", "a")):
        def f(side=side, other=other):
            # every split of the orbitals, also with no orbitals of one spin (a slice from the end is wrong there)
            for na, nb in [(2, 1), (1, 2), (2, 0), (0, 2), (1, 1), (3, 3)]:
                r = unres(na, nb)
                ev = fresh()
                before_other = np.array(ev.get(r, "occs" + other), dtype=object).copy()
                x = sym_array("x", (na if side == "a" else nb,))
                ev.set(r, "occs" + side, x)
                ev2 = fresh()
                if not _eq(ev2.get(r, "occs" + side), x):
                    return f"unrestricted (norba={na}, norbb={nb}): occs{side} reads back as {str(ev2.get(r, 'occs' + side))[:60]}"
                if not _eq(ev2.get(r, "occs" + other), before_other):
                    return f"unrestricted (norba={na}, norbb={nb}): assigning occs{side} changed occs{other}"
            return None
        obligation("R4", f"unrestricted: assigning occs{side} reads back as assigned and leaves occs{other} unchanged", W("occs" + side, True), f)

        def f(side=side, other=other):
            r = res(True)
            ev = fresh()
            before_other = np.array(ev.get(r, "occs" + other), dtype=object).copy()
            x = sym_array("x", (3,))
            ev.set(r, "occs" + side, x)
            ev2 = fresh()
            if not _eq(ev2.get(r, "occs" + side), x):
                return f"restricted (explicit occs_aminusb): occs{side} reads back as {str(ev2.get(r, 'occs' + side)[0])[:70]}"
            if not _eq(ev2.get(r, "occs" + other), before_other):
                return f"restricted (explicit occs_aminusb): assigning occs{side} changed occs{other}"
            tot = x + before_other
            if not _eq(r.fields["occs"], tot):
                return "restricted: occs is not occsa + occsb after the assignment"
            return None
        obligation("R4", f"restricted (explicit occs_aminusb): assigning occs{side} reads back, occs{other} unchanged, occs = occsa + occsb", W("occs" + side, True), f)

        def f(side=side, other=other):
            for occs in NUM:
                r = res(False, occs)
                ev = fresh()
                before_other = np.array(ev.get(r, "occs" + other), dtype=float).copy()
                x = np.array([0.75, 0.5, 0.25])
                ev.set(r, "occs" + side, x)
                ev2 = fresh()
                if not _eq(ev2.get(r, "occs" + side), x):
                    return f"occs={occs}: occs{side} reads back as {np.asarray(ev2.get(r, 'occs' + side)).tolist()}"
                if not _eq(ev2.get(r, "occs" + other), before_other):
                    return f"occs={occs}: assigning occs{side} changed occs{other} from {before_other.tolist()} to {np.asarray(ev2.get(r, 'occs' + other)).tolist()}"
            return None
        obligation("R4", f"restricted (heuristic occupations): assigning occs{side} reads back and leaves occs{other} unchanged", W("occs" + side, True), f)

        def f(side=side):
            r = res(False)
            r.fields["occs"] = None
            ev = fresh()
            x = sym_array("x", (3,))
            ev.set(r, "occs" + side, x)
            ev2 = fresh()
            if not _eq(ev2.get(r, "occs" + side), x):
                return f"no occupations stored: occs{side} reads back as {str(ev2.get(r, 'occs' + side)[0])[:70]}"
            return None
        obligation("R4", f"restricted without occupations: assigning occs{side} reads back as assigned", W("occs" + side, True), f)

    for side in ("a", "b"):
        def f(side=side):
            # the caller's array is changed in place after the assignment (a recycled buffer, a view of another object)
            for label, make in (("restricted without occupations", lambda: res(False)), ("restricted with occupations", lambda: res(True)), ("unrestricted", lambda: unres(3, 3))):
                r = make()
                if label == "restricted without occupations":
                    r.fields["occs"] = None
                    r.fields["occs_aminusb"] = None
                ev = fresh()
                x = sym_array("x", (3,))
                assigned = x.copy()
                ev.set(r, "occs" + side, x)
                x[0] = Sym.atom("later")
                got = fresh().get(r, "occs" + side)
                if not _eq(got, assigned):
                    return f"{label}: after `mo.occs{side} = x; x[0] = later` occs{side} reads back as {str(np.asarray(got, dtype=object).tolist())[:80]}: the object keeps the caller's array, the paired fields no longer move together"
            return None
        obligation("R4", f"assigning occs{side} stores the values, not the caller's array (a later in-place change of that array does not reach the object)", W("occs" + side, True), f)

    # sequences of two assignments over a small domain that includes alpha == beta and integer spin sums
    VEC = [[1.0, 0.5, 0.0], [1.0, 1.0, 0.0], [0.75, 0.5, 0.25], [1.0, 0.0, 0.0]]

    def f():
        for start in (None, [2.0, 1.0, 0.0]):
            for xa in VEC:
                for xb in VEC:
                    for order in ("ab", "ba"):
                        r = res(False, start)
                        if start is None:
                            r.fields["occs"] = None
                        ev = fresh()
                        for side in order:
                            ev.set(r, "occs" + side, np.array(xa if side == "a" else xb))
                        ev2 = fresh()
                        ga_, gb_ = ev2.get(r, "occsa"), ev2.get(r, "occsb")
                        if not _eq(ga_, np.array(xa)) or not _eq(gb_, np.array(xb)):
                            return f"after occs{order[0]} = {xa if order[0] == 'a' else xb}; occs{order[1]} = {xa if order[1] == 'a' else xb} (start occs={start}) the views read occsa={np.asarray(ga_).tolist()}, occsb={np.asarray(gb_).tolist()}"
                        if not _eq(r.fields["occs"], np.array(xa) + np.array(xb)):
                            return f"after assigning occsa={xa}, occsb={xb}: occs = {np.asarray(r.fields['occs']).tolist()}"
        return None
    obligation("R4", f"restricted: all {2 * len(VEC) ** 2 * 2} two-step assignment sequences over {len(VEC)} occupation vectors (incl. alpha == beta, integer spin sums) read back as assigned", W("occsa", True), f)

    # unrestricted orbitals whose occupations are not set yet: an assignment of one spin block is either refused or
    # stored -- it may not be dropped silently
    def f():
        for order in ("a", "b", "ab", "ba"):
            r = unres()
            na, nb = int(r.fields["norba"]), int(r.fields["norbb"])
            r.fields["occs"] = None
            vals = {"a": np.array([0.75 - 0.125 * i for i in range(na)]), "b": np.array([0.5 - 0.0625 * i for i in range(nb)])}
            ev = fresh()
            try:
                for side in order:
                    ev.set(r, "occs" + side, vals[side].copy())
            except Raised:
                continue  # refused (the unmodified class cannot store into occupations that do not exist)
            for side in order:
                try:
                    got = fresh().get(r, "occs" + side)
                except Raised as exc:
                    return f"unrestricted orbitals without occupations: after `mo.occs{' / mo.occs'.join(order)} = ...` reading occs{side} raises {exc.args[0]}"
                if got is None or not _eq(got, vals[side]):
                    return f"unrestricted orbitals without occupations: `mo.occs{side} = {vals[side].tolist()}` is accepted, but occs{side} then reads {None if got is None else np.asarray(got).tolist()} (the assignment is dropped)"
        return None
    obligation("R4", "unrestricted orbitals without occupations: assigning a spin block is refused or reads back as assigned", W("occsb", True), f)

    # ------------------------------------------------------------------ R5: derived counts
    def f():
        for mk in (unres, lambda: res(True)):
            r = mk()
            ev = fresh()
            if not _eq(ev.get(r, "nelec"), _tot(r.fields["occs"])):
                return f"{r.fields['kind']}: nelec is not the sum of the occupations"
        for occs in NUM:
            r = res(False, occs)
            if abs(float(fresh().get(r, "nelec")) - sum(occs)) > 1e-12:
                return f"occs={occs}: nelec = {fresh().get(r, 'nelec')}"
        return None
    obligation("R5", "nelec = sum of the stored occupations (unrestricted, restricted with / without occs_aminusb)", W("nelec"), f)

    def f():
        for label, mk in (("unrestricted", unres), ("restricted with occs_aminusb", lambda: res(True))):
            r = mk()
            ev = fresh()
            a, b = ev.get(r, "occsa"), ev.get(r, "occsb")
            want = _abs(_tot(a) - _tot(b))
            try:
                got = fresh().get(r, "spinpol")
            except NotSymbolic:
                if label == "unrestricted":
                    raise
                continue  # value-dependent tests on symbolic occupations: the numeric patterns below decide
            if not _eq(got, want):
                return f"{label}: spinpol = `{got!r}`, expected the absolute difference of the alpha and beta totals `{want!r}`"
        for occs in NUM:
            r = res(False, occs)
            ev = fresh()
            a, b = ev.get(r, "occsa"), ev.get(r, "occsb")
            got = fresh().get(r, "spinpol")
            if abs(float(got) - abs(float(np.sum(a) - np.sum(b)))) > 1e-12:
                return f"occs={occs}: spinpol = {got}, |sum(occsa) - sum(occsb)| = {abs(float(np.sum(a) - np.sum(b)))}"
        # explicit alpha-minus-beta occupations (numeric): they decide, whatever the integer-occupation guess would say
        for occs, amb in AMB:
            r = res(False, occs)
            r.fields["occs_aminusb"] = np.array(amb, dtype=float)
            ev = fresh()
            a, b = ev.get(r, "occsa"), ev.get(r, "occsb")
            if np.abs(np.asarray(a, dtype=float) - (np.array(occs) + np.array(amb)) / 2).max() > 1e-12 or np.abs(np.asarray(b, dtype=float) - (np.array(occs) - np.array(amb)) / 2).max() > 1e-12:
                return f"occs={occs}, occs_aminusb={amb}: occsa / occsb are {np.asarray(a).tolist()} / {np.asarray(b).tolist()}, expected (occs +/- occs_aminusb) / 2"
            got = fresh().get(r, "spinpol")
            want = abs(float(sum(amb)))
            if abs(float(got) - want) > 1e-12:
                return f"occs={occs}, occs_aminusb={amb}: spinpol = {got}, |sum(occsa) - sum(occsb)| = {want} (an explicit occs_aminusb takes precedence over the integer-occupation guess)"
        return None
    obligation("R5", "spinpol = |sum(occsa) - sum(occsb)| for every kind and occupation pattern", W("spinpol"), f)

    def f():
        if fresh().get(unres(), "norb") != 3:
            return f"unrestricted norba=2, norbb=1: norb = {fresh().get(unres(), 'norb')}"
        if fresh().get(res(), "norb") != 3:
            return f"restricted norba=norbb=3: norb = {fresh().get(res(), 'norb')}"
        return None
    obligation("R5", "norb = norba (restricted) / norba + norbb (unrestricted)", W("norb"), f)
