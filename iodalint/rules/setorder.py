"""Iteration order of sets must not reach anything ordered (a written file, a list, a dict that is serialised):
the order of a set of strings depends on the interpreter's hash seed, i.e. differs from process to process."""

from __future__ import annotations

import ast

from ..astutil import single_def
from ..model import src_of

POSITIVE = '''
def bad(result, keys):
    return {key: result[key] for key in set(result).difference(keys)}
def bad2(result, keys):
    out = []
    rest = set(result) - keys
    for key in rest:
        out.append(key)
    return out
def bad3(data, labels, fh):
    for key in data.keys() & labels.keys():
        _helper(labels[key], data[key], fh)
def _helper(label, value, fh):
    print(label, value, file=fh)
def good(result, keys):
    for key in keys.intersection(result):
        del result[key]
    return {key: result[key] for key in sorted(set(result) - keys)}
'''


def _is_set_expr(func, e, depth=0):
    if isinstance(e, (ast.Set, ast.SetComp)):
        return True
    if isinstance(e, ast.Call):
        if getattr(e.func, "id", "") in ("set", "frozenset"):
            return True
        if isinstance(e.func, ast.Attribute) and e.func.attr in ("difference", "union", "intersection", "symmetric_difference"):
            return True
    if isinstance(e, ast.BinOp) and isinstance(e.op, (ast.Sub, ast.BitOr, ast.BitAnd, ast.BitXor)):
        # set algebra; on dictionary views (`a.keys() & b.keys()`) it produces a plain set as well
        view = lambda x: isinstance(x, ast.Call) and isinstance(x.func, ast.Attribute) and x.func.attr in ("keys", "items") and not x.args
        if _is_set_expr(func, e.left, depth) or _is_set_expr(func, e.right, depth) or view(e.left) or view(e.right):
            return True
    if isinstance(e, ast.Name) and depth < 3 and e.id in func.locals and e.id not in func.params:
        d = single_def(func, e.id)
        return d is not None and _is_set_expr(func, d, depth + 1)
    return False


def _ordered_effect(stmts, prog=None, func=None, depth=0):
    """The loop body produces something whose order is observable."""
    for st in stmts:
        for x in ast.walk(st):
            if isinstance(x, (ast.Yield, ast.YieldFrom)):
                return x
            if isinstance(x, ast.Call):
                nm = x.func.attr if isinstance(x.func, ast.Attribute) else getattr(x.func, "id", "")
                if nm in ("append", "extend", "insert", "write", "writelines", "print", "setdefault", "update"):
                    return x
                # a helper of the package that writes a record / appends: its effects happen in iteration order
                if prog is not None and func is not None and depth < 3:
                    r = prog.resolve_expr(func, func.module, x.func)
                    if r and r[0] == "func" and r[1] is not func and _ordered_effect(r[1].body, prog, r[1], depth + 1) is not None:
                        return x
            if isinstance(x, ast.Assign) and any(isinstance(t, ast.Subscript) for t in x.targets):
                return x
            if isinstance(x, ast.AugAssign) and isinstance(x.op, ast.Add) and not isinstance(x.value, ast.Constant):
                return x
    return None


def set_order_sites(prog, func):
    out = []
    pm = prog.parents(func)
    for n in func.own_nodes():
        if isinstance(n, ast.For) and _is_set_expr(func, n.iter):
            eff = _ordered_effect(n.body, prog, func)
            if eff is not None:
                out.append((n, n.iter))
        elif isinstance(n, (ast.ListComp, ast.DictComp, ast.GeneratorExp)):
            for g in n.generators:
                if _is_set_expr(func, g.iter):
                    par = pm.get(id(n))
                    # order-insensitive consumers of a generator / list
                    if isinstance(par, ast.Call) and getattr(par.func, "id", "") in ("set", "frozenset", "sorted", "sum", "min", "max", "any", "all", "len"):
                        continue
                    out.append((n, g.iter))
    return out


def check_set_order(ctx, rid, funcs, label):
    from .. import AnalysisError
    from ..model import Program

    prog = ctx.prog
    hits = 0
    n = 0
    for f in funcs:
        n += 1
        for node, it in set_order_sites(prog, f):
            hits += 1
            ctx.violate(rid, f"`{src_of(it)[:60]}` is a set and its iteration order reaches an ordered result (`{src_of(node)[:60]}`): the order of a set of strings depends on the hash seed, so two processes write different bytes for the same input", f, node)
    ov = dict(prog.overlay or {})
    ov["iodata/zz_selftest_setorder.py"] = POSITIVE
    p2 = Program(prog.root, overlay=ov)
    nb = sum(len(set_order_sites(p2, p2.func(f"iodata.zz_selftest_setorder.{nm}"))) for nm in ("bad", "bad2", "bad3"))
    ng = len(set_order_sites(p2, p2.func("iodata.zz_selftest_setorder.good")))
    if nb != 3 or ng:
        raise AnalysisError(f"set-order self-test failed: {nb}/3 seeded sites flagged, {ng} false alarms on the sorted / order-insensitive twin")
    if not hits:
        ctx.ok(rid, f"{n} {label}: no set is iterated into an ordered result (positive control: 3 seeded sites flagged, sorted / deleting twin silent)", "iodata/")
