"""C03 -- loaded values are what the file says under the format's layout (structural clauses)."""

from __future__ import annotations

import ast

import numpy as np
import json
import os

from .. import AnalysisError
from ..astutil import deref, names_in, walk_stmts
from ..consteval import ConstEval, NotConstant
from ..layout import intervals, reader_slices, segments
from ..model import src_of
from ..report import VERIF

PROP = "C03"
LEVEL = "other"
TECHNIQUE = "static analysis: record-layout analysis (constant slices of readers and computed column intervals of writers against frozen format specifications), offset dataflow (text integer -> index sink), argument-order and loop-bound rules for index-unpacking routines, permutation algebra on index literals"
EXPLANATION = (
    "Static decision of the structural clauses of C03: (R1) every integer parsed from file text that reaches "
    "an index-typed sink (array subscript, Shell center, bond endpoint, four-index position) passes through "
    "exactly one `- 1`; counts and type codes are not offset; (R2) for the records whose public format is "
    "column-based (PDB ATOM/HETATM, CONECT, TITLE; GRO atom lines; SDF counts/atom/bond lines) every constant "
    "slice of the reader equals a field of the frozen specification, every mandatory field is cut by "
    "column, and the module's own writer produces the same intervals; records cut with split() are "
    "reported; (R3) at every call of set_four_index_element in a reader the index arguments are file fields "
    "1,3,2,4 (chemists' to physicists' notation); (R4) the triangular unpacking routine fills row i from a "
    "run of length i+1 and mirrors it, and every writer packs with np.tril_indices (row-major lower "
    "triangle); block-wise matrix readers advance by the block width and stop at the matrix size; (R5) "
    "index-permutation literals are permutations and match the component order of IOData.moments; (R6) "
    "labelled per-atom records are attached by label lookup, not by position.  Declined: correctness of "
    "free-format and log-file parsers beyond R1/R3/R4/R5 (no column specification to compare with); "
    "numerical accuracy of parsed values; Fortran D exponents."
)
TECHNIQUE += '; symbolic index-map evaluation of reshaping expressions against the format layouts; taint rule for narrow counter fields'
EXPLANATION += ' Added: (R7) the extended-XYZ Lattice, the WFX primitive-coefficient block, the Molden orbital columns and the VASP direct-coordinate product, evaluated on symbolic arrays, land on the elements the layout prescribes; (R8) no array index or loop bound in a loader derives from an integer cut from a field of three or fewer characters (such counters wrap in real files).'
TRUSTED = ["CPython ast parser", "frozen layout specifications in spec/layouts.json (wwPDB 3.3, GROMACS manual, CTfile V2000)", "np.tril_indices enumerates the lower triangle in row-major order"]
EXPLANATION += " Added: (R9) the VASP coordinate-mode switch, evaluated on every first character, selects Cartesian exactly for c/C/k/K; (R10) Molden pure/Cartesian tags collected while scanning sections in any order are applied only after the section loop; (R11) the Molden reader's tag branch, evaluated on [5D], [5D7F], [5D10F], [7F], [9G] in several spellings, marks exactly the angular momenta the format assigns to each tag."
TECHNIQUE += '; finite-domain evaluation of the VASP switch and the Molden tag branch; placement rule for deferred application'
# --- metadata added for batch 7
TECHNIQUE += '; reader statements / routines evaluated on model records and model line iterators (fixed-width records with touching fields, blocks, grids, labelled rows)'
EXPLANATION += " Added: (R5, R6 rewritten) the statements that store the quadrupole (FCHK, Q-Chem log) and the block that attaches WFX gradient rows are evaluated -- six different numbers in the file's component order, a gradient section listing the nuclei in another order than <Nuclear Names> -- instead of matching a permutation literal or an `.index(` call; R6 also requires a CONECT serial that is not in the frame's table to raise rather than be skipped; (R11) Molden tag lines; (R12) repeated blocks of a log follow one precedence (frozen first-wins slots); (R13) GRO box line: nine numbers land at (vector, component) and every entry gets the nanometer factor; (R14) pass-through copies keep their own key; (R15-R18) MOL2, PDB, WFN and CHARMM atom records on model records with touching fields; (R19) Gaussian-log five-column blocks; (R20) cube / VASP grid data order; (R21) WFN / WFX primitive regrouping (build_obasis evaluated)."
# --- end metadata batch 7
# --- metadata added for batch 8
TECHNIQUE += '; record loops and small readers evaluated as a whole on model files (four-index records, VASP header and grid, GRO frame)'
EXPLANATION += ' Changed / added: (R3) the two record loops that call set_four_index_element are interpreted on model records ((1 2|3 4) lands on (0, 2, 1, 3) and its seven partners only) instead of matching `int(field) - 1` statements; (R20) the VASP grid reader is interpreted as a whole on a model file; (R22) the VASP header reader on 20 model headers (scaling factor, element expansion, selective dynamics, Direct / Cartesian / Kartesian); (R23) the GRO frame reader on model frames (time positive / negative / with exponent / absent, residue and atom columns, positions, velocities, box).'
# --- end metadata batch 8
# --- metadata added after the round-2 refactoring twins
TECHNIQUE += '; whole evaluation of the VASP grid reader for the step vectors'
EXPLANATION += ' R10: every read of the recorded Molden tags (a membership test, or the set handed to a helper) must stand where no tag can be recorded any more. The VASP grid step vectors (also C04-R5) are read off the cube returned by the whole grid reader on a skew model cell.'
# --- end metadata round-2 twins
# --- metadata added after the round-3 refactoring twins
EXPLANATION += ' R2: the PDB record writers are looked for in dump_one and the helpers it hands the file to. R10: tags may be recorded with `add` or `update`.'
# --- end metadata round-3 twins
# --- metadata added for batch 9
EXPLANATION += ' Added: (R26) the MWFN $Centers reader on a model section (atomic number, core charge and position from their own columns); (R27, borrowed from C01-R19) the atom number heading a Molden [GTO] block. R7 (Molden [MO]): the model section interleaves alpha and beta orbitals.'
# --- end metadata batch 9
# --- metadata added after the round-5 refactoring twins
EXPLANATION += ' R4 (Gaussian-log blocks): the block reader is evaluated on lower triangles of size 5, 7 and 10 followed by a sentinel line: every element lands on (row, column) and its mirror, and exactly the matrix is consumed -- however the block loop is written.'
# --- end metadata round-5 twins


def _load_spec():
    with open(os.path.join(VERIF, "spec", "layouts.json")) as fh:
        return json.load(fh)


def _field_of(spec_fields, a, b):
    for name, (fa, fb) in spec_fields.items():
        if (a, b) == (fa, fb):
            return name
    return None


def _check_reader(ctx, rid, short, kind, spec, slices, func, must=True):
    """slices: [(a, b, node)] of the record variable."""
    fields = spec["fields"]
    read = set()
    for a, b, node in slices:
        if a is None:
            ctx.violate(rid, f"{short} {kind} record: slice `{src_of(node)}` has bounds the analysis cannot evaluate", func, node)
            continue
        if b is None:
            if a in spec.get("reader_open", []):
                ctx.ok(rid, f"{short} {kind}: `{src_of(node)}` (text to end of line)", f"{func.module.relpath}:{node.lineno}")
                continue
            ctx.violate(rid, f"{short} {kind} record: open-ended slice `{src_of(node)}` (columns {a}-end) is not a field of the column layout", func, node)
            continue
        nm = _field_of(fields, a, b)
        if nm is None:
            # a prefix of the record-name field is fine (line[:4] == 'ATOM')
            inside = [n for n, (fa, fb) in fields.items() if fa <= a and b <= fb]
            near = min(fields.items(), key=lambda kv: abs(kv[1][0] - a) + abs(kv[1][1] - b))
            if inside == ["record"]:
                continue
            ctx.violate(rid, f"{short} {kind} record: the reader cuts columns [{a}:{b}] (`{src_of(node)}`), which is no field of the format; nearest field `{near[0]}` is [{near[1][0]}:{near[1][1]}]", func, node)
        else:
            read.add(nm)
            ctx.ok(rid, f"{short} {kind}: `{src_of(node)}` = field {nm} [{a}:{b}]", f"{func.module.relpath}:{node.lineno}", sample=(nm in ("x", "serial")))
    if must:
        for nm in spec.get("reader_must_read", []):
            if nm not in read:
                fa, fb = fields[nm]
                ctx.violate(rid, f"{short} {kind} record: field `{nm}` (columns [{fa}:{fb}]) is not cut by column", func, func.node, construct=f"{kind} field {nm} not cut by column")
    return read


def _check_writer(ctx, rid, short, kind, spec, segs, func, node):
    fields = spec["fields"]
    ivs, complete = intervals(segs)
    got = {}
    for a, b, sg in ivs:
        if sg.kind == "fmt":
            got[(a, b)] = sg
    for nm in spec.get("writer_numeric", []):
        fa, fb = fields[nm]
        if (fa, fb) in got:
            ctx.ok(rid, f"{short} {kind} writer: {got[(fa, fb)].expr} occupies field {nm} [{fa}:{fb}]", f"{func.module.relpath}:{node.lineno}", sample=(nm in ("x", "serial")))
        else:
            near = sorted(got, key=lambda ab: abs(ab[0] - fa) + abs(ab[1] - fb))[:1]
            ctx.violate(rid, f"{short} {kind} writer: no formatted value occupies field `{nm}` [{fa}:{fb}] (nearest written interval {near})", func, node, construct=f"writer {kind} field {nm}: {near}")
    # text fields: must lie within their columns
    for (a, b), sg in got.items():
        nm = _field_of(fields, a, b)
        if nm is None and sg.spec and (sg.spec.get("type") in ("d", "f", "e", "E", "g")):
            inside = [n for n, (fa, fb) in fields.items() if fa <= a and b <= fb]
            if not inside:
                ctx.violate(rid, f"{short} {kind} writer: numeric value `{sg.expr}` is written to columns [{a}:{b}], which straddle the fields of the format", func, node, construct=f"writer {kind} numeric at [{a}:{b}]")


def run(ctx):
    prog = ctx.prog
    ce = ConstEval(prog)
    spec = _load_spec()
    ctx.clauses_decided = ["R1 one-based -> zero-based", "R2 column layouts", "R3 chemists' -> physicists'", "R4 triangular / block unpacking", "R5 permutation literals", "R6 labelled records attached by label", "R7 index maps of reshaping expressions (symbolic evaluation)", "R8 no placement by narrow counter fields", "R9 VASP coordinate-mode switch", "R10 deferred application of section data", "R11 Molden tag meaning (finite-domain evaluation)", "R12 block precedence in log scans", "R13 GRO box order (evaluated)", "R14 pass-through key collisions", "R15 MOL2 atom record fields (evaluated)", "R16 PDB ATOM record fields (evaluated)", "R17 WFN nucleus record (evaluated)", "R18 CHARMM crd record (evaluated)", "R19 Gaussian-log matrix blocks (evaluated)", "R20 grid data order (evaluated)", "R21 WFN primitive regrouping (evaluated)"]
    ctx.clauses_declined = ["free-format and log-file parsers beyond R1/R3/R4/R5", "numerical accuracy of parsed values", "Fortran D exponents"]

    # ------------------------------------------------------------------ R2
    ctx.rule("R2", "fixed-width records are cut at the columns of the format", "neighbouring fields that touch (large serials, wide or negative numbers) are mis-read")
    # ---- PDB
    pdb = prog.module("iodata.formats.pdb")
    lo = prog.func("iodata.formats.pdb.load_one")
    found = set()
    for st in walk_stmts(lo.body):
        if not isinstance(st, ast.If):
            continue
        t = st.test
        guard = None
        for c in ast.walk(t):
            if isinstance(c, ast.Call) and isinstance(c.func, ast.Attribute) and c.func.attr == "startswith" and isinstance(c.func.value, ast.Name) and c.args:
                try:
                    pref = ce.eval_in_func(lo, c.args[0])
                except NotConstant:
                    continue
                prefs = list(pref) if isinstance(pref, (tuple, list)) else [pref]
                guard = (c.func.value.id, prefs)
        if guard is None:
            continue
        var, prefs = guard
        kind = "ATOM" if "ATOM" in prefs else ("CONECT" if "CONECT" in prefs else ("TITLE" if ("TITLE" in prefs or "COMPND" in prefs) else None))
        if kind is None:
            continue
        sl = []
        fobj = lo
        body_nodes = [n for s in st.body for n in ast.walk(s)]
        # direct slices in the guarded body
        for a, b, node in reader_slices(lo, var, ce):
            if any(node is n for n in body_nodes):
                sl.append((a, b, node, lo))
        # callees receiving the record line
        for cs in lo.calls:
            if cs.callees and cs.cls is None and any(cs.node is n for n in body_nodes):
                for i, a in enumerate(cs.node.args):
                    if isinstance(a, ast.Name) and a.id == var and i < len(cs.callees[0].posparams):
                        g = cs.callees[0]
                        for a2, b2, node in reader_slices(g, g.posparams[i], ce):
                            sl.append((a2, b2, node, g))
                        fobj = g
        if not sl:
            continue
        found.add(kind)
        _check_reader(ctx, "R2", "pdb", kind, spec["pdb"][kind], [(a, b, n) for a, b, n, _ in sl], fobj, must=(kind != "TITLE"))
    for kind in ("ATOM", "CONECT"):
        if kind not in found:
            ctx.violate("R2", f"pdb: no column slices found for the {kind} record (reader no longer cuts it by column?)", lo, lo.node, construct=f"pdb {kind} reader slices")
    do = prog.func("iodata.formats.pdb.dump_one")
    nrec = 0
    # the record writers: dump_one itself and the helpers of the module it hands the file to
    for wf in [do] + [h for h in prog.callees_closure([do]) if h is not do and h.module is do.module and h.parent is None]:
        for n in wf.own_nodes():
            if isinstance(n, ast.Call) and isinstance(n.func, ast.Name) and n.func.id == "print" and n.args:
                segs = segments(wf, n.args[0], ce)
                head = segs[0].text if segs and segs[0].kind == "lit" else ""
                if head.startswith("ATOM") or head.startswith("HETATM"):
                    nrec += 1
                    _check_writer(ctx, "R2", "pdb", "ATOM", spec["pdb"]["ATOM"], segs, wf, n)
                elif head.startswith("CONECT"):
                    nrec += 1
                    _check_writer(ctx, "R2", "pdb", "CONECT", spec["pdb"]["CONECT"], segs, wf, n)
    if nrec < 2:
        ctx.violate("R2", "pdb writer: ATOM / CONECT print statements with a static layout not found", do, do.node, construct="pdb writer records")

    # ---- GRO: atom loop of the frame reader
    gro_lo = prog.func("iodata.formats.gromacs.load_one")
    gfuncs = prog.callees_closure([gro_lo])
    gfound = False
    for g in gfuncs:
        for lp in [n for n in g.own_nodes() if isinstance(n, ast.For)]:
            # loop body begins by reading a record line:  line = next(lit)
            recvar = None
            for s in lp.body:
                if isinstance(s, ast.Assign) and isinstance(s.value, ast.Call) and getattr(s.value.func, "id", "") == "next" and isinstance(s.targets[0], ast.Name):
                    recvar = s.targets[0].id
            if recvar is None:
                continue
            body_nodes = [n for s in lp.body for n in ast.walk(s)]
            sl = [(a, b, n) for a, b, n in reader_slices(g, recvar, ce) if any(n is x for x in body_nodes)]
            if not sl:
                continue
            gfound = True
            closed = [(a, b, n) for a, b, n in sl if b is not None or a is None]
            opened = [(a, b, n) for a, b, n in sl if b is None and a is not None]
            _check_reader(ctx, "R2", "gromacs", "ATOM", spec["gromacs"]["ATOM"], closed, g, must=False)
            readf = {_field_of(spec["gromacs"]["ATOM"]["fields"], a, b) for a, b, n in closed}
            for a, b, n in opened:
                par = prog.parents(g).get(id(n))
                is_split = isinstance(par, ast.Attribute) and par.attr == "split"
                ctx.violate("R2", f"gromacs ATOM record: positions/velocities are taken from `{src_of(n)}`" + (" and cut at whitespace" if is_split else "") + f"; the format has x [20:28], y [28:36], z [36:44] (8-column fields that touch for x <= -10 nm or >= 100 nm, starting at column 20, not {a})", g, n)
            for nm in spec["gromacs"]["ATOM"]["reader_must_read"]:
                if nm not in readf and nm not in ("x", "y", "z") or (nm in ("x", "y", "z") and not opened and nm not in readf):
                    fa, fb = spec["gromacs"]["ATOM"]["fields"][nm]
                    ctx.violate("R2", f"gromacs ATOM record: field `{nm}` [{fa}:{fb}] is not cut by column", g, lp, construct=f"gro field {nm}")
    if not gfound:
        ctx.violate("R2", "gromacs: atom-record loop with column slices not found", gro_lo, gro_lo.node, construct="gro atom loop")

    # ---- SDF: counts, atom and bond records
    slo = prog.func("iodata.formats.sdf.load_one")
    recs = []
    pm = prog.parents(slo)
    for n in slo.own_nodes():
        if isinstance(n, ast.Assign) and isinstance(n.targets[0], ast.Name):
            v = n.value
            # X = next(lit)            -> record line variable
            # X = next(lit).split()    -> record cut at whitespace
            base = v
            split = False
            if isinstance(v, ast.Call) and isinstance(v.func, ast.Attribute) and v.func.attr == "split" and not v.args:
                base, split = v.func.value, True
            if isinstance(base, ast.Call) and getattr(base.func, "id", "") == "next":
                # is a numeric conversion applied to the pieces?
                var = n.targets[0].id
                inloop = None
                cur = n
                while id(cur) in pm:
                    cur = pm[id(cur)]
                    if isinstance(cur, (ast.For, ast.While)):
                        inloop = cur
                        break
                recs.append((n, var, split, inloop))
    numeric_split = []
    for n, var, split, inloop in recs:
        if not split:
            continue
        scope = inloop.body if inloop is not None else slo.body
        uses = [x for s in scope for x in ast.walk(s) if isinstance(x, ast.Call) and getattr(x.func, "id", "") in ("int", "float") and x.args and isinstance(x.args[0], ast.Subscript) and isinstance(x.args[0].value, ast.Name) and x.args[0].value.id == var and x.lineno >= n.lineno]
        if uses and not isinstance(inloop, ast.While):
            numeric_split.append((n, var, inloop, uses))
    kinds = ["COUNTS", "ATOMLINE", "BONDLINE"]
    if len(numeric_split) > 3:
        numeric_split = numeric_split[:3]
    for (n, var, inloop, uses), kind in zip(numeric_split, kinds):
        f = spec["sdf"][kind]["fields"]
        desc = ", ".join(f"{k} [{a}:{b}]" for k, (a, b) in f.items())
        ctx.violate("R2", f"sdf {kind} record is cut at whitespace (`{src_of(n.value)}`), but the V2000 format is column-based ({desc}): fields that fill their columns touch (>= 100 atoms or bonds, coordinates <= -1000)", slo, n, construct=f"sdf {kind}: {src_of(n.value)}")
    # records read by column (after a repair) are checked against the spec
    for n, var, split, inloop in recs:
        if split:
            continue
        sl = reader_slices(slo, var, ce)
        scope_nodes = [x for s in (inloop.body if inloop is not None else slo.body) for x in ast.walk(s)]
        sl = [(a, b, x) for a, b, x in sl if any(x is y for y in scope_nodes)]
        if len(sl) >= 2:
            for kind in kinds:
                if all(_field_of(spec["sdf"][kind]["fields"], a, b) for a, b, x in sl if a is not None and b is not None):
                    _check_reader(ctx, "R2", "sdf", kind, spec["sdf"][kind], sl, slo)
                    break
    sdo = prog.func("iodata.formats.sdf.dump_one")
    wk = {"COUNTS": 0, "ATOMLINE": 0, "BONDLINE": 0}
    for n in sdo.own_nodes():
        if isinstance(n, ast.Call) and isinstance(n.func, ast.Name) and n.func.id == "print" and n.args:
            segs = segments(sdo, n.args[0], ce)
            ivs, _ = intervals(segs)
            fm = [(a, b, s) for a, b, s in ivs if s.kind == "fmt"]
            if len(fm) < 2:
                continue
            txt = "".join(s.text for s in segs if s.kind == "lit")
            kind = "COUNTS" if "V2000" in txt else ("ATOMLINE" if any(s.spec and s.spec.get("type") == "f" for _, _, s in fm) else "BONDLINE")
            wk[kind] += 1
            _check_writer(ctx, "R2", "sdf", kind, spec["sdf"][kind], segs, sdo, n)
    for k, c in wk.items():
        if c != 1:
            ctx.violate("R2", f"sdf writer: expected one {k} print statement with a static layout, found {c}", sdo, sdo.node, construct=f"sdf writer {k}")

    # ---- sibling agreement: numeric slices of a reader against the module's own writer templates (WFN)
    from ..layout import brace_segments

    ntmpl = 0
    for short in ("wfn",):
        mod = prog.modules.get(f"iodata.formats.{short}")
        if mod is None:
            continue
        templates = {}
        for name, b in mod.bindings.items():
            if b.kind != "assign" or not name.isupper():
                continue
            try:
                val = ce.global_value(mod, name)
            except NotConstant:
                continue
            if isinstance(val, str) and val.count("{") >= 2 and "}" in val:
                segs = brace_segments(val, ast.Call(func=ast.Name(id="f", ctx=ast.Load()), args=[], keywords=[]))
                ivs, _ = intervals(segs)
                nums = [(a, b_) for a, b_, sg in ivs if sg.kind == "fmt" and sg.spec and sg.spec.get("type") in ("d", "f", "e", "E", "g")]
                if len(nums) >= 2 and len({b_ - a for a, b_ in nums}) > 1:
                    templates[name] = nums
        for f in mod.funcs:
            if f.name.startswith("dump") or f.name.startswith("_dump"):
                continue
            pmf = prog.parents(f)
            byvar = {}
            for n in f.own_nodes():
                if isinstance(n, ast.Subscript) and isinstance(n.value, ast.Name) and isinstance(n.slice, ast.Slice):
                    par = pmf.get(id(n))
                    # numeric conversion directly applied: int(line[a:b]) / float(line[a:b])
                    if isinstance(par, ast.Call) and getattr(par.func, "id", "") in ("int", "float") and isinstance(n.slice.lower, ast.Constant) and isinstance(n.slice.upper, ast.Constant):
                        byvar.setdefault(n.value.id, []).append((n.slice.lower.value, n.slice.upper.value, n))
            for var, sl in byvar.items():
                if len(sl) < 2:
                    continue
                best = max(templates.items(), key=lambda kv: sum(1 for a, b_, _ in sl if (a, b_) in kv[1]), default=None)
                if best is None:
                    continue
                tname, nums = best
                ntmpl += 1
                for a, b_, node in sl:
                    if (a, b_) in nums:
                        ctx.ok("R2", f"{short}: `{src_of(node)}` equals a numeric field of the writer template {tname}", f"{f.module.relpath}:{node.lineno}", sample=(a == sl[0][0]))
                    else:
                        near = min(nums, key=lambda ab: abs(ab[0] - a) + abs(ab[1] - b_))
                        ctx.violate("R2", f"{short}: the reader cuts `{src_of(node)}` = [{a}:{b_}] but the module's own writer template {tname} puts the nearest number in [{near[0]}:{near[1]}]: a field that fills its columns is mis-read", f, node)
    ctx.floor("R2", ntmpl, 4, "WFN reader records matched against writer templates")

    # ------------------------------------------------------------------ R3
    ctx.rule("R3", "four-index integrals are stored in physicists' notation", "two-electron integrals land on transposed index positions")
    check_four_index_readers(ctx, "R3")

    # ------------------------------------------------------------------ R4
    ctx.rule("R4", "triangular and block-wise storage is unpacked to the right elements", "matrix elements land on wrong positions, or a trailing block swallows the next section")
    fchk_dump = prog.func("iodata.formats.fchk.dump_one")
    packs = []
    for f in prog.callees_closure([fchk_dump]):
        if f.module.name != "iodata.formats.fchk":
            continue
        for cs in f.calls:
            if cs.external in ("numpy.tril_indices", "numpy.triu_indices", "numpy.tril_indices_from", "numpy.triu_indices_from"):
                packs.append((f, cs))
    for f, cs in packs:
        if cs.external.startswith("numpy.tril_indices"):
            ctx.ok("R4", "FCHK writer packs a symmetric matrix with np.tril_indices (row-major lower triangle)", f"{f.module.relpath}:{cs.node.lineno}")
        else:
            ctx.violate("R4", f"FCHK writer packs a symmetric matrix with {cs.external}: the reader unpacks the row-major LOWER triangle, so off-diagonal elements come back on other positions", f, cs.node)
    ctx.floor("R4", len(packs), 3, "triangular packing sites in the FCHK writer")
    # the unpacking routine, evaluated: element k of the row-major lower triangle lands on (i, j) and (j, i)
    _check_triangle_unpacking(ctx)
    # block-wise lower-triangular matrices of the Gaussian log: the reader advances by the block width and stops at the
    # matrix size -- evaluated for sizes that are and are not multiples of five (a sentinel line follows the matrix)
    check_gaussianlog_blocks(ctx, "R4", sizes=(5, 7, 10))

    # ------------------------------------------------------------------ R5
    ctx.rule("R5", "quadrupole components of the file are stored in the object's order xx xy xz yy yz zz (reader statements evaluated)", "multipole components come back permuted")
    # the statement that stores moments[(2, 'c')] is evaluated on a file-ordered array with six different entries
    # (no frozen literal: the permutation may be written in place, kept in a module constant or computed)
    for short, file_order in (("fchk", ["xx", "yy", "zz", "xy", "xz", "yz"]), ("qchemlog", ["xx", "xy", "yy", "xz", "yz", "zz"])):
        check_quadrupole_reader(ctx, "R5", short, file_order)

    # ------------------------------------------------------------------ R6
    ctx.rule("R6", "labelled per-atom records are attached by label", "gradient rows listed in another order than the nuclei land on the wrong atoms")
    check_wfx_gradient_rows(ctx, "R6")

    # ------------------------------------------------------------------ R1 (offset dataflow)
    from .offsets import check_reader_offsets

    if True:
        ctx.rule("R1", "one-based indices in files become zero-based exactly once", "every bond / shell / integral is attached to the neighbouring atom or function")
        check_reader_offsets(ctx)

    ctx.rule("R7", "reshaped / transposed data lands on the elements the layout prescribes", "a lattice, coefficient block or coordinate set is loaded transposed or in the wrong memory order")
    from .indexmaps import check_index_maps

    check_index_maps(ctx, "R7", ["extxyz_lattice", "wfx_mo", "molden_mo", "vasp_direct", "vasp_axes", "cube_cellvecs"])
    ctx.floor("R7", ctx.rules["R7"]["obligations"], 5, "index-map sites")

    check_narrow_counters(ctx)
    from .c04 import check_vasp_mode_switch

    check_vasp_mode_switch(ctx, "R9")
    check_deferred_application(ctx)
    from .c01 import check_molden_reader_tags

    ctx.rule("R11", "Molden pure/Cartesian tag lines are read with the meaning the format assigns to them", "a [5D10F] or [7F] file gets f (or d) shells of the wrong size: the coefficients are misassigned or the file is rejected")
    check_molden_reader_tags(ctx, ce, "R11")
    ctx.rule("R12", "repeated blocks of a log: all result slots of one scan follow the same precedence", "coordinates of the first step are returned with the energy of the last step of an optimisation / multi-step log")
    check_block_precedence(ctx, "R12")
    ctx.rule("R13", "GRO box line: the nine numbers land in the cell matrix in the format's order (evaluated)", "a triclinic cell is loaded transposed: cell vectors differ from the same system read from another format")
    check_gromacs_box(ctx, "R13")
    ctx.rule("R14", "optional fields copied through keep their own slot (no two source keys share a destination key)", "the text of one field is loaded (and written back) under the name of another, whose own value is lost")
    check_key_collisions(ctx, "R14")
    ctx.rule("R15", "MOL2 atom record: every optional trailing field is honoured (reader evaluated on model records)", "charges of a file that also carries status bits are all loaded as zero")
    check_mol2_atom_record(ctx, "R15")
    ctx.rule("R16", "PDB ATOM record: every field reaches the slot of the same name; the element column is read in the spellings files use (evaluated)", "occupancy and temperature factor swapped, or a file with upper-case two-letter element symbols rejected")
    check_pdb_atom_record(ctx, "R16")
    check_pdb_conect_lookup(ctx, "R6")
    ctx.rule("R17", "WFN nucleus record: symbol and the three twelve-column coordinates reach their slots (evaluated)", "a coordinate that fills its field loses its sign or its first digit")
    check_wfn_atom_record(ctx, "R17")
    ctx.rule("R18", "CHARMM crd atom record: every column reaches its slot (evaluated)", "residue number and residue id swapped, or the weight column read as a coordinate")
    check_charmm_record(ctx, "R18")
    ctx.rule("R26", "MWFN $Centers record: atomic number, nuclear (core) charge and position come from their own columns (evaluated)", "the core charges copied from the atomic-number column: files of ECP calculations load with the wrong charge")
    check_mwfn_centers(ctx, "R26")
    ctx.rule("R19", "Gaussian-log five-column blocks are unpacked to the right matrix elements, both triangles (evaluated)", "the mirror store dropped, the row-label column taken as a value, or the second block shifted")
    check_gaussianlog_blocks(ctx, "R19")
    ctx.rule("R20", "volumetric data: every number of the file lands at its grid point (cube: C order; VASP: x fastest) (evaluated)", "densities transposed between x and z, or shifted by one after a ragged line")
    check_grid_data_order(ctx, "R20")
    ctx.rule("R21", "WFN / WFX primitive lists are regrouped into shells with the right row permutation (evaluated)", "the px/py/pz coefficients of a contracted shell are attached to each other's primitives")
    check_wfn_build_obasis(ctx, "R21")
    ctx.rule("R23", "GRO frame: time of the title line, residue / atom columns, positions, velocities and the box are read from their own fields (frame reader evaluated on model frames)", "a negative time or one with an exponent read as another number, velocities taken from the position columns")
    check_gro_frame(ctx, "R23")
    # a title that is blank, read through a frame loop's look-ahead, and the order in which a format lists the functions
    # of a shell are "values in the file interpreted by the format's layout" as well: the look-ahead transparency clause
    # (C13-R11) and the frozen convention tables (C10-R6)
    ctx.borrow("c13", {"R11": "R24"})
    ctx.borrow("c10", {"R6": "R25"})
    # the atom number that heads a Molden [GTO] block decides which nucleus its shells belong to (C01-R19: writer part
    # and reader routine evaluated on bases with atoms without functions / blocks out of order)
    ctx.borrow("c01", {"R19": "R27"})
    ctx.rule("R22", "VASP header: scaling factor, element / count expansion, selective-dynamics line, Cartesian or direct coordinates (reader evaluated on model headers)", "the universal scaling factor dropped from the cell or from Cartesian positions, fractional coordinates multiplied from the wrong side, counts attached to other elements")
    check_vasp_header(ctx, "R22")


NARROW_POSITIVE = '''
def bad(lit, hess):
    for line in lit:
        irow = int(line[:2]) - 1
        icol = 5 * (int(line[2:5]) - 1)
        hess[irow, icol] = float(line[5:20])
def good(lit, hess):
    counter = 0
    for line in lit:
        label = int(line[:2])
        hess.flat[counter] = float(line[5:20])
        counter += 1
'''


def _narrow_uses(func, maxwidth=3):
    """(index node, field source) for every array index / range bound computed from an int field of <= maxwidth chars."""

    def narrow_call(n):
        if isinstance(n, ast.Call) and getattr(n.func, "id", "") == "int" and n.args and isinstance(n.args[0], ast.Subscript) and isinstance(n.args[0].slice, ast.Slice):
            s = n.args[0].slice
            lo = s.lower.value if isinstance(s.lower, ast.Constant) else (0 if s.lower is None else None)
            hi = s.upper.value if isinstance(s.upper, ast.Constant) else None
            if isinstance(lo, int) and isinstance(hi, int) and 0 < hi - lo <= maxwidth:
                return True
        return False

    tainted = {}
    changed = True
    while changed:
        changed = False
        for n in func.own_nodes():
            if isinstance(n, ast.Assign) and len(n.targets) == 1 and isinstance(n.targets[0], ast.Name):
                src = next((x for x in ast.walk(n.value) if narrow_call(x)), None)
                via = next((x for x in ast.walk(n.value) if isinstance(x, ast.Name) and x.id in tainted), None)
                if (src is not None or via is not None) and n.targets[0].id not in tainted:
                    tainted[n.targets[0].id] = src if src is not None else tainted[via.id]
                    changed = True
    out = []
    for n in func.own_nodes():
        idx_exprs = []
        if isinstance(n, ast.Subscript) and not isinstance(n.slice, ast.Slice) and not (isinstance(n.value, ast.Name) and n.value.id in ("line", "words")):
            idx_exprs.append(n.slice)
        elif isinstance(n, ast.Subscript) and isinstance(n.slice, ast.Slice) and isinstance(n.ctx, ast.Store):
            idx_exprs.extend(x for x in (n.slice.lower, n.slice.upper) if x is not None)
        elif isinstance(n, ast.Call) and getattr(n.func, "id", "") == "range":
            idx_exprs.extend(n.args)
        for e in idx_exprs:
            for x in ast.walk(e):
                if narrow_call(x):
                    out.append((n, x))
                elif isinstance(x, ast.Name) and x.id in tainted and isinstance(x.ctx, ast.Load):
                    out.append((n, tainted[x.id]))
    return out


def check_deferred_application(ctx):
    """R10: information collected while scanning sections in any order is applied only after the scan.

    Molden: the pure/Cartesian tags may come before or after [GTO] and [MO]; the loop that turns shells pure must
    therefore run after the section loop (no path from it back to a statement that records a tag).
    """
    from ..cfg import cfg_of

    prog = ctx.prog
    ctx.rule("R10", "data gathered from sections in any order is applied after all sections were read", "a tag that follows the section it concerns is ignored: shells keep the wrong size and a well-formed file is rejected or misread")
    f = prog.func("iodata.formats.molden._load_low")
    adds = [n for n in f.own_nodes() if isinstance(n, ast.Call) and isinstance(n.func, ast.Attribute) and n.func.attr in ("add", "update") and isinstance(n.func.value, ast.Name) and any(isinstance(b_, ast.Assign) and any(isinstance(t_, ast.Name) and t_.id == n.func.value.id for t_ in b_.targets) and isinstance(b_.value, ast.Call) and getattr(b_.value.func, "id", "") == "set" for b_ in f.own_nodes())]
    if not adds:
        raise AnalysisError("molden._load_low: cannot find the statements that record the pure-function tags")
    setname = adds[0].func.value.id
    # every read of the recorded tags other than the recording calls themselves: a membership test here, or the set
    # handed to a helper that applies it
    pm0 = prog.parents(f)
    recording = ("add", "update", "discard", "remove", "clear")
    uses = [n for n in f.own_nodes() if isinstance(n, ast.Name) and n.id == setname and isinstance(n.ctx, ast.Load) and not (isinstance(pm0.get(id(n)), ast.Attribute) and pm0[id(n)].attr in recording)]
    if not uses:
        ctx.violate("R10", f"the recorded tags (`{setname}`) are never applied to the shells", f, f.node, construct="tags never applied")
        return
    cfg = cfg_of(f)
    pm = prog.parents(f)

    def stmt_of(node):
        cur = node
        while not isinstance(cur, ast.stmt):
            cur = pm[id(cur)]
        return cur

    add_nodes = {cfg.idx(stmt_of(a)) for a in adds}
    bad = []
    for u in uses:
        reach = cfg.reachable(cfg.idx(stmt_of(u)))
        if reach & add_nodes:
            bad.append(u)
    if bad:
        ctx.violate("R10", f"`{src_of(bad[0])}` applies the pure-function tags at a point from which more tags can still be read: a tag that comes later in the file (the Molden format fixes no section order) is ignored", f, bad[0])
    else:
        ctx.ok("R10", f"molden: the tags recorded in `{setname}` ({len(adds)} sites) are applied after the section loop; no tag can be read afterwards", f"{f.module.relpath}:{uses[0].lineno}")


def check_narrow_counters(ctx):
    """R8: data placement never relies on a counter field of three characters or fewer."""
    from ..model import Program

    prog = ctx.prog
    ctx.rule("R8", "array positions are never taken from a counter field of <= 3 characters", "for systems beyond 99 / 999 rows the printed counter wraps or overflows: rows overwrite each other silently")
    roots = [g for short in prog.format_modules() for op in ("load_one", "load_many") for g in [prog.format_op(short, op)] if g is not None]
    nfun = 0
    hits = 0
    for f in prog.callees_closure(roots):
        nfun += 1
        for node, src in _narrow_uses(f):
            hits += 1
            ctx.violate("R8", f"`{src_of(node)[:60]}` is positioned by `{src_of(src)}`, an integer field of at most three characters: real files exceed its capacity (the label wraps), so later rows land on earlier ones", f, node)
    ov = dict(prog.overlay or {})
    ov["iodata/zz_selftest_narrow.py"] = NARROW_POSITIVE
    p2 = Program(prog.root, overlay=ov)
    nb = len(_narrow_uses(p2.func("iodata.zz_selftest_narrow.bad")))
    ng = len(_narrow_uses(p2.func("iodata.zz_selftest_narrow.good")))
    if nb < 2 or ng:
        raise AnalysisError(f"narrow-counter self-test failed: {nb} of 2 seeded uses flagged, {ng} false alarms on the sequential twin")
    if not hits:
        ctx.ok("R8", f"{nfun} loader functions: no array index or loop bound derives from an integer field of <= 3 characters (positive control: {nb} seeded uses flagged, sequential twin silent)", "iodata/formats/")
    ctx.floor("R8", nfun, 135, "loader-reachable functions")


# first-wins slots that are intended (confirmed by reading the loader): (function, key) -> reason
FIRST_WINS_OK = {
    ("iodata.formats.qchemlog.load_qchemlog_low", "run_type"): "one $rem block describes the job; later $rem blocks of multi-step jobs must not overwrite it (comment in the source)",
    ("iodata.formats.qchemlog.load_qchemlog_low", "atcoords"): "the first orientation is the supersystem; later ones are the EDA fragments, collected separately (comment in the source)",
}


def check_block_precedence(ctx, rid):
    """In a loader that scans a log for repeated blocks, all result slots follow the same precedence.

    Log files of optimisations and multi-step jobs repeat their blocks; a loader keeps either the last or the first
    occurrence.  A loop in which most slots are overwritten by every occurrence (last wins) while one slot keeps its
    first value (`setdefault` with a computed value, or a store guarded by `key not in result`) returns data from
    different steps of the job: coordinates that do not belong to the energy.  Intended first-wins slots are frozen in
    FIRST_WINS_OK with their reason."""
    prog = ctx.prog
    nloop = 0
    for f in prog.package_funcs():
        if not f.module.name.startswith("iodata.formats.") or f.name.startswith(("dump", "_dump", "prepare")):
            continue
        for loop in [n for n in f.own_nodes() if isinstance(n, (ast.While, ast.For))]:
            if not any(isinstance(x, ast.Call) and isinstance(x.func, ast.Name) and x.func.id == "next" for x in ast.walk(loop)) and not (isinstance(loop, ast.For) and isinstance(loop.iter, ast.Name)):
                continue
            plain = {}
            first = []
            pm = prog.parents(f)
            for st in ast.walk(loop):
                if isinstance(st, ast.Assign):
                    flat = []
                    for t in st.targets:
                        flat.extend(t.elts if isinstance(t, (ast.Tuple, ast.List)) else [t])
                    for t in flat:
                        if isinstance(t, ast.Subscript) and isinstance(t.value, ast.Name) and isinstance(t.slice, ast.Constant) and isinstance(t.slice.value, str):
                            guard = _not_in_guard(pm, st, t.value.id)
                            empty_container = isinstance(st.value, (ast.Dict, ast.List)) and not (getattr(st.value, "keys", None) or getattr(st.value, "elts", None))
                            if guard is not None and empty_container:
                                pass  # initialisation of an accumulator, filled by every occurrence
                            elif guard is not None:
                                first.append((t.value.id, guard, st))
                            else:
                                plain.setdefault(t.value.id, set()).add(t.slice.value)
                elif isinstance(st, ast.Expr) and isinstance(st.value, ast.Call) and isinstance(st.value.func, ast.Attribute) and isinstance(st.value.func.value, ast.Name):
                    c = st.value
                    d = c.func.value.id
                    if c.func.attr == "setdefault" and len(c.args) == 2 and isinstance(c.args[0], ast.Constant) and not (isinstance(c.args[1], (ast.Dict, ast.List)) and not (getattr(c.args[1], "keys", None) or getattr(c.args[1], "elts", None))):
                        first.append((d, c.args[0].value, st))
                    elif c.func.attr == "update":
                        guard = _not_in_guard(pm, st, d)
                        if guard is not None:
                            first.append((d, guard, st))
            for d, keys in plain.items():
                if len(keys) < 3:
                    continue
                nloop += 1
                bad = [(k, st) for dd, k, st in first if dd == d and (f.qualname, k) not in FIRST_WINS_OK]
                okx = [(k, st) for dd, k, st in first if dd == d and (f.qualname, k) in FIRST_WINS_OK]
                for k, st in bad:
                    ctx.violate(rid, f"{f.name}: `{d}[{k!r}]` keeps the first occurrence of its block while {len(keys)} other slots of the same scan ({', '.join(sorted(keys)[:4])}, ...) are overwritten by every later occurrence: for a multi-step or optimisation log the returned values come from different steps", f, st)
                if not bad:
                    ctx.ok(rid, f"{f.name}: {len(keys)} slots of `{d}` follow last-occurrence-wins" + (f"; first-wins by design: {', '.join(k for k, _ in okx)}" if okx else ""), f"{f.module.relpath}:{loop.lineno}")
    ctx.floor(rid, nloop, 3, "scan loops with at least three result slots")


def _not_in_guard(pm, st, dname):
    """The key K of an enclosing `... and K not in <dname>` test (an elif branch taken only the first time), if any."""
    cur = st
    while id(cur) in pm:
        par = pm[id(cur)]
        if isinstance(par, ast.If) and cur in par.body:
            for x in ast.walk(par.test):
                if isinstance(x, ast.Compare) and len(x.ops) == 1 and isinstance(x.ops[0], ast.NotIn) and isinstance(x.left, ast.Constant) and isinstance(x.comparators[0], ast.Name) and x.comparators[0].id == dname:
                    return x.left.value
        if isinstance(par, (ast.While, ast.For, ast.FunctionDef)):
            break
        cur = par
    return None


def check_gromacs_box(ctx, rid):
    """The nine numbers of a GRO box line land in the cell matrix as the format orders them.

    GROMACS writes `v1(x) v2(y) v3(z) v1(y) v1(z) v2(x) v2(z) v3(x) v3(y)`; IOData's `cellvecs` holds one cell vector
    per row.  The box-reading tail of the frame reader is evaluated on a model line whose tokens spell their own
    destination (`12` = vector 1, component y), with nanometer standing for 1."""
    from ..accessors import AccessorEval, Raised, Rec
    from ..symarr import NotSymbolic

    prog = ctx.prog
    f = prog.func("iodata.formats.gromacs._helper_read_frame")
    licls = prog.cls("iodata.utils.LineIterator")
    atom = "    1SOL     OW    1   0.126  -1.624   2.679  0.1227 -0.0580  0.0434\n"
    for label, line, want in (
        ("triclinic box (nine numbers)", "11 22 33 12 13 21 23 31 32\n", [[11, 12, 13], [21, 22, 23], [31, 32, 33]]),
        ("rectangular box (three numbers)", "11 22 33\n", [[11, 0, 0], [0, 22, 0], [0, 0, 33]]),
    ):
        # the whole frame reader on a one-atom model frame (however the box part is organised: inline, in a helper)
        lit = Rec(licls, filename="F", fh=iter(["model, t= 0.0\n", "    1\n", atom, line]), lineno=0, stack=[])
        ev = AccessorEval(prog, licls, limit=8000)
        ev.module = f.module
        ev._globals = {("iodata.utils", "nanometer"): 1000.0, ("iodata.utils", "picosecond"): 1.0}  # so that an entry that misses the conversion shows
        try:
            res = ev.run_free(f, [lit], {})
        except Raised as exc:
            ctx.violate(rid, f"GRO {label}: reading the frame raises {exc.args[0]}", f, f.node, construct=f"gro box {label}: raises")
            continue
        except NotSymbolic as exc:
            raise AnalysisError(f"gromacs frame reader is outside the evaluation whitelist: {exc}") from exc
        raw = np.asarray(res[-1], dtype=float)
        if raw.shape != (3, 3):
            ctx.violate(rid, f"GRO {label}: the cell comes back with shape {raw.shape}", f, f.node, construct=f"gro box {label}: shape")
            continue
        unconv = [(i, j) for i in range(3) for j in range(3) if want[i][j] and abs(raw[i, j] - want[i][j]) < 1e-6]
        if unconv:
            i, j = unconv[0]
            ctx.violate(rid, f"GRO {label}: cellvecs[{i}, {j}] holds the number of the file as it is, without the nanometer conversion the other entries get ({len(unconv)} of {sum(1 for r in want for v in r if v)} entries): the conversion is applied before these entries are stored", f, f.node, construct=f"gro box {label}: entries not converted")
            continue
        got = (raw / 1000.0).round().astype(int).tolist()
        if got == want:
            ctx.ok(rid, f"GRO {label}: every number lands at (vector, component) as the format orders them", f"{f.module.relpath}:{f.lineno}")
        else:
            wrong = [(i, j) for i in range(3) for j in range(3) if got[i][j] != want[i][j]]
            i, j = wrong[0]
            ctx.violate(rid, f"GRO {label}: cellvecs[{i}, {j}] (vector {i + 1}, component {'xyz'[j]}) receives the number the format calls v{got[i][j] // 10}({'xyz'[got[i][j] % 10 - 1] if got[i][j] else '-'}); the format order is v1x v2y v3z v1y v1z v2x v2z v3x v3y and cell vectors are rows ({len(wrong)} entries misplaced)", f, f.node, construct=f"gro box {label}: entries misplaced")


def check_key_collisions(ctx, rid):
    """Pass-through copies keep their key: no two source keys are copied into the same destination slot.

    In a run of `if "k" in src: dst["k"] = src["k"]` statements (QCSchema's optional fields), a copy whose destination
    key is also the destination of another, independent copy in the same function overwrites that one: the value
    stored (or written) under the key is the value of a different field."""
    prog = ctx.prog
    n = 0
    for f in prog.package_funcs():
        if not f.module.name.startswith("iodata.formats."):
            continue
        copies = {}
        for st in f.own_nodes():
            if not (isinstance(st, ast.If) and not st.orelse and len(st.body) == 1 and isinstance(st.body[0], ast.Assign)):
                continue
            t = st.test
            if not (isinstance(t, ast.Compare) and len(t.ops) == 1 and isinstance(t.ops[0], ast.In) and isinstance(t.left, ast.Constant) and isinstance(t.left.value, str)):
                continue
            a = st.body[0]
            if len(a.targets) != 1 or not (isinstance(a.targets[0], ast.Subscript) and isinstance(a.targets[0].slice, ast.Constant) and isinstance(a.targets[0].slice.value, str)):
                continue
            src = src_of(t.comparators[0])
            v = a.value
            if not (isinstance(v, ast.Subscript) and src_of(v.value) == src and isinstance(v.slice, ast.Constant) and v.slice.value == t.left.value):
                continue
            n += 1
            copies.setdefault((src_of(a.targets[0].value), a.targets[0].slice.value), []).append((t.left.value, st))
        for (dst, key), items in copies.items():
            srcs = sorted({k for k, _ in items})
            if len(srcs) > 1:
                other = next(st for k, st in items if k != key) if any(k != key for k, _ in items) else items[-1][1]
                ctx.violate(rid, f"{f.name}: the optional fields {srcs} are all copied into `{dst}[{key!r}]`: the later copy overwrites the earlier one, so `{key}` carries the value of another field and `{[k for k in srcs if k != key][0]}` is lost", f, other)
            else:
                ctx.ok(rid, f"{f.name}: `{dst}[{key!r}]` is the copy of `{srcs[0]}` only", f"{f.module.relpath}:{items[0][1].lineno}", sample=False)
    ctx.floor(rid, n, 20, "guarded pass-through copies")


def check_mol2_atom_record(ctx, rid):
    """Tripos MOL2 atom record: `id name x y z type [subst_id [subst_name [charge [status_bit]]]]`.

    The atom reader is evaluated on a model stream of records with 6, 8, 9 and 10 tokens; every token must arrive in
    the slot the format gives it -- in particular the charge (ninth token) whenever it is present, also when a status
    bit follows."""
    from ..accessors import AccessorEval, Raised, Rec
    from ..symarr import NotSymbolic

    prog = ctx.prog
    f = prog.func("iodata.formats.mol2._load_helper_atoms")
    licls = prog.cls("iodata.utils.LineIterator")
    recs = [
        ("1 C1 1.5 2.5 3.5 C.3", 0.0),
        ("2 O2 4.5 5.5 6.5 O.3 1 RES", 0.0),
        ("3 N3 7.5 8.5 9.5 N.am 1 RES -0.25", -0.25),
        ("4 H4 0.5 1.25 2.75 H 1 RES 0.125 DSPMOD", 0.125),
    ]
    lit = Rec(licls, filename="F", fh=iter([r + "\n" for r, _ in recs]), lineno=0, stack=[])
    ev = AccessorEval(prog, licls, limit=4000)
    ev.module = f.module
    ev._globals = {("iodata.utils", "angstrom"): 1.0}
    try:
        atnums, atcoords, atchgs, attypes = ev.run_free(f, [lit, len(recs)], {})
    except Raised as exc:
        ctx.violate(rid, f"MOL2 atom records with 6 / 8 / 9 / 10 fields: the reader raises {exc.args[0]}", f, f.node, construct="mol2 atom record: raises")
        return
    except NotSymbolic as exc:
        raise AnalysisError(f"mol2._load_helper_atoms is outside the evaluation whitelist: {exc}") from exc
    bad = None
    want_nums = [6, 8, 7, 1]
    for i, (r, q) in enumerate(recs):
        w = r.split()
        if int(round(float(atnums[i]))) != want_nums[i]:
            bad = f"record `{r}`: atomic number {atnums[i]} instead of {want_nums[i]}"
        elif [float(x) for x in np.asarray(atcoords[i], dtype=float)] != [float(w[2]), float(w[3]), float(w[4])]:
            bad = f"record `{r}`: coordinates {np.asarray(atcoords[i]).tolist()} instead of tokens 3-5"
        elif list(attypes)[i] != w[5]:
            bad = f"record `{r}`: atom type {list(attypes)[i]!r} instead of token 6 ({w[5]!r})"
        elif abs(float(atchgs[i]) - q) > 1e-12:
            bad = f"record `{r}` ({len(w)} fields): charge {float(atchgs[i])} instead of {q} (the charge is the ninth field whenever it is present)"
        if bad:
            break
    if bad:
        ctx.violate(rid, f"MOL2 atom record, {bad}", f, f.node, construct=f"mol2 atom record: {bad}"[:170])
    else:
        ctx.ok(rid, "MOL2 atom records with 6, 8, 9 and 10 fields: number, coordinates, type and charge arrive in their slots", f"{f.module.relpath}:{f.lineno}")


def _pdb_atom_line(serial=7, name="CA", resname="GLY", chain="B", resnum=42, x=-11.125, y=22.25, z=-3.375, occ=0.75, bfac=12.5, element="C", record="ATOM"):
    """A PDB ATOM / HETATM record laid out by the column table of the format (v3.3)."""
    return f"{record:<6s}{serial:5d} {name:<4s} {resname:>3s} {chain:1s}{resnum:4d}    {x:8.3f}{y:8.3f}{z:8.3f}{occ:6.2f}{bfac:6.2f}          {element:>2s}  "


def check_pdb_atom_record(ctx, rid):
    """PDB ATOM record: every field of the format's column table arrives in the slot of the same name.

    The record parser is evaluated on model records whose fields all differ (so a swap of two equal-width fields, e.g.
    occupancy and temperature factor, shows) and whose element column takes the spellings real files use: right-
    justified one-letter symbols, upper-case two-letter symbols (`CL`, `FE`), title case, blank (guessed from the atom
    name) and an unknown symbol (atomic number 0 with a warning, no exception)."""
    from ..accessors import AccessorEval, Raised, Rec
    from ..symarr import NotSymbolic

    prog = ctx.prog
    f = prog.func("iodata.formats.pdb._parse_pdb_atom_line")
    licls = prog.cls("iodata.utils.LineIterator")
    cases = [
        ("one-letter element", dict(element="C"), 6),
        ("upper-case two-letter element", dict(element="CL", name="CL", resname="CL"), 17),
        ("title-case two-letter element", dict(element="Fe", name="FE", resname="HEM", record="HETATM"), 26),
        ("blank element column, atom name gives the element", dict(element="", name="N"), 7),
        ("unknown element symbol", dict(element="XX", name="X1"), 0),
    ]
    bad = None
    for label, kw, want_num in cases:
        line = _pdb_atom_line(**kw)
        lit = Rec(licls, filename="F", fh=iter([]), lineno=1, stack=[])
        ev = AccessorEval(prog, licls, limit=2000)
        ev.module = f.module
        ev._globals = {("iodata.utils", "angstrom"): 1.0}
        try:
            res = ev.run_free(f, [line, lit], {})
        except Raised as exc:
            bad = f"{label} (`{line[76:78]}`): the parser raises {exc.args[0]} on a well-formed record"
            break
        except NotSymbolic as exc:
            if "unbound" in str(exc).lower() or "name " in str(exc).lower():
                bad = f"{label} (`{line[76:78]}`): the parser reads a variable that is not assigned on this path ({exc})"
                break
            raise AnalysisError(f"pdb._parse_pdb_atom_line is outside the evaluation whitelist: {exc}") from exc
        atnum, atname, resname, chainid, resnum, atcoord, occ, bfac = res
        d = dict(name="CA", resname="GLY", chain="B", resnum=42, x=-11.125, y=22.25, z=-3.375, occ=0.75, bfac=12.5)
        d.update({k: v for k, v in kw.items() if k in d})
        got = dict(name=atname, resname=resname, chain=chainid, resnum=resnum, x=float(atcoord[0]), y=float(atcoord[1]), z=float(atcoord[2]), occ=float(occ), bfac=float(bfac))
        wrong = [k for k in d if got[k] != d[k]]
        if wrong:
            bad = f"{label}: field `{wrong[0]}` is loaded as {got[wrong[0]]!r}, the record says {d[wrong[0]]!r}"
            break
        if (atnum or 0) != want_num:
            bad = f"{label} (`{line[76:78]}`): atomic number {atnum}, expected {want_num}"
            break
    if bad:
        ctx.violate(rid, f"PDB ATOM record, {bad}", f, f.node, construct=f"pdb atom record: {bad}"[:170])
    else:
        ctx.ok(rid, f"PDB ATOM record: {len(cases)} model records (all fields distinct; element column in five spellings) are parsed field by field", f"{f.module.relpath}:{f.lineno}")


def check_pdb_conect_lookup(ctx, rid):
    """PDB CONECT records name atoms by their *serial number* (columns 7-11 of the ATOM record), which is not the
    position of the atom in the file: a TER record takes a serial number, numbering may start anywhere.  The bond
    endpoints stored by the loader must therefore be looked up in a table built from the serial column."""
    prog = ctx.prog
    f = prog.format_op("pdb", "load_one")
    # containers filled from the serial column: C[int(line[6:11])] = ... / C.append(int(line[6:11]))
    tables = set()
    for n in f.own_nodes():
        serial = lambda e: any(isinstance(x, ast.Subscript) and isinstance(x.slice, ast.Slice) and isinstance(x.slice.lower, ast.Constant) and x.slice.lower.value == 6 and isinstance(x.slice.upper, ast.Constant) and x.slice.upper.value == 11 for x in ast.walk(e))
        if isinstance(n, ast.Assign) and len(n.targets) == 1 and isinstance(n.targets[0], ast.Subscript) and isinstance(n.targets[0].value, ast.Name) and serial(n.targets[0].slice):
            tables.add(n.targets[0].value.id)
        if isinstance(n, ast.Call) and isinstance(n.func, ast.Attribute) and n.func.attr == "append" and isinstance(n.func.value, ast.Name) and n.args and serial(n.args[0]):
            tables.add(n.func.value.id)
    ends = []
    for n in f.own_nodes():
        if isinstance(n, ast.Call) and isinstance(n.func, ast.Attribute) and n.func.attr == "append" and isinstance(n.func.value, ast.Name) and n.func.value.id == "bonds" and n.args:
            rec = n.args[0]
            if isinstance(rec, ast.Name):
                rec = deref(f, rec)  # the record may be built in a local first
            if isinstance(rec, (ast.List, ast.Tuple)) and len(rec.elts) >= 2:
                ends.append((n, rec))
    if not ends:
        raise AnalysisError("pdb.load_one: the statement that stores a bond was not found")
    for n, rec in ends:
        bad = []
        for e in rec.elts[:2]:
            looked_up = (isinstance(e, ast.Subscript) and isinstance(e.value, ast.Name) and e.value.id in tables) or (isinstance(e, ast.Call) and isinstance(e.func, ast.Attribute) and e.func.attr in ("index", "get") and isinstance(e.func.value, ast.Name) and e.func.value.id in tables)
            if not looked_up:
                bad.append(src_of(e))
        # an unknown serial number must not be dropped silently: a guard `if serial in table:` around the store whose
        # other branch does not raise turns a dangling CONECT record into a missing bond
        parents = {}
        for a in ast.walk(f.node):
            for c in ast.iter_child_nodes(a):
                parents[c] = a
        cur, skipped = n, None
        while cur in parents and cur is not f.node:
            par = parents[cur]
            if isinstance(par, ast.If) and any(cur is x or any(cur is y for y in ast.walk(x)) for x in par.body):
                member = any(isinstance(x, ast.Compare) and any(isinstance(o, ast.In) for o in x.ops) and any(isinstance(c, ast.Name) and c.id in tables for c in x.comparators) for x in ast.walk(par.test))
                raises = bool(par.orelse) and isinstance(par.orelse[-1], ast.Raise)
                if member and not raises:
                    skipped = par
            cur = par
        if skipped is not None:
            ctx.violate(rid, f"pdb.load_one stores a bond only `if {src_of(skipped.test)}`: a CONECT record naming an atom that is not in the frame is dropped silently instead of being reported (LoadError)", f, skipped, construct="CONECT store guarded by membership")
            continue
        if bad:
            ctx.violate(rid, f"pdb.load_one stores the bond endpoints `{', '.join(bad)}` without looking the CONECT serial numbers up in a table of the atoms' serial numbers (columns 7-11): with a TER record or a numbering that does not start at 1 the bonds are attached to other atoms", f, n)
        else:
            ctx.ok(rid, f"pdb.load_one: CONECT serial numbers are resolved through `{sorted(tables)}` (filled from columns 7-11 of the atom records)", f"{f.module.relpath}:{n.lineno}")


def check_wfn_atom_record(ctx, rid):
    """WFN nucleus records, FORMAT (A8,16X,3F12.8): the reader is evaluated on model records whose three coordinates
    fill their twelve columns (so that neighbouring fields touch) and differ from each other; element symbols in the
    spellings programs write (`CL`, `Cl`, AIMAll's `H12`)."""
    from ..accessors import AccessorEval, Raised, Rec
    from ..symarr import NotSymbolic

    prog = ctx.prog
    f = prog.funcs.get("iodata.formats.wfn._load_helper_atoms")
    if f is None:
        raise AnalysisError("wfn._load_helper_atoms not found")
    licls = prog.cls("iodata.utils.LineIterator")
    fmt = "  {0:3s}{1:3d}    (CENTRE{2:3d}) {3:12.8f}{4:12.8f}{5:12.8f}  CHARGE ={6:5.1f}"
    recs = [
        ("O", 8, (-10.12345678, -20.87654321, -30.11112222)),
        ("CL", 17, (1.5, -2.25, 3.125)),
        ("Cl", 17, (100.12345678, 200.87654321, 300.5)),
        ("H12", 1, (0.0, -0.5, 0.25)),
    ]
    lines = [fmt.format(sym, i + 1, i + 1, x, y, z, float(num)) + "\n" for i, (sym, num, (x, y, z)) in enumerate(recs)]
    lit = Rec(licls, filename="F", fh=iter(lines), lineno=0, stack=[])
    ev = AccessorEval(prog, licls, limit=4000)
    ev.module = f.module
    try:
        atnums, atcoords = ev.run_free(f, [lit, len(recs)], {})
    except Raised as exc:
        ctx.violate(rid, f"WFN nucleus records: the reader raises {exc.args[0]} on well-formed records with wide coordinates", f, f.node, construct="wfn atom record: raises")
        return
    except NotSymbolic as exc:
        raise AnalysisError(f"wfn._load_helper_atoms is outside the evaluation whitelist: {exc}") from exc
    bad = None
    for i, (sym, num, xyz) in enumerate(recs):
        got = [float(v) for v in np.asarray(atcoords[i], dtype=float)]
        if int(round(float(atnums[i]))) != num:
            bad = f"symbol `{sym}` is read as atomic number {atnums[i]} (expected {num})"
        elif any(abs(g - w) > 1e-9 for g, w in zip(got, xyz)):
            k = next(j for j in range(3) if abs(got[j] - xyz[j]) > 1e-9)
            bad = f"record {i + 1}: {'xyz'[k]} = {xyz[k]} is read as {got[k]} (FORMAT (A8,16X,3F12.8): columns {24 + 12 * k}-{36 + 12 * k})"
        if bad:
            break
    if bad:
        ctx.violate(rid, f"WFN nucleus records, {bad}", f, f.node, construct=f"wfn atom record: {bad}"[:160])
    else:
        ctx.ok(rid, "WFN nucleus records: symbols (O, CL, Cl, H12) and three coordinates that fill their columns arrive in their slots", f"{f.module.relpath}:{f.lineno}")


def check_mwfn_centers(ctx, rid):
    """The MWFN atom reader on a model `$Centers` section of two atoms whose atomic number, nuclear charge and
    coordinates all differ (iodine with an effective core charge of 7, hydrogen): every column reaches its own slot."""
    from ..accessors import AccessorEval, Raised, Rec
    from ..symarr import NotSymbolic

    prog = ctx.prog
    f = prog.funcs.get("iodata.formats.mwfn._load_helper_atoms")
    if f is None:
        raise AnalysisError("mwfn._load_helper_atoms not found")
    licls = prog.cls("iodata.utils.LineIterator")
    A = 1000.0
    lines = ["# Atom information\n", "$Centers\n", "    1 I    53   7.0    0.12500000   -1.50000000    2.25000000\n", "    2 H     1   1.0   -0.37500000    0.62500000    1.87500000\n", "\n"]
    lit = Rec(licls, filename="F", fh=iter(lines), lineno=0, stack=[])
    try:
        ev = AccessorEval(prog, licls, limit=4000)
        ev.module = f.module
        ev._globals = {("iodata.utils", "angstrom"): A}
        res = ev.run_free(f, [lit, 2], {})
    except Raised as exc:
        ctx.violate(rid, f"MWFN $Centers: the reader raises {exc.args[0]} on two well-formed records", f, f.node, construct="mwfn centers: raises")
        return
    except NotSymbolic as exc:
        raise AnalysisError(f"mwfn._load_helper_atoms is outside the evaluation whitelist: {exc}") from exc
    num = lambda v: np.asarray(v, dtype=float)
    bad = None
    if not isinstance(res, dict):
        bad = "the reader does not return a dictionary of arrays"
    elif num(res.get("atnums")).tolist() != [53.0, 1.0]:
        bad = f"atomic numbers [53, 1] come back as {num(res.get('atnums')).tolist()}"
    elif num(res.get("atcorenums")).tolist() != [7.0, 1.0]:
        bad = f"nuclear charges [7.0, 1.0] (fourth column) come back as {num(res.get('atcorenums')).tolist()}"
    elif np.abs(num(res.get("atcoords")) - np.array([[0.125, -1.5, 2.25], [-0.375, 0.625, 1.875]]) * A).max() > 1e-6:
        bad = f"positions come back as {(num(res.get('atcoords')) / A).tolist()} angstrom"
    if bad:
        ctx.violate(rid, f"MWFN $Centers record, {bad}", f, f.node, construct=f"mwfn centers: {bad}"[:160])
    else:
        ctx.ok(rid, "MWFN $Centers: atomic number, nuclear charge and angstrom position of two model atoms come from their own columns", f"{f.module.relpath}:{f.lineno}")


def check_charmm_record(ctx, rid):
    """CHARMM crd atom records (`atomno resno res type x y z segid resid weight`): the reader evaluated on model
    records whose ten tokens all differ; each token must arrive in the slot of its column."""
    from ..accessors import AccessorEval, Raised, Rec
    from ..symarr import NotSymbolic

    prog = ctx.prog
    f = prog.funcs.get("iodata.formats.charmm._helper_read_crd")
    if f is None:
        raise AnalysisError("charmm._helper_read_crd not found")
    licls = prog.cls("iodata.utils.LineIterator")
    recs = [
        ("    1    7 TIP3 OH2    1.50000  -2.25000   3.12500 W    42     15.99900", (7, "TIP3", "OH2", (1.5, -2.25, 3.125), "W", 42, 15.999)),
        ("    2    8 ALA  CA   -10.00000  20.50000 -30.75000 PROA 9      12.01100", (8, "ALA", "CA", (-10.0, 20.5, -30.75), "PROA", 9, 12.011)),
    ]
    lit = Rec(licls, filename="F", fh=iter([f"{len(recs):5d}\n"] + [r + "\n" for r, _ in recs]), lineno=0, stack=[])
    ev = AccessorEval(prog, licls, limit=4000)
    ev.module = f.module
    ev._globals = {("iodata.utils", "angstrom"): 1.0, ("iodata.utils", "amu"): 1.0}
    try:
        resnums, resnames, attypes, pos, segid, resid, masses = ev.run_free(f, [lit], {})
    except Raised as exc:
        ctx.violate(rid, f"CHARMM crd records: the reader raises {exc.args[0]} on well-formed records", f, f.node, construct="charmm record: raises")
        return
    except NotSymbolic as exc:
        raise AnalysisError(f"charmm._helper_read_crd is outside the evaluation whitelist: {exc}") from exc
    bad = None
    for i, (_, (rn, res, typ, xyz, seg, rid_, mass)) in enumerate(recs):
        got = dict(resno=list(resnums)[i], res=list(resnames)[i], type=list(attypes)[i], x=float(pos[i][0]), y=float(pos[i][1]), z=float(pos[i][2]), segid=list(segid)[i], resid=list(resid)[i], weight=float(list(masses)[i]))
        want = dict(resno=rn, res=res, type=typ, x=xyz[0], y=xyz[1], z=xyz[2], segid=seg, resid=rid_, weight=mass)
        wrong = [k for k in want if (abs(got[k] - want[k]) > 1e-5 if isinstance(want[k], float) else got[k] != want[k])]
        if wrong:
            bad = f"record {i + 1}: column `{wrong[0]}` is loaded as {got[wrong[0]]!r}, the record says {want[wrong[0]]!r}"
            break
    if bad:
        ctx.violate(rid, f"CHARMM crd atom records, {bad}", f, f.node, construct=f"charmm record: {bad}"[:160])
    else:
        ctx.ok(rid, "CHARMM crd atom records: residue number, names, coordinates, segment, residue id and weight arrive in their slots", f"{f.module.relpath}:{f.lineno}")


def check_gaussianlog_blocks(ctx, rid, sizes=(7,)):
    """Gaussian-log lower-triangular matrices printed in blocks of five columns: the block reader is evaluated on a
    model stream for a 7 x 7 matrix whose printed numbers spell their own (row, column); the result must hold every
    number at (row, column) and at (column, row)."""
    from ..accessors import AccessorEval, Raised, Rec
    from ..symarr import NotSymbolic

    prog = ctx.prog
    cands = [g for g in prog.package_funcs() if g.module.name == "iodata.formats.gaussianlog" and g.name.startswith("_load_twoindex")]
    if len(cands) != 1:
        raise AnalysisError(f"gaussianlog: expected one _load_twoindex* helper, found {[g.name for g in cands]}")
    f = cands[0]
    licls = prog.cls("iodata.utils.LineIterator")
    for n in sizes:
        if not _gaussianlog_blocks_one(ctx, rid, prog, f, licls, n):
            return
    ctx.ok(rid, f"Gaussian-log matrix blocks: lower triangles of size {', '.join(str(k) for k in sizes)} in five-column blocks (D exponents; sizes that are and are not multiples of five) are unpacked to the right elements, mirrored, and exactly the matrix is consumed", f"{f.module.relpath}:{f.lineno}")


def _gaussianlog_blocks_one(ctx, rid, prog, f, licls, n):
    from ..accessors import AccessorEval, Raised, Rec
    from ..symarr import NotSymbolic

    val = lambda i, j: (i + 1) + (j + 1) / 100.0  # row.column, e.g. 6.03
    lines = []
    for b0 in range(0, n, 5):
        cols = list(range(b0, min(b0 + 5, n)))
        lines.append("        " + "".join(f"{c + 1:14d}" for c in cols) + "\n")
        for i in range(b0, n):
            vals = [val(i, j) for j in cols if j <= i]
            lines.append(f"{i + 1:7d} " + "".join(f"{v:14.6E}".replace("E", "D") for v in vals) + "\n")
    lines.append(" SENTINEL: the text that follows the matrix\n")
    lit = Rec(licls, filename="F", fh=iter(lines), lineno=0, stack=[])
    ev = AccessorEval(prog, licls, limit=40000)
    ev.module = f.module
    try:
        res = np.asarray(ev.run_free(f, [lit, n], {}), dtype=float)
    except Raised as exc:
        ctx.violate(rid, f"Gaussian-log matrix blocks: the reader raises {exc.args[0]} on a well-formed {n} x {n} lower triangle in {(n + 4) // 5} block(s)", f, f.node, construct=f"gaussianlog blocks: raises (n = {n})")
        return False
    except NotSymbolic as exc:
        raise AnalysisError(f"{f.qualname} is outside the evaluation whitelist: {exc}") from exc
    bad = None
    rest = list(reversed(lit.fields["stack"])) + [x for x in lit.fields["fh"]]
    if len(rest) != 1:
        bad = f"size {n}: " + (f"{len(rest) - 1} line(s) of the matrix are left unread" if len(rest) > 1 else "the reader consumes the line that follows the matrix (one block too many)")
    for i in range(n):
        for j in range(i + 1):
            if bad:
                break
            if abs(res[i, j] - val(i, j)) > 1e-6:
                bad = f"element ({i + 1}, {j + 1}) is {res[i, j]:.2f}; the file says {val(i, j):.2f}"
            elif abs(res[j, i] - val(i, j)) > 1e-6:
                bad = f"the mirror element ({j + 1}, {i + 1}) is {res[j, i]:.2f}; the matrix is symmetric, expected {val(i, j):.2f}"
    if bad:
        ctx.violate(rid, f"Gaussian-log matrix blocks, {bad}", f, f.node, construct=f"gaussianlog blocks: {bad}"[:160])
        return False
    return True


def check_grid_data_order(ctx, rid):
    """Volumetric data: which token of the file is which grid point.

    Cube: x outermost, z innermost (C order), six numbers per line and a line break after every z-run -- the module's
    writer is evaluated on a 2 x 3 x 4 grid of distinct numbers (block size 4, so lines are ragged) and its text is fed
    to the reader.  VASP (CHGCAR / LOCPOT): x runs fastest (Fortran order) -- the reader's triple loop is evaluated on
    a stream of 24 distinct numbers, five per line."""
    from ..accessors import AccessorEval, Raised, Rec, TextSink
    from ..symarr import NotSymbolic

    prog = ctx.prog
    licls = prog.cls("iodata.utils.LineIterator")
    shape = (2, 3, 4)
    data = np.arange(24, dtype=float).reshape(shape) * 1.5 + 0.25
    # ---- cube
    wr = prog.funcs.get("iodata.formats.cube._write_cube_data")
    rd = prog.funcs.get("iodata.formats.cube._read_cube_data")
    if wr is None or rd is None:
        raise AnalysisError("cube: _write_cube_data / _read_cube_data not found")
    try:
        # a z-run of twelve points: two full lines of six per run
        sink = TextSink()
        AccessorEval(prog, None, limit=8000).run_free(wr, [sink, data.reshape(2, 1, 12), 12], {})
        counts = [len(ln.split()) for ln in sink.text.split("\n") if ln.strip()]
        if counts != [6, 6, 6, 6]:
            ctx.violate(rid, f"cube data: 2 x 1 x 12 grid points are written in lines of {counts} numbers; the format has six numbers per line", wr, wr.node, construct="cube data line length")
        sink = TextSink()
        AccessorEval(prog, None, limit=8000).run_free(wr, [sink, data, shape[2]], {})
        lines = [ln + "\n" for ln in sink.text.split("\n") if ln.strip()]
        lit = Rec(licls, filename="F", fh=iter(lines), lineno=0, stack=[])
        cube = {"shape": np.array(shape)}
        AccessorEval(prog, licls, limit=8000).run_free(rd, [lit, cube], {})
        back = np.asarray(cube.get("data"), dtype=float)
        if back.shape != shape or np.abs(back - data).max() > 1e-3:
            idx = tuple(int(v) for v in np.argwhere(np.abs(back - data) > 1e-3)[0]) if back.shape == shape else None
            ctx.violate(rid, f"cube data: a 2 x 3 x 4 grid written by the module's writer is read back with {'shape ' + str(back.shape) if idx is None else 'grid point ' + str(idx) + ' = ' + str(back[idx]) + ' instead of ' + str(data[idx])}", rd, rd.node, construct="cube data order")
        elif max(len(ln.split()) for ln in lines) > 6:
            ctx.violate(rid, "cube data: more than six numbers on a line", wr, wr.node, construct="cube data line length")
        else:
            ctx.ok(rid, f"cube data: 24 grid points in {len(lines)} (ragged) lines come back at their own (x, y, z)", f"{rd.module.relpath}:{rd.lineno}")
    except Raised as exc:
        ctx.violate(rid, f"cube data writer / reader raise {exc.args[0]} on a 2 x 3 x 4 grid", rd, rd.node, construct="cube data raises")
    except NotSymbolic as exc:
        raise AnalysisError(f"cube data writer / reader are outside the evaluation whitelist: {exc}") from exc
    # ---- VASP
    f = prog.funcs.get("iodata.formats.chgcar._load_vasp_grid")
    if f is None:
        raise AnalysisError("chgcar._load_vasp_grid not found")
    # the whole grid reader on a model file: header (orthogonal 2 x 3 x 4 angstrom cell, one atom), the shape line, 24
    # numbers five per line -- however the fill loop is written, the k-th number belongs to the grid point with x fastest
    toks = [f"{0.5 + k:.5E}" for k in range(24)]
    lines = ["model\n", "   1.0\n", " 2.0 0.0 0.0\n", " 0.0 3.0 0.0\n", " 0.0 0.0 4.0\n", " H\n", " 1\n", "Direct\n", " 0.0 0.0 0.0\n", "\n", " 2 3 4\n"]
    lines += [" ".join(toks[k : k + 5]) + "\n" for k in range(0, 24, 5)]
    lit = Rec(licls, filename="F", fh=iter(lines), lineno=0, stack=[])
    try:
        ev = AccessorEval(prog, licls, limit=20000)
        ev.module = f.module
        ev._globals = {("iodata.utils", "angstrom"): 1.0}  # the unit is R22's business
        res = ev.run_free(f, [lit], {})
    except Raised as exc:
        ctx.violate(rid, f"VASP grid: the grid reader raises {exc.args[0]} on a model file with 24 numbers for a 2 x 3 x 4 grid", f, f.node, construct="vasp grid raises")
        return
    except NotSymbolic as exc:
        raise AnalysisError(f"chgcar._load_vasp_grid is outside the evaluation whitelist: {exc}") from exc
    cube = res.get("cube") if isinstance(res, dict) else None
    g = np.asarray(cube.fields.get("data"), dtype=float) if isinstance(cube, Rec) else None
    want = np.array([[[0.5 + (i0 + 2 * (i1 + 3 * i2)) for i2 in range(4)] for i1 in range(3)] for i0 in range(2)])
    if g is None or g.shape != want.shape:
        ctx.violate(rid, f"VASP grid: the shape line `2 3 4` gives a data array of shape {None if g is None else g.shape}", f, f.node, construct="vasp grid shape")
    elif np.abs(g - want).max() > 1e-9:
        idx = tuple(int(v) for v in np.argwhere(np.abs(g - want) > 1e-9)[0])
        ctx.violate(rid, f"VASP grid: grid point {idx} receives the number at position {int(round(g[idx] - 0.5))} of the file, VASP lists x fastest: position {int(round(want[idx] - 0.5))}", f, f.node, construct="vasp grid order")
    else:
        ctx.ok(rid, "VASP grid: 24 numbers (five per line) fill the 2 x 3 x 4 grid with x running fastest", f"{f.module.relpath}:{f.lineno}")


def check_wfn_build_obasis(ctx, rid):
    """WFN / WFX primitive lists are regrouped into shells: `build_obasis` evaluated on two model primitive lists for
    one centre -- an s function and a p shell of two primitives, (a) listed the way contracted shells appear in real
    files (all px, then all py, then all pz) and (b) primitive by primitive, as iodata's own writers list them.  The
    shells and the permutation that brings the coefficient rows into shell order must be the documented ones."""
    from ..accessors import AccessorEval, Raised, Rec
    from ..symarr import NotSymbolic

    prog = ctx.prog
    f = prog.funcs.get("iodata.formats.wfn.build_obasis")
    if f is None:
        raise AnalysisError("wfn.build_obasis not found")
    licls = prog.cls("iodata.utils.LineIterator")
    cases = [
        ("contracted p shell listed as px px py py pz pz", [0, 1, 1, 2, 2, 3, 3], [5.0, 2.0, 1.0, 2.0, 1.0, 2.0, 1.0], [0, 1, 3, 5, 2, 4, 6], [(0, 5.0), (1, 2.0), (1, 1.0)]),
        ("primitive by primitive (px py pz px py pz)", [0, 1, 2, 3, 1, 2, 3], [5.0, 2.0, 2.0, 2.0, 1.0, 1.0, 1.0], [0, 1, 2, 3, 4, 5, 6], [(0, 5.0), (1, 2.0), (1, 1.0)]),
        ("a d shell in the WFN order xx yy zz xy xz yz", [4, 5, 6, 7, 8, 9], [3.0] * 6, [0, 1, 2, 3, 4, 5], [(2, 3.0)]),
    ]
    bad = None
    for label, types, expo, want_perm, want_shells in cases:
        lit = Rec(licls, filename="F", fh=iter([]), lineno=0, stack=[])
        ev = AccessorEval(prog, licls, limit=20000)
        ev.module = f.module
        try:
            obasis, perm = ev.run_free(f, [np.zeros(len(types), dtype=int), np.array(types), np.array(expo), lit], {})
        except Raised as exc:
            bad = f"{label}: build_obasis raises {exc.args[0]}"
            break
        except NotSymbolic as exc:
            raise AnalysisError(f"wfn.build_obasis is outside the evaluation whitelist: {exc}") from exc
        got_perm = [int(float(v.terms.get((), 0)) if hasattr(v, 'terms') else v) for v in np.asarray(perm, dtype=object).ravel()]
        def _f(v):
            return float(v.terms.get((), 0)) if hasattr(v, "terms") else float(v)

        got_shells = [(int(_f(np.asarray(s.fields["angmoms"], dtype=object).ravel()[0])), _f(np.asarray(s.fields["exponents"], dtype=object).ravel()[0])) for s in obasis.fields["shells"]]
        if got_shells != want_shells:
            bad = f"{label}: shells (l, exponent) {got_shells}, expected {want_shells}"
            break
        if got_perm != want_perm:
            bad = f"{label}: permutation {got_perm}, expected {want_perm} (row k of the regrouped coefficients = row permutation[k] of the file)"
            break
    if bad:
        ctx.violate(rid, f"WFN primitive regrouping, {bad}", f, f.node, construct=f"build_obasis: {bad}"[:170])
    else:
        ctx.ok(rid, f"WFN / WFX primitive lists: {len(cases)} model lists are regrouped into the right shells with the right row permutation", f"{f.module.relpath}:{f.lineno}")


def check_wfx_gradient_rows(ctx, rid):
    """`<Nuclear Cartesian Energy Gradients>`: every row starts with the name of its nucleus.  The block of the WFX
    reader that turns the section into `atgradient` is evaluated on a model section that lists the nuclei in another
    order than `<Nuclear Names>`; each row must land on the atom it names."""
    from ..accessors import AccessorEval, Raised
    from ..symarr import NotSymbolic

    prog = ctx.prog
    f = prog.funcs.get("iodata.formats.wfx.load_data_wfx")
    if f is None:
        raise AnalysisError("wfx.load_data_wfx not found")
    stmt = None
    for st in f.body:
        if isinstance(st, ast.If) and any(isinstance(x, ast.Constant) and x.value == "nuclear_gradient" for x in ast.walk(st.test)):
            stmt = st
    if stmt is None:
        raise AnalysisError("wfx.load_data_wfx: the block that processes the gradient section was not found")
    resname = next((x.id for x in ast.walk(stmt.test) if isinstance(x, ast.Name)), None)
    names = ["O1", "H2", "H3"]
    want = {"O1": [1.0, 2.0, 3.0], "H2": [4.0, 5.0, 6.0], "H3": [7.0, 8.0, 9.0]}
    for order in (["H3", "O1", "H2"], ["O1", "H2", "H3"]):
        res = {"nuclear_names": list(names), "nuclear_gradient": [f"{nm} {want[nm][0]:.14E} {want[nm][1]:.14E} {want[nm][2]:.14E}" for nm in order]}
        ev = AccessorEval(prog, None, limit=4000)
        ev.module = f.module
        try:
            ev._block([stmt], {resname: res})
        except Raised as exc:
            ctx.violate(rid, f"WFX gradient section listing the nuclei as {order}: the reader raises {exc.args[0]}", f, stmt, construct="wfx gradient rows: raises")
            return
        except NotSymbolic as exc:
            raise AnalysisError(f"the WFX gradient block is outside the evaluation whitelist: {exc}") from exc
        got = res.get("atgradient")
        if not isinstance(got, np.ndarray) or got.shape != (3, 3):
            ctx.violate(rid, "WFX gradient section: no (natom, 3) array is stored", f, stmt, construct="wfx gradient rows: shape")
            return
        for i, nm in enumerate(names):
            if not np.allclose(np.asarray(got[i], dtype=float), want[nm]):
                ctx.violate(rid, f"WFX gradient section listing the nuclei as {order} (names {names}): atom {nm} receives the row {np.asarray(got[i], dtype=float).tolist()}, the row labelled {nm} is {want[nm]}", f, stmt, construct="wfx gradient rows: attached to another atom")
                return
    ctx.ok(rid, "wfx: gradient rows are assigned by the nucleus name that starts each row (sections in file order and in permuted order)", f"{f.module.relpath}:{stmt.lineno}")


def check_quadrupole_reader(ctx, rid, short, file_order):
    """The statement `<moments>[(2, 'c')] = ...` of a reader, evaluated with the parsed section bound to an array that
    holds six different numbers in the file's documented component order."""
    from ..accessors import AccessorEval, Raised
    from ..symarr import NotSymbolic

    prog = ctx.prog
    comp = {"xx": 1.0, "xy": 2.0, "xz": 3.0, "yy": 4.0, "yz": 5.0, "zz": 6.0}
    obj_order = ["xx", "xy", "xz", "yy", "yz", "zz"]
    mod = prog.modules.get(f"iodata.formats.{short}")
    sites = []
    for f in (mod.funcs if mod is not None else []):
        for x in f.own_nodes():
            if isinstance(x, ast.Assign) and isinstance(x.targets[0], ast.Subscript) and isinstance(x.targets[0].value, ast.Name) and isinstance(x.targets[0].slice, ast.Tuple) and [getattr(e, "value", None) for e in x.targets[0].slice.elts] == [2, "c"]:
                sites.append((f, x))
    if not sites:
        raise AnalysisError(f"{short}: no statement stores moments[(2, 'c')] any more")
    for f, x in sites:
        srcs = [(c.value.id, c.slice.value) for c in ast.walk(x.value) if isinstance(c, ast.Subscript) and isinstance(c.value, ast.Name) and isinstance(c.slice, ast.Constant) and isinstance(c.slice.value, str)]
        if len(srcs) != 1:
            raise AnalysisError(f"{short}: the source section of the quadrupole cannot be identified in `{src_of(x)[:80]}`")
        local = {x.targets[0].value.id: {}, srcs[0][0]: {srcs[0][1]: np.array([comp[c] for c in file_order])}}
        ev = AccessorEval(prog, None, limit=2000)
        ev.module = f.module
        try:
            ev._block([x], local)
        except Raised as exc:
            ctx.violate(rid, f"{short}: the quadrupole statement raises {exc.args[0]}", f, x, construct=f"{short} quadrupole order: raises")
            continue
        except NotSymbolic as exc:
            raise AnalysisError(f"{short}: the quadrupole statement is outside the evaluation whitelist: {exc}") from exc
        got = local[x.targets[0].value.id].get((2, "c"))
        inv = {v: k for k, v in comp.items()}
        if got is None or [float(v) for v in np.asarray(got).ravel()] != [comp[c] for c in obj_order]:
            ctx.violate(rid, f"{short}: the file lists the quadrupole as {' '.join(c.upper() for c in file_order)}; the loaded moments[(2, 'c')] holds the components {[inv.get(float(v), '?') for v in np.asarray(got).ravel()] if got is not None else None} where IOData documents {obj_order}", f, x, construct=f"{short} quadrupole order: reader")
        else:
            ctx.ok(rid, f"{short}: {' '.join(c.upper() for c in file_order)} of the file becomes xx xy xz yy yz zz", f"{f.module.relpath}:{x.lineno}")


def check_fchk_moment_order(ctx, rid, sides=("reader", "writer")):
    """FCHK lists the quadrupole as XX YY ZZ XY XZ YZ, IOData stores xx xy xz yy yz zz.  The reader statement that
    stores `moments[(2, 'c')]` and the writer statement that hands 'Quadrupole Moment' to `_dump_real_arrays` are
    evaluated on arrays with six different entries and compared with the order each side documents."""
    from ..accessors import AccessorEval, Raised, Rec
    from ..symarr import NotSymbolic

    prog = ctx.prog
    comp = {"xx": 1.0, "xy": 2.0, "xz": 3.0, "yy": 4.0, "yz": 5.0, "zz": 6.0}
    file_order = ["xx", "yy", "zz", "xy", "xz", "yz"]
    obj_order = ["xx", "xy", "xz", "yy", "yz", "zz"]
    lo = prog.format_op("fchk", "load_one")
    do = prog.format_op("fchk", "dump_one")
    try:
        if "reader" in sides:
            st = None
            for x in lo.own_nodes():
                if isinstance(x, ast.If) and any(isinstance(c, ast.Constant) and c.value == "Quadrupole Moment" for c in ast.walk(x.test)):
                    st = x
            if st is None:
                raise AnalysisError("fchk.load_one: the block that reads 'Quadrupole Moment' was not found")
            tgt = [a for a in ast.walk(st) if isinstance(a, ast.Assign) and isinstance(a.targets[0], ast.Subscript) and isinstance(a.targets[0].value, ast.Name)]
            if not tgt:
                raise AnalysisError("fchk.load_one: no store of the quadrupole found")
            dname = tgt[0].targets[0].value.id
            src = next(c.id for c in ast.walk(st.test) if isinstance(c, ast.Name))
            local = {dname: {}, src: {"Quadrupole Moment": np.array([comp[c] for c in file_order]), "Dipole Moment": np.array([0.1, 0.2, 0.3])}}
            ev = AccessorEval(prog, None, limit=2000)
            ev.module = lo.module
            ev._block([st], local)
            got = local[dname].get((2, "c"))
            if got is None or [float(v) for v in np.asarray(got).ravel()] != [comp[c] for c in obj_order]:
                inv = {v: k for k, v in comp.items()}
                ctx.violate(rid, f"fchk.load_one: the file lists the quadrupole as {' '.join(c.upper() for c in file_order)}; the loaded moments[(2, 'c')] has the components {[inv.get(float(v), '?') for v in np.asarray(got).ravel()] if got is not None else None} where IOData documents {obj_order}", lo, st, construct="fchk quadrupole order: reader")
            else:
                ctx.ok(rid, "fchk.load_one: XX YY ZZ XY XZ YZ of the file becomes xx xy xz yy yz zz", f"{lo.module.relpath}:{st.lineno}")
        if "writer" in sides:
            dra = prog.funcs.get("iodata.formats.fchk._dump_real_arrays")
            st = None
            for x in do.body:
                if any(isinstance(c, ast.Call) and c.args and isinstance(c.args[0], ast.Constant) and c.args[0].value == "Quadrupole Moment" for c in ast.walk(x)):
                    st = x
            if st is None or dra is None:
                raise AnalysisError("fchk.dump_one: the statement that writes 'Quadrupole Moment' was not found")
            iocls = prog.cls("iodata.iodata.IOData")
            f0 = {name: None for name in iocls.fields}
            f0.update(extra={}, atcharges={}, moments={(2, "c"): np.array([comp[c] for c in obj_order])})
            got = {}

            def capture(args, kw, got=got):
                got[args[0]] = np.asarray(args[1], dtype=float)

            ev = AccessorEval(prog, iocls, limit=2000)
            ev.module = do.module
            ev.stubs = {dra.qualname: capture}
            ev._block([st], {do.posparams[0]: None, do.posparams[1]: Rec(iocls, **f0)})
            flat = got.get("Quadrupole Moment")
            if flat is None or [float(v) for v in flat.ravel()] != [comp[c] for c in file_order]:
                inv = {v: k for k, v in comp.items()}
                ctx.violate(rid, f"fchk.dump_one writes the quadrupole components as {[inv.get(float(v), '?').upper() for v in flat.ravel()] if flat is not None else None}; the format lists them as {' '.join(c.upper() for c in file_order)}", do, st, construct="fchk quadrupole order: writer")
            else:
                ctx.ok(rid, "fchk.dump_one: xx xy xz yy yz zz of the object is written as XX YY ZZ XY XZ YZ", f"{do.module.relpath}:{st.lineno}")
    except Raised as exc:
        ctx.violate(rid, f"FCHK quadrupole statements raise {exc.args[0]}", lo, lo.node, construct="fchk quadrupole order: raises")
    except NotSymbolic as exc:
        raise AnalysisError(f"FCHK quadrupole statements are outside the evaluation whitelist: {exc}") from exc


def check_vasp_header(ctx, rid):
    """`_load_vasp_header` (POSCAR / CHGCAR / LOCPOT) interpreted on model headers, with `angstrom` standing for 1000 so
    that a missing conversion shows: a universal scaling factor other than 1, a non-orthogonal cell, three atoms of two
    elements, with and without the selective-dynamics line, coordinates in `Direct`, `Cartesian` and `Kartesian` mode."""
    from ..accessors import AccessorEval, Raised, Rec
    from ..symarr import NotSymbolic

    prog = ctx.prog
    f = prog.funcs.get("iodata.formats.chgcar._load_vasp_header")
    if f is None:
        raise AnalysisError("chgcar._load_vasp_header not found")
    licls = prog.cls("iodata.utils.LineIterator")
    A = 1000.0
    cell = np.array([[1.0, 0.0, 0.0], [0.5, 2.0, 0.0], [0.0, 0.25, 3.0]])
    pos = np.array([[0.1, 0.2, 0.3], [0.5, 0.5, 0.5], [0.25, 0.75, 0.125]])
    ncase = 0
    for scaling in (1.0, 2.0):
        for selective in (False, True):
            for mode in ("Direct", "direct", "Cartesian", "cart", "Kartesian"):
                lines = ["model title\n", f"  {scaling:.14f}\n"] + ["  " + " ".join(f"{v:.10f}" for v in row) + "\n" for row in cell]
                lines += ["   O     H\n", "   1     2\n"]
                if selective:
                    lines.append("Selective dynamics\n")
                lines.append(mode + "\n")
                lines += ["  " + " ".join(f"{v:.10f}" for v in row) + ("   F   F   F" if selective else "") + "\n" for row in pos]
                lines += ["\n", " 2 2 2\n"]
                lit = Rec(licls, filename="F", fh=iter(lines), lineno=0, stack=[])
                ev = AccessorEval(prog, licls, limit=20000)
                ev.module = f.module
                ev._globals = {("iodata.utils", "angstrom"): A}
                label = f"scaling {scaling}, {'with' if selective else 'no'} selective-dynamics line, `{mode}`"
                try:
                    title, cellvecs, atnums, atcoords = ev.run_free(f, [lit], {})
                except Raised as exc:
                    ctx.violate(rid, f"VASP header ({label}): the reader raises {exc.args[0]} on a well-formed header", f, f.node, construct=f"vasp header raises: {mode}")
                    return
                except (NotSymbolic, TypeError, ValueError) as exc:
                    raise AnalysisError(f"chgcar._load_vasp_header is outside the evaluation whitelist: {exc}") from exc
                ncase += 1
                want_cell = cell * scaling * A
                cart = mode[0].lower() in "ck"
                want_pos = pos * scaling * A if cart else pos @ want_cell
                bad = None
                if title != "model title":
                    bad = f"title read as {title!r}"
                elif [int(x) for x in np.asarray(atnums).ravel()] != [8, 1, 1]:
                    bad = f"elements `O H` with counts `1 2` expand to atomic numbers {[int(x) for x in np.asarray(atnums).ravel()]}, expected [8, 1, 1]"
                elif np.asarray(cellvecs).shape != (3, 3) or np.abs(np.asarray(cellvecs, dtype=float) - want_cell).max() > 1e-6:
                    got = np.asarray(cellvecs, dtype=float)
                    k = np.argwhere(np.abs(got - want_cell) > 1e-6)[0] if got.shape == (3, 3) else (0, 0)
                    bad = f"cell vector {k[0] + 1}, component {'xyz'[k[1]]} is {got[tuple(k)] if got.shape == (3, 3) else got.shape} (angstrom = {A:g}), the file says {cell[tuple(k)]} x scaling {scaling} x angstrom = {want_cell[tuple(k)]:g}"
                elif np.asarray(atcoords).shape != (3, 3) or np.abs(np.asarray(atcoords, dtype=float) - want_pos).max() > 1e-6:
                    got = np.asarray(atcoords, dtype=float)
                    k = np.argwhere(np.abs(got - want_pos) > 1e-6)[0] if got.shape == (3, 3) else (0, 0)
                    bad = f"atom {k[0] + 1}, component {'xyz'[k[1]]} is {got[tuple(k)] if got.shape == (3, 3) else got.shape}, expected {want_pos[tuple(k)]:g} (" + ("Cartesian: value x scaling x angstrom" if cart else "direct: sum_i frac_i x cell vector i") + ")"
                if bad:
                    ctx.violate(rid, f"VASP header ({label}): {bad}", f, f.node, construct=f"vasp header: {bad}"[:160])
                    return
    ctx.ok(rid, f"chgcar._load_vasp_header: {ncase} model headers (scaling 1 / 2, with / without selective dynamics, Direct / Cartesian / Kartesian spellings) give the scaled cell, the expanded elements and the right Cartesian positions", f"{f.module.relpath}:{f.lineno}")


def check_four_index_readers(ctx, rid):
    """Two-electron integrals listed in chemists' notation (ij|kl) are stored in physicists' notation <ik|jl>, zero-based.
    The record loops of the two readers that call `set_four_index_element` (FCIDUMP, Gaussian log) are interpreted
    on model records whose four indices all differ: the value must land on the eight symmetry-equivalent positions of
    (i-1, k-1, j-1, l-1) and nowhere else; one-electron and core records (FCIDUMP) on their own slots."""
    from ..accessors import AccessorEval, Raised, Rec
    from ..symarr import NotSymbolic

    prog = ctx.prog
    s4 = prog.func("iodata.utils.set_four_index_element")
    licls = prog.cls("iodata.utils.LineIterator")
    orbit = lambda i, j, k, l: {(i, j, k, l), (j, i, l, k), (k, l, i, j), (l, k, j, i), (k, j, i, l), (i, l, k, j), (l, i, j, k), (j, k, l, i)}
    sites = [(f, cs) for f in prog.package_funcs() if f is not s4 for cs in f.calls if s4 in cs.callees]
    done = 0
    n = 4
    for f, cs in sites:
        loop = next((st for st in f.body if isinstance(st, ast.For) and any(x is cs.node for x in ast.walk(st))), None)
        if loop is None:
            raise AnalysisError(f"{f.qualname}: the record loop around set_four_index_element was not found")
        arr = cs.node.args[0].id if cs.node.args and isinstance(cs.node.args[0], ast.Name) else None
        itn = loop.iter.id if isinstance(loop.iter, ast.Name) else None
        if arr is None or itn is None:
            raise AnalysisError(f"{f.qualname}: the array / iterator of the record loop cannot be identified")
        if f.module.short == "fcidump":
            lines = ["  5.0000000000000000E-01    1    2    3    4\n", "  2.5000000000000000E-01    2    1    0    0\n", "  1.5000000000000000E+00    0    0    0    0\n"]
            local = {itn: None, arr: np.zeros((n,) * 4), "one_mo": np.zeros((n, n)), "core_energy": 0.0, "nbasis": n}
        else:
            # Gaussian prints ` I=%3d J=%3d K=%3d L=%3d Int=%20.12E` with a D exponent
            lines = [" I=  1 J=  2 K=  3 L=  4 Int=  0.500000000000D+00\n", " Leave Link  316\n"]
            local = {itn: None, arr: np.zeros((n,) * 4), "nbasis": n}
        lit = Rec(licls, filename="F", fh=iter(lines), lineno=0, stack=[])
        local[itn] = lit
        ev = AccessorEval(prog, licls, limit=40000)
        ev.module = f.module
        try:
            ev._block([loop], local)
        except Raised as exc:
            ctx.violate(rid, f"{f.qualname}: the record loop raises {exc.args[0]} on a well-formed (ij|kl) record", f, loop, construct=f"{f.module.short} four-index record: raises")
            continue
        except NotSymbolic as exc:
            raise AnalysisError(f"{f.qualname}: the record loop is outside the evaluation whitelist: {exc}") from exc
        two = np.asarray(local[arr], dtype=float)
        got = {tuple(int(v) for v in idx) for idx in np.argwhere(two != 0.0)}
        want = orbit(0, 2, 1, 3)
        done += 1
        if got != want or any(abs(two[idx] - 0.5) > 1e-12 for idx in got):
            first = sorted(got)[0] if got else None
            ctx.violate(rid, f"{f.module.short}: the record (ij|kl) = (1 2|3 4) with value 0.5 is stored at {sorted(got)[:4]}{'...' if len(got) > 4 else ''}; chemists' (ij|kl) is physicists' <ik|jl>, zero-based: (0, 2, 1, 3) and its seven symmetry partners", f, cs.node, construct=f"{f.module.short} four-index record: stored at {first}")
            continue
        if f.module.short == "fcidump":
            one = np.asarray(local["one_mo"], dtype=float)
            pos1 = {tuple(int(v) for v in idx) for idx in np.argwhere(one != 0.0)}
            if pos1 != {(1, 0), (0, 1)} or abs(one[1, 0] - 0.25) > 1e-12 or abs(float(local["core_energy"]) - 1.5) > 1e-12:
                ctx.violate(rid, f"fcidump: the one-electron record `0.25 2 1 0 0` is stored at {sorted(pos1)} and the core record `1.5 0 0 0 0` as {local['core_energy']!r}; expected the symmetric pair (1, 0), (0, 1) and core_energy = 1.5", f, loop, construct="fcidump one-electron / core record")
                continue
        ctx.ok(rid, f"{f.module.short}: a record (1 2|3 4) lands on (0, 2, 1, 3) and its seven symmetry partners only" + ("; one-electron and core records on their own slots" if f.module.short == "fcidump" else ""), f"{f.module.relpath}:{cs.node.lineno}")
    ctx.floor(rid, len(sites), 2, "set_four_index_element call sites")


def check_gro_frame(ctx, rid):
    """`gromacs._helper_read_frame` interpreted on model frames (nanometer standing for 1000, picosecond for 100): two
    atoms with positions and velocities that all differ, title lines with the time written the ways GROMACS writes it
    (positive, negative, with an exponent, followed by a step field, absent)."""
    from ..accessors import AccessorEval, Raised, Rec
    from ..symarr import NotSymbolic

    prog = ctx.prog
    f = prog.funcs.get("iodata.formats.gromacs._helper_read_frame")
    if f is None:
        raise AnalysisError("gromacs._helper_read_frame not found")
    licls = prog.cls("iodata.utils.LineIterator")
    NM, PS = 1000.0, 100.0
    atoms = [
        "    1SOL     OW    1   0.126  -1.624   2.679  0.1227 -0.0580  0.0434\n",
        "   12ALA    HW1    2  -0.190   1.661   0.747  0.8085  0.3191 -0.7791\n",
    ]
    pos = np.array([[0.126, -1.624, 2.679], [-0.190, 1.661, 0.747]])
    vel = np.array([[0.1227, -0.0580, 0.0434], [0.8085, 0.3191, -0.7791]])
    titles = [
        ("MD of 2 waters, t= 0.50000\n", 0.5),
        ("MD of 2 waters, t= -2.50000\n", -2.5),
        ("MD of 2 waters, t= 1.5e+03\n", 1500.0),
        ("MD of 2 waters, t=   12.00000\n", 12.0),
        ("just a title\n", 0.0),
    ]
    for title, tval in titles:
        lines = [title, "    2\n", *atoms, "   1.86206   2.50000   3.25000\n"]
        lit = Rec(licls, filename="F", fh=iter(lines), lineno=0, stack=[])
        ev = AccessorEval(prog, licls, limit=20000)
        ev.module = f.module
        ev._globals = {("iodata.utils", "nanometer"): NM, ("iodata.utils", "picosecond"): PS}
        try:
            res = ev.run_free(f, [lit], {})
        except Raised as exc:
            ctx.violate(rid, f"GRO frame with the title `{title.strip()}`: the frame reader raises {exc.args[0]}", f, f.node, construct=f"gro frame: raises for `{title.strip()}`")
            return
        except NotSymbolic as exc:
            raise AnalysisError(f"gromacs._helper_read_frame is outside the evaluation whitelist: {exc}") from exc
        _title, time, resnums, resnames, attypes, p_, v_, cell = res
        bad = None
        if abs(float(time) - tval * PS) > 1e-6 * max(1.0, abs(tval * PS)):
            bad = f"title `{title.strip()}`: the time is loaded as {float(time) / PS:g} ps, the line says {tval:g} ps"
        elif [int(x) for x in resnums] != [1, 12] or list(resnames) != ["SOL", "ALA"] or list(attypes) != ["OW", "HW1"]:
            bad = f"residue numbers / names / atom names come back as {list(resnums)}, {list(resnames)}, {list(attypes)}"
        elif np.abs(np.asarray(p_, dtype=float) - pos * NM).max() > 1e-3:
            bad = f"positions come back as {(np.asarray(p_, dtype=float) / NM).round(4).tolist()} nm, the records say {pos.tolist()}"
        elif np.abs(np.asarray(v_, dtype=float) - vel * NM / PS).max() > 1e-3:
            bad = f"velocities come back as {(np.asarray(v_, dtype=float) * PS / NM).round(4).tolist()} nm/ps, the records say {vel.tolist()}"
        elif np.abs(np.asarray(cell, dtype=float) - np.diag([1.86206, 2.5, 3.25]) * NM).max() > 1e-2:
            bad = f"the box comes back as {(np.asarray(cell, dtype=float) / NM).round(5).tolist()}"
        if bad:
            ctx.violate(rid, f"GRO frame: {bad}", f, f.node, construct=f"gro frame: {bad}"[:160])
            return
    ctx.ok(rid, f"gromacs: {len(titles)} model frames (time positive / negative / with exponent / absent): time, residue and atom columns, positions, velocities and box come from their own fields, in nm and ps", f"{f.module.relpath}:{f.lineno}")


def _check_triangle_unpacking(ctx):
    """The FCHK reader's triangular unpacking routine interpreted on the ten numbers of a 4 x 4 lower triangle (row by
    row): number k = i (i + 1) / 2 + j must land on [i, j] and [j, i]; a 1 x 1 and an empty triangle are matrices too."""
    from ..accessors import AccessorEval, Raised
    from ..symarr import NotSymbolic

    prog = ctx.prog
    tri = prog.funcs.get("iodata.formats.fchk._triangle_to_dense")
    if tri is None:
        # found by role: the one-argument function of the module that load_one applies to a field
        lo = prog.func("iodata.formats.fchk.load_one")
        cands = {g.qualname: g for f in prog.callees_closure([lo]) for cs in f.calls for g in cs.callees if g.module is lo.module and len(g.posparams) == 1 and cs.cls is None and any(isinstance(n, ast.For) for n in g.own_nodes())}
        if len(cands) != 1:
            raise AnalysisError(f"fchk: the triangular unpacking routine cannot be identified (candidates {sorted(cands)})")
        tri = next(iter(cands.values()))
    for n in (4, 1, 0):
        flat = np.array([float(10 * (i + 1) + (j + 1)) for i in range(n) for j in range(i + 1)])
        want = np.array([[float(10 * (max(i, j) + 1) + (min(i, j) + 1)) for j in range(n)] for i in range(n)]).reshape(n, n)
        try:
            got = AccessorEval(prog, None, limit=4000).run_free(tri, [flat], {})
        except Raised as exc:
            ctx.violate("R4", f"triangular unpacking raises {exc.args[0]} for the lower triangle of a {n} x {n} matrix", tri, tri.node, construct=f"triangle unpack raises n={n}")
            return
        except NotSymbolic as exc:
            raise AnalysisError(f"{tri.qualname} is outside the evaluation whitelist: {exc}") from exc
        got = np.asarray(got, dtype=float)
        if got.shape != (n, n) or (n and np.abs(got - want).max() > 1e-12):
            k = tuple(int(v) for v in np.argwhere(np.abs(got - want) > 1e-12)[0]) if got.shape == (n, n) and n else None
            ctx.violate("R4", f"triangular unpacking of a {n} x {n} matrix: " + (f"element {k} is {got[k]:g}, the triangle lists {want[k]:g} there (row i takes the next i + 1 numbers, mirrored to column i)" if k else f"result has shape {got.shape}"), tri, tri.node, construct="triangle unpack: misplaced element")
            return
    ctx.ok("R4", "triangular unpacking: number i (i + 1) / 2 + j of the row-major lower triangle lands on [i, j] and [j, i] (4 x 4, 1 x 1 and empty evaluated)", f"{tri.module.relpath}:{tri.lineno}")
