"""Offset dataflow rules: C03-R1 (readers) and C02-R3 (writers)."""

from __future__ import annotations

import ast

from .. import AnalysisError
from ..absint import Interp, State, V
from ..domains.offsets import O, OffsetDomain, has_index
from ..model import src_of


def _fmt(tag):
    parts = []
    for a in sorted(tag, key=repr):
        if isinstance(a, tuple) and a[0] == "T":
            parts.append(f"text-int{a[1]:+d}" if a[1] else "text-int")
        elif isinstance(a, tuple) and a[0] == "L":
            parts.append(f"counter{a[1]:+d}" if a[1] else "counter")
        elif isinstance(a, tuple) and a[0] == "A":
            parts.append(f"data.{a[1]}{a[2]:+d}" if a[2] else f"data.{a[1]}")
        elif a == "O":
            parts.append("other")
    return "{" + ", ".join(parts) + "}"


def _columns(it, st, v):
    """Per-column tags of an (n, 3) bonds value built as array columns or as a list of row lists."""
    dom = it.d
    o = it.obj(st, v)
    cols = {}
    if o is None:
        return None
    if o.kind == "array" and any(isinstance(k, tuple) and k[0] == "col" for k in o.slots):
        for k, sv in o.slots.items():
            if isinstance(k, tuple) and k[0] == "col":
                cols[k[1]] = dom._deep(it, sv, st)
        if o.elem is not None:
            eo = it.obj(st, o.elem)
            if eo is not None and eo.kind in ("list", "tuple"):
                for k, sv in eo.slots.items():
                    if isinstance(k, int):
                        cols[k] = dom.join(cols.get(k, frozenset()), dom._deep(it, sv, st))
        return cols
    ev = o.elem
    eo = it.obj(st, ev) if ev is not None else None
    if eo is not None and eo.kind in ("list", "tuple") and eo.slots:
        for k, sv in eo.slots.items():
            if isinstance(k, int):
                cols[k] = dom._deep(it, sv, st)
        return cols
    return None


def check_reader_offsets(ctx, rid="R1"):
    prog = ctx.prog
    nsink = 0
    for short in prog.format_modules():
        f = prog.format_op(short, "load_one")
        if f is None:
            continue
        dom = OffsetDomain(prog, mode="read")
        it = Interp(prog, dom)
        try:
            ret, st = it.run_function(f, {}, State())
        except AnalysisError as exc:
            raise AnalysisError(f"while analysing {f.qualname}: {exc}") from exc
        seen = set()
        for kind, func, node, tag, detail in dom.sinks:
            key = (func.qualname, getattr(node, "lineno", 0), kind, detail)
            if key in seen:
                continue
            seen.add(key)
            tatoms = [a for a in tag if isinstance(a, tuple) and a[0] == "T"]
            if not tatoms:
                continue
            nsink += 1
            bad = [a for a in tatoms if a[1] != -1]
            where = f"{func.module.relpath}:{getattr(node, 'lineno', 0)}"
            if bad:
                k = bad[0][1]
                ctx.violate(rid, f"{short}: a one-based integer from the file is {detail} with net offset {k:+d} (must be -1): {_fmt(tag)}", func, node)
            else:
                ctx.ok(rid, f"{short}: {detail}: text integer - 1", where, sample=(kind != "subscript"))
        # bonds columns
        ro = it.obj(st, ret)
        if ro is not None and "bonds" in ro.slots:
            cols = _columns(it, st, ro.slots["bonds"])
            if cols is None:
                ctx.note(f"{short}: structure of the bonds array not resolved by the offset analysis")
            else:
                for c in (0, 1):
                    t = cols.get(c, frozenset())
                    tat = [a for a in t if isinstance(a, tuple) and a[0] == "T"]
                    if not tat:
                        continue
                    nsink += 1
                    if all(a[1] == -1 for a in tat):
                        ctx.ok(rid, f"{short}: bonds column {c} (atom index) = text integer - 1", f.where)
                    else:
                        ctx.violate(rid, f"{short}: bond endpoint column {c} is stored with offset(s) {sorted(a[1] for a in tat)} relative to the one-based number in the file (must be -1)", f, f.node, construct=f"{short} bonds column {c}: {_fmt(t)}")
                t = cols.get(2, frozenset())
                tat = [a for a in t if isinstance(a, tuple) and a[0] == "T"]
                if tat:
                    nsink += 1
                    if all(a[1] == 0 for a in tat):
                        ctx.ok(rid, f"{short}: bonds column 2 (bond type) is not offset", f.where)
                    else:
                        ctx.violate(rid, f"{short}: the bond-type column is shifted by {sorted(a[1] for a in tat)} (a type code, not an index)", f, f.node, construct=f"{short} bonds column 2: {_fmt(t)}")
    ctx.extra["reader_offset_sinks"] = nsink
    ctx.floor(rid, nsink, 12, "index-typed sinks fed by integers from file text")


def check_writer_offsets(ctx, rid):
    prog = ctx.prog
    nsink = 0
    for short in prog.format_modules():
        f = prog.format_op(short, "dump_one")
        if f is None:
            continue
        dp = f.posparams[1]
        dom = OffsetDomain(prog, mode="write", roots={f.qualname: {dp}})
        it = Interp(prog, dom)
        try:
            it.run_function(f, {}, State())
        except AnalysisError as exc:
            raise AnalysisError(f"while analysing {f.qualname}: {exc}") from exc
        seen = set()
        for func, node, tags in dom.prints:
            for tag in tags:
                for a in tag:
                    if not isinstance(a, tuple) or a[0] not in ("A", "L"):
                        continue
                    key = (func.qualname, getattr(node, "lineno", 0), a)
                    if key in seen:
                        continue
                    seen.add(key)
                    where = f"{func.module.relpath}:{getattr(node, 'lineno', 0)}"
                    if a[0] == "A":
                        nsink += 1
                        name, k = a[1], a[2]
                        want = 0 if name == "bonds.2" else 1
                        if name == "bonds":
                            continue
                        if k == want:
                            ctx.ok(rid, f"{short}: data.{name} written {'+1 (one-based)' if want else 'as stored (a type code)'}", where)
                        else:
                            ctx.violate(rid, f"{short} writes data.{name} with offset {k:+d}; the file is one-based so zero-based {name} needs {want:+d}", func, node, construct=f"{short} writer data.{name}{k:+d}")
                    else:
                        nsink += 1
                        k = a[1]
                        if k >= 1:
                            ctx.ok(rid, f"{short}: loop counter written one-based (counter{k:+d})", where, sample=False)
                        else:
                            ctx.violate(rid, f"{short} writes a zero-based loop counter (offset {k:+d}) into the file; serial numbers in the file are one-based", func, node, construct=f"{short} writer counter{k:+d}")
    ctx.extra["writer_offset_sinks"] = nsink
    ctx.floor(rid, nsink, 12, "index-typed values at writer sinks")
