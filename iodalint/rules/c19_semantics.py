"""C19: the field dictionary of the input writers, decided by evaluating the two small functions that build it."""

from __future__ import annotations

import ast

import numpy as np

from .. import AnalysisError
from ..accessors import AccessorEval, Raised, Rec
from ..model import src_of
from ..symarr import NotSymbolic

GAUSSIAN_RUN = {"energy": "sp", "energy_force": "force", "opt": "opt", "scan": "scan", "freq": "freq"}
ORCA_RUN = {"energy": "Energy", "freq": "Freq", "opt": "Opt"}
DEFAULTS = {"gaussian": {"lot": "hf", "obasis_name": "sto-3g"}, "orca": {"lot": "HF", "obasis_name": "STO-3G"}}
RUN = {"gaussian": GAUSSIAN_RUN, "orca": ORCA_RUN}


def _round_half_even(x):
    return int(round(x))



def _is_documented_writer(prog, g):
    for d in g.decorators:
        if isinstance(d, ast.Call):
            r = prog.resolve_expr(None, g.module, d.func)
            if r and r[0] == "func" and r[1].name == "document_write_input":
                return True
    return False


def input_base(prog):
    """The shared rendering routine of the input writers, found by what it is -- the one function outside the program
    modules that every documented `write_input` calls with the file, the object, a template and an atom-line function --
    not by its name."""
    cands = None
    for short, m in sorted(prog.input_modules().items()):
        g = prog.funcs.get(f"{m.name}.write_input")
        if g is None or not _is_documented_writer(prog, g):
            continue
        here = set()
        for n in g.own_nodes():
            if isinstance(n, ast.Call):
                r = prog.resolve_expr(g, g.module, n.func)
                if r and r[0] == "func" and r[1].module.name.startswith("iodata.inputs.") and r[1].module is not g.module and len(r[1].posparams) >= 5:
                    here.add(r[1].qualname)
        cands = here if cands is None else cands & here
    if not cands or len(cands) != 1:
        raise AnalysisError(f"the shared routine of the input writers cannot be identified (candidates: {sorted(cands or [])})")
    return prog.func(next(iter(cands)))


def check_registered_programs(ctx, rid):
    """`Unknown program names raise FileFormatError`: the registry of input programs is every module of iodata.inputs
    with a module-level `write_input`; each of them must be a documented program writer (the `document_write_input`
    decorator, the signature api.write_input calls).  A helper module that exposes that name becomes a program."""
    prog = ctx.prog
    api_wi = prog.func("iodata.api.write_input")
    n = 0
    for short, m in sorted(prog.input_modules().items()):
        b = m.bindings["write_input"]
        g = prog.funcs.get(f"{m.name}.write_input") if b.kind == "func" else None
        if g is None or not _is_documented_writer(prog, g):
            ctx.violate(rid, f"iodata.inputs.{short} has a module-level `write_input` that is not a documented program writer: the registry builder registers `{short}` as an input program, so write_input(..., fmt='{short}') no longer raises FileFormatError", relpath=m.relpath, function=f"{m.name}.write_input", node=(g.node if g is not None else None), construct=f"registered input module {short} is not a program")
            continue
        if len(g.posparams) < 4 or g.kwarg is None:
            ctx.violate(rid, f"{short}.write_input does not take (file, object, template, atom_line, **fields) as api.write_input passes them", g, g.node, construct=f"{short}.write_input signature")
            continue
        n += 1
    if n < 2:
        raise AnalysisError("fewer than two input programs found (gaussian, orca expected)")
    ctx.ok(rid, f"{n} registered input modules, all documented program writers with the signature api.write_input uses", api_wi.where)


def check_field_semantics(ctx, rid_round="R3", rid_prec="R4", rid_defaults="R5"):
    prog = ctx.prog
    base = input_base(prog)
    iocls = prog.cls("iodata.iodata.IOData")
    user_param = base.posparams[4]
    # prefix of the base routine that builds the field dictionary (everything before the geometry is rendered)
    al = base.posparams[3]
    prefix = []
    for st in base.body:
        if any(isinstance(x, ast.Name) and x.id == al for x in ast.walk(st)):
            break
        prefix.append(st)
    upd = [x for st in prefix for x in ast.walk(st) if isinstance(x, ast.Call) and isinstance(x.func, ast.Attribute) and x.func.attr == "update" and x.args and isinstance(x.args[0], ast.Name) and x.args[0].id == user_param]
    if len(upd) != 1 or not isinstance(upd[0].func.value, ast.Name):
        ctx.violate(rid_prec, "write_input_base does not merge the user fields into its field dictionary before rendering the geometry", base, base.node, construct="user fields merge")
        return
    fvar = upd[0].func.value.id

    fh_marker = object()
    last = {}

    def fields_of(short, wi, data, kwargs, extra_pos=(), ev=None):
        """Final field dictionary for one object / keyword set; raises Raised for a rendering failure.

        With `ev` given, the call is evaluated in the module state an earlier call (with the same evaluator) left."""
        ev = ev or AccessorEval(prog, iocls)
        captured = {}

        def stub(args, kw):
            bound = dict(zip(base.posparams, args))
            bound.update(kw)
            captured["user"] = bound.get(user_param)
            captured["data"] = bound.get(base.posparams[1])
            captured["template"] = bound.get(base.posparams[2])
            captured["atom_line"] = bound.get(al)
            captured["fh"] = bound.get(base.posparams[0])
            return None

        ev.stubs = {base.qualname: stub}
        pos = [fh_marker, data] + list(extra_pos)
        ev.run_free(wi, pos, dict(kwargs))
        last.clear()
        last.update(captured)
        if "user" not in captured:
            raise NotSymbolic(f"{short}.write_input did not call write_input_base")
        ev2 = AccessorEval(prog, iocls)
        ev2.module = base.module
        local = {base.posparams[0]: None, base.posparams[1]: captured["data"], base.posparams[2]: "", al: None, user_param: captured["user"]}
        ev2._block(prefix, local)
        return local[fvar]

    mo_cls = prog.cls("iodata.orbitals.MolecularOrbitals")

    def mk(**kw):
        """An abstract IOData instance with its *stored* fields; charge / spinpol / nelec are read through the class's
        own property getters (so a writer that reads the hidden `_spinpol` / `_charge` instead of the property is seen)."""
        f = {name: None for name in iocls.fields}
        f.update(title="T", lot="B3LYP", obasis_name="def2", run_type="opt", _charge=0.0, _spinpol=0.0)
        for k, v in kw.items():
            f[{"charge": "_charge", "spinpol": "_spinpol", "nelec": "_nelec"}.get(k, k)] = v
        for k in list(f):
            if k not in iocls.fields:
                raise AnalysisError(f"C19: IOData has no stored field `{k}` any more")
        return Rec(iocls, **f)

    nprog = 0
    for short, m in prog.input_modules().items():
        wi = prog.funcs.get(f"{m.name}.write_input")
        if wi is None:
            continue
        nprog += 1
        where = f"{wi.module.relpath}:{wi.lineno}"

        def run(rid, title, fn, wi=wi, where=where):
            try:
                msg = fn()
            except NotSymbolic as exc:
                raise AnalysisError(f"C19 field evaluation ({title}): outside the whitelist: {exc}") from exc
            except Raised as r:
                msg = f"raises {r.cls}"
            if msg is None:
                ctx.ok(rid, title, where)
            else:
                ctx.violate(rid, f"{title}: {msg}", wi, wi.node, construct=f"{title}: {msg}"[:200])

        # ---- rounding
        def f(short=short, wi=wi):
            for ch, want in ((None, 0), (0.0, 0), (0.9999999, 1), (-0.9999999, -1), (1.4, 1), (-1.6, -2), (2.0000001, 2)):
                got = fields_of(short, wi, mk(charge=ch), {}).get("charge")
                if got != want or isinstance(got, float) and not float(got).is_integer():
                    return f"charge {ch} is written as {got!r}, expected {want}"
            for sp, want in ((None, 1), (0.0, 1), (0.9999999, 2), (1.0000001, 2), (-1.0, 2), (2.4, 3), (2.6, 4)):
                got = fields_of(short, wi, mk(spinpol=sp), {}).get("spinmult")
                if got != want:
                    return f"spin polarisation {sp} gives multiplicity {got!r}, expected {want}"
            # no spin information: the documented default, whatever else is known about the object (an odd electron
            # count, a charge, core charges)
            for kw_ in ({"nelec": 9.0}, {"nelec": 10.0}, {"nelec": 9.0, "charge": None, "_atcorenums": np.array([8.0, 1.0])}, {"charge": 1.0}):
                got = fields_of(short, wi, mk(spinpol=None, **kw_), {}).get("spinmult")
                if got != 1:
                    return f"an object without spin polarisation ({', '.join(f'{k}={v!r}' for k, v in kw_.items() if not k.startswith('_'))}) gets multiplicity {got!r}, documented default 1"
            # derived values: with orbitals the spin polarisation / electron count are those of the orbitals, with core
            # charges the charge is their sum minus the electrons -- whatever the hidden stored values say
            mo = Rec(mo_cls, kind="unrestricted", norba=5, norbb=5, occs=np.array([1.0] * 5 + [1.0, 1.0, 1.0, 0.0, 0.0]), coeffs=None, energies=None, irreps=None, occs_aminusb=None)  # 8 electrons, spin polarisation 2
            d = fields_of(short, wi, mk(mo=mo, spinpol=None, charge=None, _atcorenums=np.array([8.0, 1.0, 1.0])), {})
            if d.get("spinmult") != 3:
                return f"orbitals with spin polarisation 2 give multiplicity {d.get('spinmult')!r}, expected 3 (the stored `_spinpol` is not the spin polarisation when orbitals are present)"
            if d.get("charge") != 2:
                return f"core charges 10 and 8 electrons give charge {d.get('charge')!r}, expected 2 (the stored `_charge` is not the charge when it can be derived)"
            return None
        run(rid_round, f"{short}: charge rounded to the nearest integer (0 when unknown), multiplicity = round(|spinpol|) + 1 (1 when unknown) over 14 values", f)

        # ---- defaults, run types
        def f(short=short, wi=wi):
            d = fields_of(short, wi, mk(lot=None, obasis_name=None, title=None, run_type=None), {})
            for k, v in DEFAULTS[short].items():
                if d.get(k) != v:
                    return f"default {k} is {d.get(k)!r}, documented {v!r}"
            if not (isinstance(d.get("title"), str) and d.get("title")):
                return f"default title is {d.get('title')!r}"
            if d.get("run_type") != RUN[short]["energy"]:
                return f"default run type keyword is {d.get('run_type')!r}, documented {RUN[short]['energy']!r}"
            d = fields_of(short, wi, mk(), {})
            if (d.get("lot"), d.get("obasis_name"), d.get("title")) != ("B3LYP", "def2", "T"):
                return f"the object's lot / basis / title are not used: {(d.get('lot'), d.get('obasis_name'), d.get('title'))}"
            d = fields_of(short, wi, mk(title=""), {})
            if d.get("title") != "":
                return f"an empty title of the object is replaced by {d.get('title')!r} (only a missing title gets the default)"
            return None
        run(rid_defaults, f"{short}: level of theory, basis and title of the object, else the documented defaults {DEFAULTS[short]}", f)

        def f(short=short, wi=wi):
            table = RUN[short]
            for rt in sorted(table):
                for spelled in (rt, rt.upper(), rt.title()):
                    got = fields_of(short, wi, mk(run_type=spelled), {}).get("run_type")
                    if got != table[rt]:
                        return f"run type {spelled!r} gives keyword {got!r}, documented {table[rt]!r}"
            for bogus in sorted((set(GAUSSIAN_RUN) | {"bogus", "optimize"}) - set(table)):
                try:
                    got = fields_of(short, wi, mk(run_type=bogus), {}).get("run_type")
                except Raised:
                    continue
                return f"run type {bogus!r}, for which {short} has no keyword, is silently written as {got!r} instead of failing (WriteInputError)"
            return None
        run(rid_defaults, f"{short}: run-type keywords {RUN[short]} (case-insensitive); a run type without keyword is a rendering failure", f)

        # ---- precedence
        def f(short=short, wi=wi):
            kw = {"charge": 0, "spinmult": 5, "title": "", "lot": "", "obasis_name": "x", "run_type": "mine", "custom_field": 0, "other": "v"}
            d = fields_of(short, wi, mk(charge=-1.0, spinpol=1.0, run_type="opt"), kw)
            for k, v in kw.items():
                if k not in d or d[k] != v or type(d[k]) is not type(v):
                    return f"keyword argument {k}={v!r} is not used: the field is {d.get(k, '<missing>')!r}"
            return None
        run(rid_prec, f"{short}: every keyword argument (including 0 and '') ends up in the field dictionary, overriding object values and defaults", f)

        def f(short=short, wi=wi):
            d0 = mk()
            fields_of(short, wi, d0, {})
            if last.get("fh") is not fh_marker or last.get("data") is not d0:
                return "the file handle / the object are not passed through to write_input_base"
            if not (isinstance(last.get("template"), str) and "{" in last.get("template")):
                return f"without a user template the base gets {str(last.get('template'))[:40]!r} instead of the module's default template"
            if not (isinstance(last.get("atom_line"), tuple) and last["atom_line"][0] == "<function>" and last["atom_line"][1].module is wi.module):
                return "without a user atom_line the base does not get the module's default atom-line function"
            marker = ("<function>", "user")
            for tmpl, al_ in (("MY {title}", marker), (None, marker), ("MY {title}", None)):
                fields_of(short, wi, mk(), {}, extra_pos=(tmpl, al_))
                if tmpl is not None and last.get("template") != tmpl:
                    return f"a user template is replaced by {str(last.get('template'))[:40]!r}"
                if al_ is not None and last.get("atom_line") is not marker:
                    return "a user atom_line callback is dropped" + (" when no template is given" if tmpl is None else "")
                if tmpl is None and not (isinstance(last.get("template"), str) and "{" in last.get("template")):
                    return "without a user template (but with a user atom_line) the default template is not used"
                if al_ is None and not (isinstance(last.get("atom_line"), tuple) and last["atom_line"][0] == "<function>" and last["atom_line"] is not marker):
                    return "without a user atom_line (but with a user template) the default atom-line function is not used"
            return None
        run(rid_prec, f"{short}: user template and atom-line callback are used as given; the module defaults only when they are None", f)

        def f(short=short, wi=wi):
            # two calls in one module state: what the first call was given must not show in the second
            ev = AccessorEval(prog, iocls)
            fields_of(short, wi, mk(charge=1.0, spinpol=1.0, title="first"), {"charge": 3, "spinmult": 4, "title": "FIRST", "only_first": "x"}, ev=ev)
            second = fields_of(short, wi, mk(title="second"), {}, ev=ev)
            fresh = fields_of(short, wi, mk(title="second"), {})
            for k in sorted(set(second) | set(fresh), key=str):
                if k in ("geometry",):
                    continue
                a, b = second.get(k, "<missing>"), fresh.get(k, "<missing>")
                same = a is b or (type(a) is type(b) and not isinstance(a, (Rec, np.ndarray)) and a == b) or (isinstance(a, (Rec, np.ndarray)) and isinstance(b, type(a)))
                if not same:
                    return f"field `{k}` of a second call is {a!r}; the same call in a fresh process gives {b!r} (state of an earlier call leaks into the field dictionary)"
            return None
        run(rid_prec, f"{short}: the field dictionary of a call depends on that call only (a second call in the same process gives the fields of a first call)", f)
    ctx.floor(rid_prec, nprog, 2, "input writers")


def check_default_templates(ctx, rid):
    """The default template of each program, rendered with marker values, has the line / token structure the
    program's input syntax requires (frozen in spec/templates.json): every field once, charge before multiplicity, the
    method/basis separator, the geometry on its own lines, the block terminators."""
    import json
    import os
    import string

    from ..consteval import ConstEval, NotConstant

    prog = ctx.prog
    with open(os.path.join(os.path.dirname(os.path.dirname(os.path.dirname(os.path.abspath(__file__)))), "spec", "templates.json")) as fh:
        spec = json.load(fh)
    markers = spec["markers"]
    ce = ConstEval(prog)
    n = 0
    for short, m in prog.input_modules().items():
        if short not in spec:
            ctx.violate(rid, f"input writer `{short}` has no frozen template structure in spec/templates.json", relpath=m.relpath, function=m.name, construct=f"{short}: no template spec")
            continue
        try:
            tmpl = ce.global_value(m, "default_template")
        except (NotConstant, KeyError) as exc:
            raise AnalysisError(f"{m.name}.default_template is not a constant: {exc}") from exc
        if not isinstance(tmpl, str):
            raise AnalysisError(f"{m.name}.default_template is not a string")
        n += 1
        fields = [fname for _, fname, _, _ in string.Formatter().parse(tmpl) if fname is not None]
        where = f"{m.relpath}:{m.bindings['default_template'].stmt.lineno}" if "default_template" in m.bindings else m.relpath
        if sorted(fields) != sorted(markers):
            extra = sorted(set(fields) - set(markers))
            missing = sorted(set(markers) - set(fields))
            dup = sorted({f for f in fields if fields.count(f) > 1})
            ctx.violate(rid, f"{short} default template: fields {fields}; " + "; ".join(x for x in (f"missing {missing}" if missing else "", f"unknown {extra}" if extra else "", f"repeated {dup}" if dup else "") if x), relpath=m.relpath, function=f"{m.name}.default_template", construct=f"{short} template fields {sorted(fields)}")
            continue
        text = tmpl.format(**markers)
        lines = [ln.split() for ln in text.split("\n")]
        if text.endswith("\n"):
            lines = lines[:-1]
        # `* xyz` and `*xyz` are the same ORCA token
        lines = [(["*xyz"] + ln[2:]) if ln[:2] == ["*", "xyz"] else ln for ln in lines]
        want = spec[short]
        ok = len(lines) == len(want) and all(len(a) == len(b) and all(x == y or (y.endswith("*") and len(y) > 1 and x.startswith(y[:-1])) for x, y in zip(a, b)) for a, b in zip(lines, want))
        if ok:
            ctx.ok(rid, f"{short} default template: {len(want)} lines with the structure the program's input syntax requires", where)
        else:
            k = next((i for i, (a, b) in enumerate(zip(lines, want)) if not (len(a) == len(b) and all(x == y or (y.endswith('*') and len(y) > 1 and x.startswith(y[:-1])) for x, y in zip(a, b)))), min(len(lines), len(want)))
            ctx.violate(rid, f"{short} default template: line {k + 1} renders as {lines[k] if k < len(lines) else '<missing>'}, the {short} input syntax needs {want[k] if k < len(want) else '<nothing more>'} (markers: lot, basis, run type, title, charge -1, multiplicity 3)", relpath=m.relpath, function=f"{m.name}.default_template", construct=f"{short} template line {k + 1}: {lines[k] if k < len(lines) else None}")
    ctx.floor(rid, n, 2, "default templates")


def check_rendering(ctx, rid):
    """`write_input_base` on a model output file: the template is rendered once with the final field dictionary (the
    geometry being one atom line per atom, in order, joined by newlines) and the text is written to the given file."""
    from ..accessors import TextSink

    prog = ctx.prog
    base = input_base(prog)
    iocls = prog.cls("iodata.iodata.IOData")
    f = {name: None for name in iocls.fields}
    f.update(title="T", atnums=np.array([17, 1, 8]), atcoords=np.zeros((3, 3)), _charge=-1.0, _spinpol=2.0, extra={}, atcharges={}, atffparams={}, moments={}, one_rdms={}, two_rdms={})
    data = Rec(iocls, **{k: v for k, v in f.items() if k in iocls.fields})
    calls = []

    def atom_line(args, kw):
        calls.append((args[0], int(args[1])))
        return f"ATOM{int(args[1])}"

    sink = TextSink()
    ev = AccessorEval(prog, iocls, limit=4000)
    ev.module = base.module
    template = "A {title}|{charge}|{spinmult}|{mine}\n{geometry}\nEND"
    try:
        ev.run_free(base, [sink, data, template, ("<function>", atom_line), {"mine": "USER"}], {})
    except Raised as exc:
        ctx.violate(rid, f"write_input_base raises {exc.args[0]} on a plain object with a valid template", base, base.node, construct="write_input_base raises")
        return
    except NotSymbolic as exc:
        raise AnalysisError(f"write_input_base is outside the evaluation whitelist: {exc}") from exc
    want = "A T|-1|3|USER\nATOM0\nATOM1\nATOM2\nEND\n"
    where = f"{base.module.relpath}:{base.lineno}"
    if [c[1] for c in calls] != [0, 1, 2] or any(c[0] is not data for c in calls):
        ctx.violate(rid, f"write_input_base calls the atom-line function for atoms {[c[1] for c in calls]} (expected 0, 1, 2 with the object itself)", base, base.node, construct="atom_line calls")
    elif sink.text != want:
        ctx.violate(rid, f"write_input_base writes {sink.text!r} to the file, the rendered template is {want!r}", base, base.node, construct=f"rendered text: {sink.text[:60]!r}")
    else:
        ctx.ok(rid, "write_input_base: the template rendered with the final fields (one atom line per atom, in order) is written once to the given file", where)
    # the API passes the file, the object, template, atom_line and the keyword arguments through unchanged
    wi = prog.func("iodata.api.write_input")
    calls_ = [cs for cs in wi.calls if any(g.name == "write_input" and g.module.name.startswith("iodata.inputs.") for g in cs.callees) or (isinstance(cs.node.func, ast.Attribute) and cs.node.func.attr == "write_input")]
    if len(calls_) != 1:
        raise AnalysisError(f"api.write_input: expected one call of the input module's write_input, found {len(calls_)}")
    c = calls_[0].node
    kws = {k.arg: src_of(k.value) for k in c.keywords}
    pos = [src_of(a) for a in c.args]
    okf = len(pos) >= 2 and pos[1] == wi.posparams[0] and kws.get("template", pos[2] if len(pos) > 2 else None) == "template" and kws.get("atom_line", pos[3] if len(pos) > 3 else None) == "atom_line" and kws.get(None) == "kwargs"
    if okf:
        ctx.ok(rid, "api.write_input forwards the object, template, atom_line and **kwargs under their own names", f"{wi.module.relpath}:{c.lineno}")
    else:
        ctx.violate(rid, f"api.write_input calls the input module as `{src_of(c)[:90]}`: the object, `template`, `atom_line` and `**kwargs` must be forwarded under their own names", wi, c)


def check_geometry_lines(ctx, rid):
    """The shared rendering routine interpreted on model objects with 0, 1 and 4 atoms and a recording atom-line
    function: the `{geometry}` field of the rendered text is exactly one line per atom, in order, each produced by
    calling the atom-line function with the object itself and the atom's index."""
    from ..accessors import TextSink

    prog = ctx.prog
    base = input_base(prog)
    iocls = prog.cls("iodata.iodata.IOData")
    for natom in (4, 1, 0):
        f = {name: None for name in iocls.fields}
        # element numbers include a ghost centre (0) and a repeated element: no atom is filtered or merged
        f.update(title="T", atnums=np.array([8, 0, 1, 1][:natom]), atcoords=np.zeros((natom, 3)), extra={}, atcharges={}, atffparams={}, moments={}, one_rdms={}, two_rdms={})
        data = Rec(iocls, **{k: v for k, v in f.items() if k in iocls.fields})
        calls = []

        def atom_line(args, kw, calls=calls):
            calls.append((args[0], int(args[1])))
            return f"<atom {int(args[1])}>"

        sink = TextSink()
        ev = AccessorEval(prog, iocls, limit=4000)
        ev.module = base.module
        try:
            ev.run_free(base, [sink, data, "[{geometry}]", ("<function>", atom_line), {}], {})
        except Raised as exc:
            ctx.violate(rid, f"{base.name} raises {exc.args[0]} for an object with {natom} atom(s)", base, base.node, construct=f"geometry lines: raises for {natom} atoms")
            return
        except NotSymbolic as exc:
            raise AnalysisError(f"{base.qualname} is outside the evaluation whitelist: {exc}") from exc
        want = "[" + "\n".join(f"<atom {i}>" for i in range(natom)) + "]\n"
        if [c[1] for c in calls] != list(range(natom)) or any(c[0] is not data for c in calls):
            ctx.violate(rid, f"{base.name}: the atom-line function is called for atoms {[c[1] for c in calls]} of an object with {natom} atoms (expected each index once, in order, with the object itself)", base, base.node, construct="geometry lines: atom_line calls")
            return
        if sink.text != want:
            ctx.violate(rid, f"{base.name}: the geometry of {natom} atom(s) is rendered as {sink.text!r}, expected {want!r} (one line per atom, newline-joined)", base, base.node, construct="geometry lines: text")
            return
    ctx.ok(rid, f"{base.name}: the geometry field is one atom line per atom, in order, for 0, 1 and 4 atoms (atom-line function called with the object and each index once)", base.where)


def check_default_atom_lines(ctx, rid):
    """For every program: `write_input` interpreted without an `atom_line` argument hands a default atom-line function
    to the shared routine; that function, interpreted on a model object (angstrom standing for 2), gives the element
    symbol followed by x, y, z of that atom divided by angstrom."""
    prog = ctx.prog
    base = input_base(prog)
    iocls = prog.cls("iodata.iodata.IOData")
    al = base.posparams[3]
    A = 2.0
    nprog = 0
    for short, m in sorted(prog.input_modules().items()):
        wi = prog.funcs.get(f"{m.name}.write_input")
        if wi is None:
            continue
        nprog += 1
        f = {name: None for name in iocls.fields}
        # (the second atom lies thousands of angstrom away, with negative coordinates: columns of a fixed width must
        # still be separated -- a large periodic image or a dissociated fragment is a legal geometry)
        coords = np.array([[1.0, -2.5, 4.0], [-3000.5, -4001.0, -2469.135782], [3.0, 6.0, 9.0]])
        # effective core charges differ from the atomic numbers: the symbol is the element's, not the core charge's
        f.update(title="T", atnums=np.array([17, 1, 8]), _atcorenums=np.array([7.0, 1.0, 6.0]), atcoords=coords, extra={}, atcharges={}, atffparams={}, moments={}, one_rdms={}, two_rdms={})
        data = Rec(iocls, **{k: v for k, v in f.items() if k in iocls.fields})
        captured = {}

        def stub(args, kw, captured=captured):
            bound = dict(zip(base.posparams, args))
            bound.update(kw)
            captured["atom_line"] = bound.get(al)

        try:
            ev = AccessorEval(prog, iocls, limit=8000)
            ev.module = wi.module
            ev.stubs = {base.qualname: stub}
            ev.run_free(wi, [object(), data], {})
            fn = captured.get("atom_line")
            if not (isinstance(fn, tuple) and fn and fn[0] == "<function>"):
                ctx.violate(rid, f"{short}.write_input without an atom_line argument hands `{fn!r}` to {base.name} instead of a default atom-line function", wi, wi.node, construct=f"{short}: no default atom line")
                continue
            lines = []
            for i in range(3):
                ev2 = AccessorEval(prog, iocls, limit=4000)
                ev2.module = fn[1].module if hasattr(fn[1], "module") else wi.module
                ev2._globals = {("iodata.utils", "angstrom"): A}
                lines.append(fn[1]([data, i], {}) if callable(fn[1]) else ev2.run_free(fn[1], [data, i], {}))
        except Raised as exc:
            ctx.violate(rid, f"{short}: the default atom line raises {exc.args[0]} on a plain object", wi, wi.node, construct=f"{short}: default atom line raises")
            continue
        except NotSymbolic as exc:
            raise AnalysisError(f"{short}.write_input / its default atom line are outside the evaluation whitelist: {exc}") from exc
        bad = None
        for i, (line, sym) in enumerate(zip(lines, ["Cl", "H", "O"])):
            toks = line.split() if isinstance(line, str) else []
            try:
                vals = [float(t) for t in toks[1:4]]
            except ValueError:
                vals = None
            want = (coords[i] / A).tolist()
            if len(toks) != 4 or toks[0] != sym:
                bad = f"atom {i} ({sym} at {coords[i].tolist()} bohr) is written as {line!r}: expected the element symbol and three coordinates"
            elif vals is None or any(abs(a_ - b_) > 1e-5 for a_, b_ in zip(vals, want)):
                bad = f"atom {i} ({sym} at {coords[i].tolist()} bohr, angstrom = {A:g}) is written with coordinates {vals}, expected x y z / angstrom = {want}"
            if bad:
                break
        if bad:
            ctx.violate(rid, f"{short}: default atom line: {bad}", wi, wi.node, construct=f"{short}: default atom line: {bad}"[:160])
        else:
            ctx.ok(rid, f"{short}: the default atom line is `symbol x y z` with the coordinates of that atom divided by angstrom", wi.where)
    ctx.floor(rid, nprog, 2, "input modules")
