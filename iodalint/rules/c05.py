"""C05 -- Molden/Molekel files from quirky programs: control structure of the correction cascade."""

from __future__ import annotations

import ast

from .. import AnalysisError
from ..absint import Interp, State
from ..astutil import attr_chain, bind_call, deref, names_in, raises_class, walk_stmts
from ..cfg import EXIT, cfg_of
from ..consteval import ConstEval
from ..domains.ownership import OwnDomain
from ..model import src_of
from ..schema import scalar_attr_names

PROP = "C05"
LEVEL = "other"
TECHNIQUE = "static analysis: CFG must-pass-through and control dependence on the correction cascade, def-use agreement between the values checked and the values stored, ownership analysis of the correction helpers"
EXPLANATION = (
    "Static decision of the structural clauses of C05: (R1) both the Molden and the Molekel loader pass "
    "the dict they return through the fix-up cascade on every path to a return; (R2) in the cascade every "
    "accepting return is control-dependent on the true branch of a norm check whose basis / coefficient "
    "arguments are exactly the values then stored into the result (or the untouched originals); (R3) the "
    "fall-through end of the cascade raises LoadError and no path leaves it normally otherwise; (R4) every "
    "correcting branch warns with a LoadWarning before returning, the no-correction branch neither warns "
    "nor writes; (R5) the per-shell factor lists of the PSI4/CFOUR corrections have the length of the "
    "Cartesian shell they scale (the ORCA convention table is checked under C10-R1); (R6) the correction "
    "helpers and the norm predicate never mutate the basis/coefficients they receive, so each vendor is "
    "tried on the original data.  Declined: that the right branch is taken for a given file, that the "
    "corrected orbitals are orthonormal, the numerical content of the vendor factors."
)
TECHNIQUE += '; CFG must-pass of the per-shell correction'
EXPLANATION += ' Added: (R7) in every basis-correction helper each iteration of the per-shell loop reaches the statement that corrects the coefficients (no continue/break path around it).'
TECHNIQUE += '; symbolic evaluation of the norm expression'
EXPLANATION += ' Added: (R8) the quantity whose deviation from 1 is compared with the threshold evaluates, on symbolic coefficients and overlap, to the quadratic form c^T S c for every orbital, the deviations are accumulated with max() and the verdict is `max deviation <= norm_threshold`.'
TECHNIQUE += '; evaluation of the correction cascade with scripted predicate outcomes'
EXPLANATION += " Added: (R9) the cascade as a whole is interpreted with a scripted norm predicate and stubbed correction helpers in ~20 scenarios (restricted / unrestricted x which attempt first passes x none x optional helpers not applicable): stored basis and coefficients are the ones that passed the check made with the caller's threshold, a warning iff corrected, LoadError when nothing helps."
TRUSTED = ["CPython ast parser", "copy.deepcopy / attrs.evolve return new objects"]
EXPLANATION += " Added: (R10) each basis-correction helper, evaluated on abstract two-primitive shells, rescales every primitive of a shell it touches or none; (R11) the Molden reader's tag branch gives every tag line the meaning the format assigns (finite-domain evaluation)."
TECHNIQUE += '; accessor evaluation of the correction helpers; finite-domain evaluation of the tag branch'
# --- metadata added for batch 7
TECHNIQUE += '; decision-table evaluation of the norm predicate with a stub overlap matrix; vendor factor table evaluated per shell type'
EXPLANATION += ' Changed / added: (R8) the norm predicate is no longer matched against a loop template: it is interpreted with compute_overlap standing for a fixed non-diagonal matrix on 15 orbital sets whose S-norms are known by construction (each spin, first / last orbital, too large / too small, both thresholds, square-root and square scale, identity-normalised) -- a vectorised rewrite stays silent, a verdict that looks at one spin block only is reported; (R10) vendor corrections rescale every primitive with the documented factor and direction per shell type; (R12) the [Atoms] unit keyword (C04-R6); (R13) a pure-function tag that follows [MO] survives the orbital reader (the evaluated clause C01-R15).'
# --- end metadata batch 7
# --- metadata added for batch 8
EXPLANATION += ' Added: (R14, R15) the shells sit on the nuclei the file says: Molden [GTO] block numbers and Molekel `$$` separators, reader against writer (C01-R19 / R12).'
# --- end metadata batch 8
# --- metadata added after the round-3 refactoring twins
EXPLANATION += " A module function the cascade calls as a bare statement (a procedure that stores the accepted values) is interpreted with the cascade in R9 instead of being stubbed as a correction helper; R2's store template defers to R9 there."
# --- end metadata round-3 twins
# --- metadata added after the round-4 refactoring twins
TECHNIQUE += '; evaluation of the correction helpers per shell type and contraction length'
EXPLANATION += ' R5: every helper that returns a factor vector is interpreted on a one-shell basis for every shell type; the vector must have one entry per function. R7: a path that bypasses the correction is accepted only if, evaluated on contractions of 1, 2 and 3 primitives per type, the helper rescales the same shell types each time and each touched shell as a whole (the bypass depends on the shell type only).'
# --- end metadata round-4 twins
# --- metadata added for batch 9
EXPLANATION += ' Added: (R16) every orbital of a Molden [MO] section goes to the spin block its own Spin= label names (section reader on a model stream with alpha, beta, alpha).'
# --- end metadata batch 9


def static_len(e):
    """Length of a list expression built from list displays, `*` by int constants and `+`."""
    if isinstance(e, (ast.List, ast.Tuple)):
        if any(isinstance(x, ast.Starred) for x in e.elts):
            return None
        return len(e.elts)
    if isinstance(e, ast.BinOp) and isinstance(e.op, ast.Add):
        a, b = static_len(e.left), static_len(e.right)
        return None if a is None or b is None else a + b
    if isinstance(e, ast.BinOp) and isinstance(e.op, ast.Mult):
        for lst, k in ((e.left, e.right), (e.right, e.left)):
            n = static_len(lst)
            if n is not None and isinstance(k, ast.Constant) and isinstance(k.value, int):
                return n * k.value
    return None


def run(ctx):
    prog = ctx.prog
    ctx.clauses_decided = ["R1 both loaders go through the cascade", "R2 accept only after a norm check of the stored values", "R3 unfixable => LoadError", "R4 every correction is announced", "R5 vendor factor lists well-formed", "R6 corrections copy", "R7 every shell reaches the correction", "R8 norm expression (symbolic)", "R9 cascade semantics (evaluated)", "R10 helper uniformity (evaluated)", "R11 Molden tag meaning (finite-domain evaluation)", "R12 Molden [Atoms] unit keyword (evaluated)"]
    ctx.clauses_declined = ["which branch a given file takes", "orthonormality of corrected orbitals", "numerical content of the vendor factors"]
    lo_molden = prog.func("iodata.formats.molden.load_one")
    lo_molekel = prog.func("iodata.formats.molekel.load_one")

    def callees(f):
        return {g.qualname: g for cs in f.calls for g in cs.callees if cs.cls is None}

    def is_cascade(g):
        """Takes the result dict first, raises LoadError at its end, calls a predicate in several if-tests."""
        return bool(g.body) and isinstance(g.body[-1], ast.Raise) and sum(1 for s in walk_stmts(g.body) if isinstance(s, ast.If)) >= 5

    common = sorted(q for q in (set(callees(lo_molden)) | set(callees(lo_molekel))) if is_cascade(prog.funcs[q]))
    if len(common) != 1:
        raise AnalysisError(f"cannot identify the fix-up cascade of the Molden / Molekel loaders (candidates: {common})")
    casc = prog.funcs[common[0]]

    # ------------------------------------------------------------------ R1
    ctx.rule("R1", "both loaders pass their result through the cascade", "a quirky file is returned uncorrected and unchecked")
    for lo in (lo_molden, lo_molekel):
        cfg = cfg_of(lo)
        pm = prog.parents(lo)
        calls = [cs for cs in lo.calls if casc in cs.callees]
        rets = [n for n in lo.own_nodes() if isinstance(n, ast.Return)]
        if not calls or not rets:
            ctx.violate("R1", f"{lo.qualname} does not call the fix-up cascade", lo, lo.node, construct="cascade call")
            continue
        for r in rets:
            okk = False
            if isinstance(r.value, ast.Name):
                for cs in calls:
                    a0 = cs.node.args[0] if cs.node.args else None
                    st = cs.node
                    while not isinstance(st, ast.stmt):
                        st = pm[id(st)]
                    if isinstance(a0, ast.Name) and a0.id == r.value.id and cfg.dominates(st, r):
                        # the variable is not rebound between the cascade call and the return
                        rebound = [n for n in lo.own_nodes() if isinstance(n, ast.Assign) and any(isinstance(t, ast.Name) and t.id == a0.id for t in n.targets) and n.lineno > st.lineno]
                        okk = not rebound
            if okk:
                ctx.ok("R1", f"{lo.module.short}.load_one: the returned dict was passed to {casc.name}", f"{lo.module.relpath}:{r.lineno}")
            else:
                ctx.violate("R1", f"{lo.module.short}.load_one returns a result that did not pass through {casc.name} on every path", lo, r)

    # ------------------------------------------------------------------ R2-R4
    ctx.rule("R2", "a result is accepted only after the norm check of exactly the values stored", "orbitals are accepted with a basis/coefficients other than the ones validated")
    ctx.rule("R3", "no known correction => LoadError", "a file no correction fixes is loaded wrongly")
    ctx.rule("R4", "every correction is announced by a LoadWarning", "a silently corrected file")
    cfg = cfg_of(casc)
    pm = prog.parents(casc)
    res = casc.posparams[0]
    # the norm predicate: the package function called in >= 4 `if` tests of the cascade
    counts = {}
    for st in walk_stmts(casc.body):
        if isinstance(st, ast.If):
            for cs in casc.calls:
                if cs.callees and cs.cls is None and any(cs.node is n for n in ast.walk(st.test)):
                    counts[cs.callees[0].qualname] = counts.get(cs.callees[0].qualname, 0) + 1
    if not counts or max(counts.values()) < 4:
        raise AnalysisError("cannot identify the norm predicate of the cascade")
    pred = prog.funcs[max(counts, key=counts.get)]
    # originals: locals bound from result[...]
    originals = {}
    for n in casc.own_nodes():
        if isinstance(n, ast.Assign) and len(n.targets) == 1 and isinstance(n.targets[0], ast.Name):
            v = n.value
            txt = src_of(v)
            if txt.startswith(f"{res}["):
                originals.setdefault(n.targets[0].id, []).append(txt)
            elif isinstance(v, ast.Constant) and v.value is None:
                originals.setdefault(n.targets[0].id, []).append("None")
    rets = [n for n in casc.own_nodes() if isinstance(n, ast.Return)]
    naccept = 0
    for r in rets:
        # innermost If with a predicate call in its test, r in its body
        cur, guard = r, None
        while id(cur) in pm:
            par = pm[id(cur)]
            if isinstance(par, ast.If) and any(cur is s for s in par.body):
                pc = [cs for cs in casc.calls if pred in cs.callees and any(cs.node is n for n in ast.walk(par.test))]
                if pc:
                    guard = (par, pc[0])
                    break
            cur = par
        if guard is None:
            ctx.violate("R2", "the cascade returns (accepts the data) without a norm check on that path", casc, r)
            continue
        naccept += 1
        ifst, pcs = guard
        # the predicate result must be required true: test is the call, or an `and` containing it
        t = ifst.test
        pos = (t is pcs.node) or (isinstance(t, ast.BoolOp) and isinstance(t.op, ast.And) and any(v is pcs.node for v in t.values))
        if not pos:
            ctx.violate("R2", "the accepting branch is not the true branch of the norm check", casc, ifst.test)
            continue
        b, extra, okb = bind_call(pcs.node, pred)
        pnames = pred.posparams
        a_ob, a_at, a_ca, a_cb = (b.get(pnames[i]) for i in range(4))
        a_thr = b.get(pnames[4]) if len(pnames) > 4 else None
        # stores in the accepting branch (the statements of the If body that contains r)
        branch = ifst.body
        stores = {"obasis": None, "ca": None, "cb": None}
        warned = False
        for st in walk_stmts(branch):
            if isinstance(st, ast.Assign) and len(st.targets) == 1:
                tt = src_of(st.targets[0])
                if tt == f"{res}['obasis']":
                    stores["obasis"] = st.value
                elif tt.startswith(f"{res}['mo'].coeffs") and tt.endswith("[:]"):
                    which = "cb" if "coeffsb" in tt else "ca"
                    stores[which] = st.value
                elif tt.startswith(f"{res}["):
                    ctx.violate("R2", f"the cascade overwrites `{tt}`, which is not one of the corrected quantities", casc, st)
            if isinstance(st, ast.Expr) and isinstance(st.value, ast.Call):
                c = st.value
                rw = prog.resolve_expr(casc, casc.module, c.func)
                if rw and rw[0] == "external" and rw[1] == "warnings.warn" and c.args and isinstance(c.args[0], ast.Call) and getattr(c.args[0].func, "id", "") == "LoadWarning":
                    warned = True

        def same(a, bnode):
            return a is not None and bnode is not None and src_of(a) == src_of(bnode)

        probs = []
        # a procedure of the module called in the accepting branch may do the storing: which values it stores is then
        # decided by the evaluated cascade (R9), not by this statement template
        stores_elsewhere = any(isinstance(st, ast.Expr) and isinstance(st.value, ast.Call) and any(cs.node is st.value and cs.callees and cs.callees[0].module is casc.module for cs in casc.calls) for st in walk_stmts(branch))
        ob_orig = isinstance(a_ob, ast.Name) and a_ob.id in originals and originals[a_ob.id] == [f"{res}['obasis']"]
        if stores["obasis"] is not None:
            if not same(a_ob, stores["obasis"]):
                probs.append(f"stores basis `{src_of(stores['obasis'])}` but validated `{src_of(a_ob)}`")
        elif not ob_orig:
            probs.append(f"validated a corrected basis `{src_of(a_ob)}` but does not store it")
        for key, arg, nm in (("ca", a_ca, "alpha"), ("cb", a_cb, "beta")):
            is_orig = isinstance(arg, ast.Name) and arg.id in originals
            if stores[key] is not None:
                if not same(arg, stores[key]):
                    probs.append(f"stores {nm} coefficients `{src_of(stores[key])}` but validated `{src_of(arg)}`")
            elif not is_orig and not stores_elsewhere:
                probs.append(f"validated corrected {nm} coefficients `{src_of(arg)}` but does not store them")
        # corrected values must be derived from the matching original (alpha from alpha, beta from beta)
        def deps(arg):
            out, todo, seen = set(), [arg], set()
            while todo:
                e = todo.pop()
                for nm in names_in(e):
                    if nm in originals:
                        out.add(nm)
                    elif nm in casc.locals and nm not in seen:
                        seen.add(nm)
                        for n2 in casc.own_nodes():
                            if isinstance(n2, ast.Assign) and any(isinstance(t2, ast.Name) and t2.id == nm for t2 in n2.targets):
                                todo.append(n2.value)
            return out

        orig_alpha = [k for k, v in originals.items() if any("coeffs" in x for x in v) and not k.endswith("b")]
        orig_beta = [k for k, v in originals.items() if (any("coeffsb" in x for x in v) or "None" in v) and k not in orig_alpha]
        orig_basis = [k for k, v in originals.items() if v == [f"{res}['obasis']"]]
        for arg, mine, other, nm in ((a_ca, orig_alpha, orig_beta, "alpha"), (a_cb, orig_beta, orig_alpha, "beta")):
            if isinstance(arg, ast.Name) and arg.id not in originals:
                dd = deps(arg)
                if not (dd & set(mine)) or (dd & set(other)):
                    probs.append(f"corrected {nm} coefficients `{src_of(arg)}` are derived from {sorted(dd - set(orig_basis))}, not from the loaded {nm} coefficients")
        if isinstance(a_ob, ast.Name) and a_ob.id not in originals:
            dd = deps(a_ob)
            if not (dd & set(orig_basis)):
                probs.append(f"corrected basis `{src_of(a_ob)}` is not derived from the loaded basis")
        if stores["ca"] is not None and stores["cb"] is None and not (isinstance(a_cb, ast.Name) and a_cb.id in originals and "None" in originals[a_cb.id] and len(originals[a_cb.id]) > 1):
            # restricted/unrestricted split: beta store may sit in an else branch -- already collected by walk_stmts
            pass
        if not (isinstance(a_at, ast.Name) and a_at.id in originals):
            probs.append(f"geometry argument `{src_of(a_at)}` is not the loaded atcoords")
        if a_thr is not None and not (isinstance(a_thr, ast.Name) and a_thr.id in casc.params):
            probs.append(f"threshold `{src_of(a_thr)}` is not the caller's norm_threshold")
        if a_thr is None and len(pnames) > 4:
            probs.append("the caller's norm_threshold is not passed to the norm check")
        where = f"{casc.module.relpath}:{ifst.lineno}"
        if probs:
            ctx.violate("R2", "accepting branch: " + "; ".join(probs), casc, ifst.test)
        else:
            ctx.ok("R2", f"accept after {pred.name}({src_of(a_ob)}, .., {src_of(a_ca)}, {src_of(a_cb)}) == values stored", where)
        corrected = any(v is not None for v in stores.values()) or not ob_orig
        if corrected:
            if warned:
                ctx.ok("R4", f"correction `{src_of(a_ob)}`/`{src_of(a_ca)}` announced by warn(LoadWarning)", where)
            else:
                ctx.violate("R4", "a correcting branch returns without warn(LoadWarning(...))", casc, ifst.test)
        else:
            if warned:
                ctx.violate("R4", "the no-correction branch warns although nothing was corrected", casc, ifst.test)
            else:
                ctx.ok("R4", "standard-conforming data: accepted without warning or write", where)
    ctx.floor("R2", naccept, 6, "accepting returns of the cascade")
    # R3
    last = casc.body[-1]
    if isinstance(last, ast.Raise) and raises_class(last) == "LoadError":
        ctx.ok("R3", "the cascade ends in raise LoadError", f"{casc.module.relpath}:{last.lineno}")
    else:
        ctx.violate("R3", "the end of the cascade is not `raise LoadError` (an unfixable file would be returned)", casc, last)
    normal = [(a, lab) for a, lab in cfg.pred[EXIT] if lab != "return"]
    if normal:
        ctx.violate("R3", "the cascade can fall off its end without raising", casc, casc.body[-1], construct="fall-through exit")
    else:
        ctx.ok("R3", f"all {len(cfg.pred[EXIT])} normal exits of the cascade are explicit accepting returns", casc.where)
    for r in rets:
        if r.value is not None and not (isinstance(r.value, ast.Constant) and r.value.value is None):
            ctx.note(f"cascade returns a value at line {r.lineno}")

    # ------------------------------------------------------------------ R5
    ctx.rule("R5", "vendor factor lists have the length of the shell they scale", "a correction mis-aligned with the basis functions (or an AssertionError on every file)")
    # correction helpers: module functions whose *result* the cascade uses; a function called as a bare statement (a
    # procedure that stores the accepted values) is part of the cascade itself and is interpreted with it in R9
    bare = {id(st.value) for st in walk_stmts(casc.body) if isinstance(st, ast.Expr) and isinstance(st.value, ast.Call)}
    helpers = [g for cs in casc.calls for g in cs.callees if cs.cls is None and g is not pred and id(cs.node) not in bare]
    # decided by evaluation: every helper that returns a vector of factors for the coefficient rows is interpreted on
    # a basis of one shell, for every shell type; the vector must have one entry per function of that shell (a list of
    # another length trips the helper's own size check or mis-aligns the rows)
    import numpy as np

    from ..accessors import AccessorEval, Raised, Rec
    from ..symarr import NotSymbolic

    shell_cls = prog.cls("iodata.basis.Shell")
    basis_cls = prog.cls("iodata.basis.MolecularBasis")
    nf = 0
    for h in {g.qualname: g for g in helpers}.values():
        if "coeffs" not in h.name or len(h.posparams) != 1:
            continue
        for l in range(0, 6):
            for kind in ("c", "p"):
                if kind == "p" and l < 2:
                    continue
                want = (l + 1) * (l + 2) // 2 if kind == "c" else 2 * l + 1
                sh_ = Rec(shell_cls, icenter=0, angmoms=np.array([l]), kinds=[kind], exponents=np.array([1.0]), coeffs=np.array([[1.0]]))
                ev = AccessorEval(prog, shell_cls, limit=4000)
                ev.module = h.module
                try:
                    out = ev.run_free(h, [Rec(basis_cls, shells=[sh_], conventions={}, primitive_normalization="L2")], {})
                except Raised as exc:
                    ctx.violate("R5", f"{h.name}: for a shell with l={l} ({kind}, {want} functions) the helper raises {exc.args[0]}: its factor list does not have one entry per function", h, h.node, construct=f"{h.name}: factor list l={l}{kind}")
                    continue
                except NotSymbolic as exc:
                    raise AnalysisError(f"{h.qualname} is outside the evaluation whitelist: {exc}") from exc
                nf += 1
                if out is None:
                    continue
                n = int(np.asarray(out).size)
                if n == want:
                    ctx.ok("R5", f"{h.name}: l={l} ({kind}) factors have {n} entries", f"{h.module.relpath}:{h.lineno}", sample=(l == 2))
                else:
                    ctx.violate("R5", f"{h.name}: factor list for l={l} ({kind}) has {n} entries, the shell has {want} functions", h, h.node, construct=f"{h.name}: factor list l={l}{kind}")
    ctx.floor("R5", nf, 6, "factor lists")

    # ------------------------------------------------------------------ R6
    ctx.rule("R6", "correction helpers do not mutate their input", "a later vendor is tried on data already altered by an earlier attempt")
    scalars = scalar_attr_names(prog) | {"nbasis", "norb"}
    for h in {g.qualname: g for g in helpers + [pred]}.values():
        roots = set(h.posparams)
        dom = OwnDomain(prog, roots={h.qualname: roots}, scalar_attrs=scalars)
        it = Interp(prog, dom)
        it.run_function(h, {}, State())
        if dom.sinks:
            for func, node, kind, tag, detail, stack in dom.sinks[:3]:
                ctx.violate("R6", f"{h.name} mutates the data it receives: {detail}", func, node, witness=stack, entry=h.qualname)
        else:
            ctx.ok("R6", f"{h.name}({', '.join(sorted(roots))}) builds on copies: no mutation of its arguments", h.where)
    ctx.floor("R6", len(helpers), 5, "correction helpers")

    # ------------------------------------------------------------------ R7
    ctx.rule("R7", "a basis correction reaches every shell", "some shells (e.g. uncontracted ones) keep the vendor's normalisation while the others are corrected: the orbitals no longer pass the norm check, or pass it with a wrong basis")
    from ..cfg import cfg_of as _cfg_of

    nfix = 0
    for h in {g.qualname: g for g in helpers}.values():
        loops = [n for n in h.own_nodes() if isinstance(n, ast.For) and isinstance(n.iter, ast.Attribute) and n.iter.attr == "shells"]
        if not loops:
            continue
        cfg = _cfg_of(h)
        for lp in loops:
            mods = []
            for top in lp.body:
                for x in ast.walk(top):
                    if isinstance(x, ast.AugAssign) and any(isinstance(y, ast.Attribute) and y.attr == "coeffs" for y in ast.walk(x.target)):
                        mods.append(top)
                        break
            if not mods:
                continue
            nfix += 1
            head = cfg.idx(lp)
            first = cfg.idx(lp.body[0])
            through = {cfg.idx(m) for m in mods}
            # paths from the start of the loop body back to the loop head (or out of the loop) that avoid the correction
            reach = cfg.reachable(first, avoid=through) if first not in through else set()
            skipping = [n for n in ast.walk(lp) if isinstance(n, (ast.Continue, ast.Break)) and cfg.idx(n) in reach and _innermost_loop(prog, h, n) is lp]
            if head in reach or skipping:
                node = skipping[0] if skipping else lp
                # a bypass is legitimate when it depends on the shell type only (a type this vendor writes correctly):
                # decided by evaluating the helper on abstract shells of 1, 2 and 3 primitives per type -- which types
                # are rescaled must not depend on the length of the contraction, and a touched shell is rescaled whole
                from ..accessors import Raised as _Raised
                from ..symarr import NotSymbolic as _NotSym
                from .c05_semantics import touched_pattern

                try:
                    pats = [touched_pattern(prog, h, np_) for np_ in (1, 2, 3)]
                except (_Raised, _NotSym):
                    pats = None
                uniform = pats is not None and all(p_ is not None and p_ for p_ in pats) and all(all(len(set(v)) == 1 for v in p_.values()) for p_ in pats) and len({tuple(sorted((k_, v[0]) for k_, v in p_.items())) for p_ in pats}) == 1
                if uniform:
                    ctx.ok("R7", f"{h.name}: shells that bypass the correction are selected by their type only (evaluated on contractions of 1, 2 and 3 primitives: the same types are rescaled, each as a whole)", f"{h.module.relpath}:{lp.lineno}")
                else:
                    ctx.violate("R7", f"{h.name}: a path through the per-shell loop bypasses the statement that corrects the coefficients (line {mods[0].lineno}); those shells are returned uncorrected next to corrected ones", h, node)
            else:
                ctx.ok("R7", f"{h.name}: every shell of the loop reaches the coefficient correction (line {mods[0].lineno})", f"{h.module.relpath}:{lp.lineno}")
    ctx.floor("R7", nfix, 4, "per-shell correction loops")
    check_norm_expression(ctx, pred)
    ctx.rule("R9", "the cascade as a whole: first passing correction wins, stored data = checked data, warning iff corrected, LoadError otherwise (evaluated)", "orbitals are accepted with a basis / coefficients other than the ones validated, silently corrected, or a broken file is loaded")
    from .c05_semantics import check_cascade_semantics

    check_cascade_semantics(ctx, "R9", casc, pred, list({g.qualname: g for g in helpers}.values()))
    ctx.rule("R10", "a basis correction rescales every primitive of a shell it touches (evaluated)", "only the first primitive of a contracted d/f/g shell is corrected: the intended correction fails its check and another one is applied under a wrong diagnosis")
    from .c05_semantics import check_helper_uniformity

    check_helper_uniformity(ctx, "R10", list({g.qualname: g for g in helpers}.values()))
    ctx.rule("R11", "Molden pure/Cartesian tag lines are read with the meaning the format assigns to them", "a [5D10F] file (pure d, Cartesian f, as several vendors write) gets f shells of the wrong size before any vendor correction is tried")
    from .c01 import check_molden_reader_tags

    check_molden_reader_tags(ctx, ConstEval(prog), "R11")
    ctx.rule("R16", "Molden [MO]: every orbital goes to the spin block its own Spin= label names, as a column (whole section reader on a model stream with alpha, beta, alpha)", "orbitals split by position instead of by label: a file that lists the orbitals by energy loads with alpha and beta mixed, each still normalised, so no correction of the cascade notices")
    from .indexmaps import check_index_maps as _cim

    _cim(ctx, "R16", ["molden_mo"])
    ctx.rule("R12", "Molden: the unit keyword of the [Atoms] line selects the coordinate factor (evaluated on every spelling)", "`[Atoms] (Angs)` coordinates are taken as bohr: all inter-atomic overlaps are wrong, no correction of the cascade passes and a standard-conforming file is rejected")
    from .c04 import check_molden_atoms_unit

    check_molden_atoms_unit(ctx, "R12")
    # the pure-function tags ([5D], [7F], [9G]) decide which functions the coefficients belong to; sections come in
    # any order, so a tag that follows [MO] must survive the orbital reader (the same evaluated clause as C01-R15)
    # ... and the shells have to sit on their own nuclei for any norm check to mean anything: the [GTO] / $BASIS centre
    # clauses (C01-R19 / R12, reader and writer evaluated against each other)
    ctx.borrow("c01", {"R15": "R13", "R19": "R14", "R12": "R15"})


def check_norm_expression(ctx, pred):
    """R8: the norm predicate as a decision table.  `_is_normalized_properly` is interpreted (iodalint.accessors) with
    `compute_overlap` standing for a fixed non-diagonal overlap matrix S, on orbital sets whose S-norms are known by
    construction: all normalised; one orbital (first / last, alpha / beta) off by more or less than the threshold, too
    large or too small; normalised for the identity instead of S.  However the routine is written (loop, einsum,
    matrix product), its verdict must be `max_j |c_j^T S c_j - 1| <= threshold` over every orbital of both spins."""
    import numpy as np

    from ..accessors import AccessorEval, Raised, Rec
    from ..symarr import NotSymbolic

    prog = ctx.prog
    ctx.rule("R8", "the norm test accepts exactly when every orbital of both spins has |c^T S c - 1| <= threshold (evaluated as a decision table)", "a norm computed on another scale, one spin block or one orbital left out, the overlap matrix ignored: files are accepted or rejected at another threshold than the requested one")
    co = prog.funcs.get("iodata.overlap.compute_overlap")
    if co is None:
        raise AnalysisError("iodata.overlap.compute_overlap not found")
    S = np.array([[1.0, 0.5, 0.0], [0.5, 1.0, 0.25], [0.0, 0.25, 1.0]])

    def normed(v, scale=1.0):
        v = np.array(v, dtype=float)
        return v / np.sqrt(v @ S @ v) * scale

    good = [normed([1, 0, 0]), normed([1, 1, 0]), normed([1, -2, 3])]
    def orbs(scales):
        return np.array([g * sc for g, sc in zip(good, scales)]).T.copy()
    eps = 1e-4
    up, down = np.sqrt(1 + 3 * eps), np.sqrt(1 - 3 * eps)  # deviation 3e-4
    near = np.sqrt(1 + 0.3 * eps)  # deviation 3e-5
    ident = np.array([[1, 0, 0], [1 / np.sqrt(2), 1 / np.sqrt(2), 0], [0, 0, 1]]).T.copy()
    ok3 = (1, 1, 1)
    cases = [
        ("all orbitals normalised, no beta", orbs(ok3), None, {}, True),
        ("all orbitals normalised, alpha and beta", orbs(ok3), orbs(ok3), {}, True),
        ("first alpha orbital 3e-4 too large", orbs((up, 1, 1)), None, {}, False),
        ("last alpha orbital 3e-4 too large", orbs((1, 1, up)), None, {}, False),
        ("middle alpha orbital 3e-4 too small", orbs((1, down, 1)), None, {}, False),
        ("alpha off, beta normalised", orbs((1, up, 1)), orbs(ok3), {}, False),
        ("alpha normalised, beta off", orbs(ok3), orbs((1, 1, down)), {}, False),
        ("deviation 3e-5 below the default threshold", orbs((near, 1, 1)), orbs((1, near, 1)), {}, True),
        ("deviation 3e-4 with norm_threshold=1e-3", orbs((up, 1, 1)), None, {"norm_threshold": 1e-3}, True),
        ("deviation 3e-5 with norm_threshold=1e-5", orbs((near, 1, 1)), None, {"norm_threshold": 1e-5}, False),
        ("normalised for the identity matrix, not for the overlap", ident, None, {}, False),
        ("one too large and one too small by the same amount", orbs((up, down, 1)), None, {}, False),
        # the scale of the tested quantity: the norm itself, not its square root (half the deviation) or square (twice)
        ("norm 1 + 1.5e-4 (its square root deviates by 0.75e-4 only)", orbs((1, np.sqrt(1 + 1.5 * eps), 1)), None, {}, False),
        ("norm 1 - 1.5e-4", orbs((1, 1, np.sqrt(1 - 1.5 * eps))), None, {}, False),
        ("norm 1 + 0.7e-4 (its square deviates by 1.4e-4)", orbs((np.sqrt(1 + 0.7 * eps), 1, 1)), None, {}, True),
    ]
    bad = None
    try:
        for label, a, b, kw, want in cases:
            ev = AccessorEval(prog, None, limit=20000)
            ev.module = pred.module
            ev.stubs = {co.qualname: lambda args, kw_: S.copy()}
            got = ev.run_free(pred, [Rec(None, marker="basis"), np.zeros((1, 3)), a, b], dict(kw))
            if isinstance(got, np.ndarray) and got.size == 1:
                got = bool(got.item())
            if not isinstance(got, (bool, np.bool_)):
                bad = (label, f"returns `{got!r}` instead of a verdict")
                break
            if bool(got) != want:
                bad = (label, f"is {'accepted' if got else 'rejected'}, expected {'accepted' if want else 'rejected'}")
                break
    except Raised as exc:
        ctx.violate("R8", f"{pred.name} raises {exc.args[0]} on a well-formed orbital set", pred, pred.node, construct="norm predicate raises")
        return
    except NotSymbolic as exc:
        raise AnalysisError(f"{pred.qualname} is outside the evaluation whitelist: {exc}") from exc
    if bad:
        ctx.violate("R8", f"{pred.name}: an orbital set with {bad[0]} {bad[1]} (overlap matrix with off-diagonal elements; the verdict must be max |c^T S c - 1| <= threshold over every orbital of both spins)", pred, pred.node, construct=f"norm predicate: {bad[0]}")
    else:
        ctx.ok("R8", f"{pred.name}: {len(cases)} orbital sets with known S-norms (each spin, first / last orbital, too large / too small, both thresholds, identity-normalised) get the verdict max |c^T S c - 1| <= threshold", f"{pred.module.relpath}:{pred.lineno}")


def _innermost_loop(prog, func, node):
    pm = prog.parents(func)
    cur = node
    while id(cur) in pm:
        cur = pm[id(cur)]
        if isinstance(cur, (ast.For, ast.While)):
            return cur
    return None
