"""Shell-to-atom assignment through the Molekel `$$` separators: writer fragment and reader evaluated against each other.

The Molekel basis block carries no atom index: the reader attaches a shell to atom k when k separator lines (`$$`)
precede it.  The writer's `$BASIS` loop is evaluated on abstract bases (accessor evaluator, model output file), the text
it produces is fed to the reader's basis routine (model LineIterator), and the centres, angular momenta and primitive
counts that come back are compared with what went in.  Nothing is executed from the repository; both fragments are
interpreted."""

from __future__ import annotations

import ast

import numpy as np

from .. import AnalysisError
from ..accessors import AccessorEval, Raised, Rec, TextSink
from ..symarr import NotSymbolic

# centres of the shells of the abstract bases: consecutive, repeated, with an atom that carries no functions in the
# middle / at the start (a dummy centre or bare nucleus; documented type: any index < natom), several in a row
CASES = {
    "every atom has shells": [0, 0, 1, 2],
    "two shells on the last atom": [0, 1, 1],
    "atom 1 carries no functions": [0, 2, 2],
    "atom 0 carries no functions": [1, 1],
    "atoms 0 and 1 carry no functions": [2],
    "atoms 1 and 2 carry no functions": [0, 3],
}


def check_molekel_centers(ctx, rid):
    prog = ctx.prog
    do = prog.format_op("molekel", "dump_one")
    rd = prog.funcs.get("iodata.formats.molekel._load_helper_obasis")
    if rd is None:
        raise AnalysisError("molekel._load_helper_obasis not found")
    shell_cls = prog.cls("iodata.basis.Shell")
    basis_cls = prog.cls("iodata.basis.MolecularBasis")
    iocls = prog.cls("iodata.iodata.IOData")
    licls = prog.cls("iodata.utils.LineIterator")
    # the writer fragment: the loop over the shells that writes the separator, with the assignments it depends on
    # (in dump_one itself or in a helper of the same module)
    loop = owner = None
    for g in [do] + [h for h in prog.callees_closure([do]) if h.module is do.module and h is not do]:
        for st in g.body:
            if isinstance(st, ast.For) and any(isinstance(x, ast.Constant) and isinstance(x.value, str) and x.value.strip() == "$$" for x in ast.walk(st)):
                loop, owner = st, g
    if loop is None:
        raise AnalysisError("molekel writer: the $BASIS loop (writes `$$`) was not found in dump_one or its helpers")
    body_ = owner.body
    k = body_.index(loop)
    used = {x.id for x in ast.walk(loop) if isinstance(x, ast.Name)}
    pre = []
    j = k - 1
    while j >= 0 and isinstance(body_[j], (ast.Assign, ast.Expr)):
        st = body_[j]
        if isinstance(st, ast.Assign) and all(isinstance(t, ast.Name) and t.id in used for t in st.targets):
            pre.insert(0, st)
        j -= 1
    # what the loop iterates over: `<data>.obasis.shells` or `<obasis>.shells`
    it_ = loop.iter
    if not (isinstance(it_, ast.Attribute) and it_.attr == "shells"):
        raise AnalysisError("molekel writer: the $BASIS loop does not iterate over `.shells`")
    if isinstance(it_.value, ast.Name):
        bind = ("basis", it_.value.id)
    elif isinstance(it_.value, ast.Attribute) and it_.value.attr == "obasis" and isinstance(it_.value.value, ast.Name):
        bind = ("data", it_.value.value.id)
    else:
        raise AnalysisError("molekel writer: cannot tell which object the $BASIS loop takes the shells from")
    fparam = next((x.func.value.id for x in ast.walk(loop) if isinstance(x, ast.Call) and isinstance(x.func, ast.Attribute) and x.func.attr == "write" and isinstance(x.func.value, ast.Name)), None)
    if fparam is None:
        raise AnalysisError("molekel writer: the $BASIS loop does not write to a file parameter")
    do_loop_owner = owner
    bad = None
    for label, centers in CASES.items():
        shells = []
        for n_, ic in enumerate(centers):
            l = n_ % 3
            nprim = 1 + n_ % 2
            shells.append(Rec(shell_cls, icenter=ic, angmoms=np.array([l]), kinds=["c" if l < 2 else "p"], exponents=np.array([1.5 + n_ + p_ for p_ in range(nprim)]), coeffs=np.array([[0.5 + 0.25 * p_] for p_ in range(nprim)])))
        basis = Rec(basis_cls, shells=shells, conventions={}, primitive_normalization="L2")
        data = Rec(iocls, obasis=basis, mo=None)
        sink = TextSink()
        ev = AccessorEval(prog, iocls, limit=4000)
        ev.module = do.module
        try:
            ev._block([*pre, loop], {fparam: sink, bind[1]: (basis if bind[0] == "basis" else data)})
            lines = [ln + "\n" for ln in sink.text.split("\n") if ln != ""] + ["$END\n"]
            lit = Rec(licls, filename="FILE", fh=iter(lines), lineno=0, stack=[])
            ev2 = AccessorEval(prog, licls, limit=4000)
            back = ev2.run_free(rd, [lit], {})
        except Raised as exc:
            bad = f"{label} (centres {centers}): raises {exc.args[0]}"
            break
        except NotSymbolic as exc:
            raise AnalysisError(f"Molekel $BASIS writer / reader are outside the evaluation whitelist: {exc}") from exc
        got = [(int(s.fields["icenter"]), int(np.asarray(s.fields["angmoms"])[0]), len(np.asarray(s.fields["exponents"]))) for s in back.fields["shells"]]
        want = [(int(s.fields["icenter"]), int(s.fields["angmoms"][0]), len(s.fields["exponents"])) for s in shells]
        if got != want:
            bad = f"{label}: shells written for centres {[w[0] for w in want]} are read back on centres {[g[0] for g in got]}" + ("" if [g[1:] for g in got] == [w[1:] for w in want] else f" (shell types / primitive counts {[g[1:] for g in got]} instead of {[w[1:] for w in want]})")
            break
    if bad:
        ctx.violate(rid, f"Molekel $BASIS block, {bad}: the number of `$$` lines before a shell is what the reader takes as its atom", do_loop_owner, loop, construct=f"molekel $$ separators: {bad}"[:180])
    else:
        ctx.ok(rid, f"Molekel $BASIS block: on {len(CASES)} abstract bases (incl. atoms without functions) the reader finds every shell on the atom it was written for", f"{do_loop_owner.module.relpath}:{loop.lineno}")


def check_wfx_spin_labels(ctx, rid):
    """WFX `<Molecular Orbital Spin Types>`: the labels the writer emits for a set of orbitals mean, to the reader, the
    same kind of orbitals and the same alpha / beta counts.  Writer fragment and reader fragment are both evaluated."""
    prog = ctx.prog
    do = prog.format_op("wfx", "dump_one")
    rd = prog.format_op("wfx", "load_one")
    mo_cls = prog.cls("iodata.orbitals.MolecularOrbitals")
    iocls = prog.cls("iodata.iodata.IOData")

    def has_label(node):
        return any(isinstance(x, ast.Constant) and isinstance(x.value, str) and x.value.strip() in ("Alpha", "Beta", "Alpha and Beta") for x in ast.walk(node))

    wfrag = wowner = None
    for g in [do] + [h for h in prog.callees_closure([do]) if h.module is do.module and h is not do]:
        for st in g.body:
            if isinstance(st, (ast.If, ast.Assign, ast.Return)) and has_label(st):
                wfrag, wowner = st, g
    if wfrag is None:
        raise AnalysisError("wfx: the spin-label statements of the writer were not found")
    # the loader is evaluated as a whole; what it calls to parse the sections and to build the basis is replaced by
    # model values (they have their own rules): the sections as a dictionary, an opaque basis with the identity order
    parse_f = next((cs.callees[0] for cs in rd.calls if cs.callees and cs.callees[0].module is rd.module and any(isinstance(a, ast.Name) and a.id == rd.posparams[0] for a in cs.node.args) and len(cs.node.args) == 1), None)
    if parse_f is None:
        raise AnalysisError("wfx.load_one: the call that parses the sections (given the line iterator) was not found")
    wvar = None
    for x in ast.walk(wfrag):
        if isinstance(x, ast.Assign) and len(x.targets) == 1 and isinstance(x.targets[0], ast.Name) and has_label(x.value):
            wvar = x.targets[0].id
    helper_form = wowner is not do  # a helper that returns the labels: called with the orbitals / the object
    dparam = do.posparams[1]
    if helper_form:
        wvar = "__labels"
    if wvar is None:
        raise AnalysisError("wfx: the writer's spin-label fragment has an unexpected shape")
    cases = {
        "restricted, closed shell [2,2,0,0]": ("restricted", [2.0, 2.0, 0.0, 0.0]),
        "restricted open shell [2,1,0]": ("restricted", [2.0, 1.0, 0.0]),
        "restricted natural orbitals [0.9,0.6,0.3,0.2]": ("restricted", [0.9, 0.6, 0.3, 0.2]),
        "restricted, one electron smeared [0.75,0.25]": ("restricted", [0.75, 0.25]),
        "restricted, all singly occupied [1,1]": ("restricted", [1.0, 1.0]),
        "unrestricted, 2 alpha + 1 beta": ("unrestricted", [1.0, 0.0, 1.0]),
    }
    bad = None
    for label, (kind, occs) in cases.items():
        n = len(occs)
        na, nb = (n, n) if kind == "restricted" else (2, 1)
        mo = Rec(mo_cls, kind=kind, norba=na, norbb=nb, occs=np.array(occs), coeffs=np.zeros((3, n)), energies=np.arange(n, dtype=float), irreps=None, occs_aminusb=None)
        data = Rec(iocls, mo=mo)
        try:
            ev = AccessorEval(prog, mo_cls, limit=4000)
            ev.module = do.module
            if helper_form:
                # which argument does the helper take: the orbitals or the object?  (decided from its parameter's use)
                hp = wowner.posparams[0]
                takes_mo = any(isinstance(x, ast.Attribute) and isinstance(x.value, ast.Name) and x.value.id == hp and x.attr in ("kind", "occs", "occsa") for x in ast.walk(wowner.node))
                local = {"__labels": ev.run_free(wowner, [mo if takes_mo else data], {})}
            else:
                local = {dparam: data}
                ev._block([wfrag], local)
            labels = [str(w).strip() for w in local[wvar]]  # the section parser strips each line
            ev2 = AccessorEval(prog, mo_cls, limit=4000)
            ev2.module = rd.module
            sections = {"mo_spins": labels, "mo_coeffs": np.zeros((5, n)), "mo_occs": np.array(occs), "mo_energies": np.arange(n, dtype=float), "centers": np.array([1, 1, 1, 1, 1]), "types": np.array([1, 1, 1, 1, 1]), "exponents": np.ones(5), "atcoords": np.zeros((1, 3)), "atnums": np.array([1]), "nuclear_charge": np.array([1.0]), "energy": 0.0, "title": "T"}
            ev2.stubs = {
                parse_f.qualname: lambda a, k: dict(sections),
                "iodata.formats.wfn.build_obasis": lambda a, k: (Rec(None, marker="obasis"), np.arange(5)),
                "iodata.formats.wfn.get_mocoeff_scales": lambda a, k: np.ones(5),
            }
            res2 = ev2.run_free(rd, [Rec(None, filename="FILE", lineno=0)], {})
            back = res2.get("mo") if isinstance(res2, dict) else None
            if not isinstance(back, Rec):
                bad = f"{label}: the loader returns no orbitals"
                break
        except Raised as exc:
            bad = f"{label}: labels {sorted(set(labels)) if 'labels' in dir() else '?'} make the reader raise {exc.args[0]}"
            break
        except NotSymbolic as exc:
            raise AnalysisError(f"wfx spin-label fragments are outside the evaluation whitelist: {exc}") from exc
        got = (back.fields["kind"], back.fields["norba"], back.fields["norbb"])
        if got != (kind, na, nb):
            bad = f"{label}: written as {labels}, read back as {got[0]} orbitals with norba = {got[1]}, norbb = {got[2]} (written: {kind}, {na}, {nb})"
            break
    if bad:
        ctx.violate(rid, f"WFX spin types, {bad}", wowner, wfrag, construct=f"wfx spin labels: {bad}"[:180])
    else:
        ctx.ok(rid, f"WFX spin types: for {len(cases)} orbital sets (closed / open shell, fractional occupations never above 1, unrestricted) the labels written are read back as the same kind and counts", f"{do.module.relpath}:{wfrag.lineno}")


def _num(a):
    """Numeric array from a result that may hold constant Sym entries."""
    from ..symarr import Sym

    arr = np.asarray(a, dtype=object)
    out = np.empty(arr.shape, dtype=float)
    for idx in np.ndindex(*arr.shape):
        x = arr[idx]
        if isinstance(x, Sym):
            if any(m != () for m in x.terms):
                raise NotSymbolic("symbolic value where a number is expected")
            x = x.terms.get((), 0)
        out[idx] = float(x)
    return out


def check_molekel_mo_blocks(ctx, rid):
    """Molekel `$COEFF_*` / `$OCC_*` blocks: what the writer helpers emit for the alpha and the beta orbitals is read
    back by the reader helpers as the same irreps, energies, occupations and coefficient columns.

    Evaluated for unrestricted orbitals with 7 alpha and 3 beta orbitals (blocks of five are crossed; the two counts
    differ, so a slice taken at the wrong count shows) over two basis functions, with a non-trivial permutation / sign
    pair standing for convert_conventions."""
    prog = ctx.prog
    mod = prog.module("iodata.formats.molekel")
    need = {n: prog.funcs.get(f"{mod.name}.{n}") for n in ("_dump_helper_coeffs", "_dump_helper_occ", "_load_helper_coeffs", "_load_helper_occ")}
    if any(v is None for v in need.values()):
        raise AnalysisError(f"molekel: helper(s) {[k for k, v in need.items() if v is None]} not found")
    mo_cls = prog.cls("iodata.orbitals.MolecularOrbitals")
    iocls = prog.cls("iodata.iodata.IOData")
    licls = prog.cls("iodata.utils.LineIterator")
    na, nb, nbasis = 7, 3, 2
    n = na + nb
    coeffs = np.array([[1.0 + 0.5 * j + 0.25 * i for j in range(n)] for i in range(nbasis)])
    energies = np.array([-5.0 + 0.75 * j for j in range(n)])
    occs = np.array([1.0 if j % 2 == 0 else 0.5 for j in range(n)])
    irreps = [f"i{j}" for j in range(n)]
    mo = Rec(mo_cls, kind="unrestricted", norba=na, norbb=nb, occs=occs, coeffs=coeffs, energies=energies, irreps=irreps, occs_aminusb=None)
    data = Rec(iocls, mo=mo, obasis=Rec(None))
    perm, signs = np.array([1, 0]), np.array([1.0, -1.0])
    stubs = {"iodata.convert.convert_conventions": lambda args, kw: (perm, signs)}
    bad = None
    try:
        for spin, sl in (("a", slice(0, na)), ("b", slice(na, n))):
            sink = TextSink()
            ev = AccessorEval(prog, mo_cls, limit=8000)
            ev.stubs = stubs
            ev.run_free(need["_dump_helper_coeffs"], [sink, data], {"spin": spin})
            lines = [ln + "\n" for ln in sink.text.split("\n") if ln.strip() != ""]
            lit = Rec(licls, filename="F", fh=iter(lines), lineno=0, stack=[])
            try:
                back = AccessorEval(prog, licls, limit=20000).run_free(need["_load_helper_coeffs"], [lit, nbasis], {})
            except Raised as exc:
                bad = f"spin {spin}: the block written for {sl.stop - sl.start} orbitals makes the reader raise {exc.args[0]} (first lines: {[ln.strip()[:40] for ln in lines[:2]]})"
                break
            c_back, e_back, i_back = back
            want_c = (coeffs[:, sl][perm]) * signs.reshape(-1, 1)
            if list(i_back) != irreps[sl]:
                bad = f"spin {spin}: irreps written for orbitals {irreps[sl]} come back as {list(i_back)}"
            elif _num(e_back).shape != energies[sl].shape or np.abs(_num(e_back) - energies[sl]).max() > 1e-9:
                bad = f"spin {spin}: orbital energies {energies[sl].tolist()} come back as {_num(e_back).tolist()}"
            elif _num(c_back).shape != want_c.shape or np.abs(_num(c_back) - want_c).max() > 1e-9:
                bad = f"spin {spin}: the coefficient block (rows permuted and sign-scaled) does not come back: shape {np.asarray(c_back).shape}, expected {want_c.shape}" if np.asarray(c_back).shape != want_c.shape else f"spin {spin}: coefficient columns come back attached to other orbitals / basis functions"
            if bad:
                break
            sink = TextSink()
            ev = AccessorEval(prog, mo_cls, limit=8000)
            ev.run_free(need["_dump_helper_occ"], [sink, data], {"spin": spin})
            lines = [ln + "\n" for ln in sink.text.split("\n") if ln.strip() != ""]
            lit = Rec(licls, filename="F", fh=iter(lines), lineno=0, stack=[])
            o_back = _num(AccessorEval(prog, licls, limit=8000).run_free(need["_load_helper_occ"], [lit], {}))
            if o_back.shape != occs[sl].shape or np.abs(o_back - occs[sl]).max() > 1e-6:
                bad = f"spin {spin}: occupations {occs[sl].tolist()} come back as {o_back.tolist()}"
                break
    except Raised as exc:
        bad = f"evaluation raises {exc.args[0]}"
    except NotSymbolic as exc:
        raise AnalysisError(f"molekel MO block helpers are outside the evaluation whitelist: {exc}") from exc
    w = need["_dump_helper_coeffs"]
    if bad:
        ctx.violate(rid, f"Molekel orbital blocks, {bad}", w, w.node, construct=f"molekel MO blocks: {bad}"[:180])
    else:
        ctx.ok(rid, "Molekel $COEFF / $OCC blocks: irreps, energies, occupations and coefficient columns of 7 alpha + 3 beta orbitals come back in their own slots", f"{w.module.relpath}:{w.lineno}")


def check_molden_mo_blocks(ctx, rid):
    """Molden `[MO]` section: energies, irreps, spins, occupations and coefficient columns written by dump_one come back
    from the reader routine in their own slots (unrestricted 3 alpha + 2 beta orbitals; restricted 3 orbitals), with a
    non-trivial permutation / sign pair standing for convert_conventions."""
    prog = ctx.prog
    do = prog.format_op("molden", "dump_one")
    rd = prog.funcs.get("iodata.formats.molden._load_helper_coeffs")
    if rd is None:
        raise AnalysisError("molden._load_helper_coeffs not found")
    mo_cls = prog.cls("iodata.orbitals.MolecularOrbitals")
    iocls = prog.cls("iodata.iodata.IOData")
    licls = prog.cls("iodata.utils.LineIterator")
    cc = prog.func("iodata.convert.convert_conventions")
    frag = None
    for st in do.body:
        if isinstance(st, ast.If) and any(isinstance(x, ast.Constant) and x.value == "unrestricted" for x in ast.walk(st.test)) and any(isinstance(x, ast.Constant) and isinstance(x.value, str) and "[MO]" in x.value for x in ast.walk(st)):
            frag = st
    pair = None
    for st in do.body:
        if isinstance(st, ast.Assign) and isinstance(st.value, ast.Call) and len(st.targets) == 1 and isinstance(st.targets[0], ast.Tuple) and len(st.targets[0].elts) == 2 and any(cs.node is st.value and cc in cs.callees for cs in do.calls):
            pair = [e.id for e in st.targets[0].elts]
    if frag is None or pair is None:
        raise AnalysisError("molden.dump_one: the [MO] statement / the convert_conventions assignment was not found")
    perm, signs = np.array([1, 0]), np.array([1.0, -1.0])
    nbasis = 2
    bad = None
    for kind, na, nb in (("unrestricted", 3, 2), ("restricted", 3, 3)):
        n = na + nb if kind == "unrestricted" else na
        coeffs = np.array([[1.0 + 0.5 * j + 0.25 * i for j in range(n)] for i in range(nbasis)])
        energies = np.array([-5.0 + 0.75 * j for j in range(n)])
        occs = np.array([(1.0 if j % 2 == 0 else 0.5) * (2.0 if kind == "restricted" else 1.0) for j in range(n)])
        irreps = [f"i{j}" for j in range(n)]
        mo = Rec(mo_cls, kind=kind, norba=na, norbb=nb, occs=occs, coeffs=coeffs, energies=energies, irreps=irreps, occs_aminusb=None)
        data = Rec(iocls, mo=mo)
        sink = TextSink()
        try:
            ev = AccessorEval(prog, mo_cls, limit=8000)
            ev.module = do.module
            ev._block([frag], {do.posparams[0]: sink, do.posparams[1]: data, pair[0]: perm, pair[1]: signs})
            lines = [ln + "\n" for ln in sink.text.split("\n") if ln.strip() != ""]
            if not lines or lines[0].strip() != "[MO]":
                bad = f"{kind}: the section does not start with [MO]"
                break
            # sections may come in any order: another section header may follow the orbitals directly (or after an
            # empty line) and must still be there for the section loop of the loader
            for sep in ([], ["\n"]):
                lit = Rec(licls, filename="F", fh=iter(lines[1:] + sep + ["[5D]\n", "[7F]\n"]), lineno=0, stack=[])
                (oa, ca, ea, ia), (ob, cb, eb, ib) = AccessorEval(prog, licls, limit=20000).run_free(rd, [lit], {})
                rest = list(reversed(lit.fields["stack"])) + list(lit.fields["fh"])
                if not any(isinstance(r, str) and r.strip() == "[5D]" for r in rest):
                    bad = f"{kind}: the section header that follows the orbitals" + (" after an empty line" if sep else "") + " is consumed by the [MO] reader: the loader never sees that section (a [5D] tag after [MO] is lost, pure shells stay Cartesian)"
                    break
            if bad:
                break
        except Raised as exc:
            bad = f"{kind}: evaluation raises {exc.args[0]}"
            break
        except NotSymbolic as exc:
            raise AnalysisError(f"Molden [MO] writer / reader are outside the evaluation whitelist: {exc}") from exc
        conv = lambda c: c[perm] * signs.reshape(-1, 1)
        groups = [("alpha", slice(0, na), oa, ca, ea, ia)]
        if kind == "unrestricted":
            groups.append(("beta", slice(na, n), ob, cb, eb, ib))
        elif cb is not None:
            bad = f"{kind}: the reader finds beta orbitals in a restricted section"
            break
        for spin, sl, o_, c_, e_, i_ in groups:
            if list(i_) != irreps[sl]:
                bad = f"{kind}, {spin}: irreps {irreps[sl]} come back as {list(i_)}"
            elif _num(e_).shape != energies[sl].shape or np.abs(_num(e_) - energies[sl]).max() > 1e-12:
                bad = f"{kind}, {spin}: orbital energies {energies[sl].tolist()} come back as {_num(e_).tolist()}"
            elif _num(o_).shape != occs[sl].shape or np.abs(_num(o_) - occs[sl]).max() > 1e-12:
                bad = f"{kind}, {spin}: occupations {occs[sl].tolist()} come back as {_num(o_).tolist()}"
            elif _num(c_).shape != conv(coeffs[:, sl]).shape or np.abs(_num(c_) - conv(coeffs[:, sl])).max() > 1e-12:
                bad = f"{kind}, {spin}: coefficient columns come back attached to other orbitals / basis functions"
            if bad:
                break
        if bad:
            break
    if bad:
        ctx.violate(rid, f"Molden [MO] section, {bad}", do, frag, construct=f"molden MO blocks: {bad}"[:180])
    else:
        ctx.ok(rid, "Molden [MO] section: energies, irreps, spins, occupations and coefficient columns of unrestricted (3 + 2) and restricted (3) orbitals come back in their own slots", f"{do.module.relpath}:{frag.lineno}")


def check_wfn_mo_blocks(ctx, rid):
    """WFN orbital sections (`MO n ... OCC NO = ... ORB. ENERGY = ...` + coefficient lines): number, occupation, energy
    and primitive coefficients written by dump_one are read back by `_load_helper_mo` in their own slots (fixed-width
    fields; seven primitives, so that the five-per-line chunks are crossed)."""
    prog = ctx.prog
    do = prog.format_op("wfn", "dump_one")
    rd = prog.funcs.get("iodata.formats.wfn._load_helper_mo")
    if rd is None:
        raise AnalysisError("wfn._load_helper_mo not found")
    mo_cls = prog.cls("iodata.orbitals.MolecularOrbitals")
    iocls = prog.cls("iodata.iodata.IOData")
    licls = prog.cls("iodata.utils.LineIterator")
    loop = None
    # (the orbital header may be printed by a helper of the module that the loop calls)
    mos_helpers = {h.name for h in prog.callees_closure([do]) if h.module is do.module and h is not do and any(isinstance(x, ast.Name) and x.id == "FMT_MOS" for x in ast.walk(h.node))}
    for st in do.body:
        if isinstance(st, ast.For) and any(isinstance(x, ast.Name) and (x.id == "FMT_MOS" or x.id in mos_helpers) for x in ast.walk(st)):
            loop = st
    if loop is None:
        raise AnalysisError("wfn.dump_one: the loop that writes the MO sections (FMT_MOS) was not found")
    k = do.body.index(loop)
    pre = [st for st in do.body[max(0, k - 2):k] if isinstance(st, ast.Assign) and any(isinstance(t, ast.Name) and t.id in {x.id for x in ast.walk(loop) if isinstance(x, ast.Name)} for t in st.targets)]
    free = {x.id for st in [*pre, loop] for x in ast.walk(st) if isinstance(x, ast.Name)}
    cvar = next((nm for nm in ("mo_coeffs", "raw_coeffs", "coeffs") if nm in free and not any(isinstance(t, ast.Name) and t.id == nm for st in pre for t in st.targets)), None)
    if cvar is None:
        raise AnalysisError("wfn.dump_one: cannot tell which local holds the primitive coefficients in the MO loop")
    nprim, norb = 7, 2
    coeffs = np.array([[(-1) ** (i + j) * (0.125 + 0.5 * i + 0.03125 * j) for j in range(norb)] for i in range(nprim)])
    occs, energies = np.array([2.0, 1.5]), np.array([-1.25, 0.5])
    mo = Rec(mo_cls, kind="restricted", norba=norb, norbb=norb, occs=occs, coeffs=None, energies=energies, irreps=None, occs_aminusb=None)
    data = Rec(iocls, mo=mo)
    sink = TextSink()
    bad = None
    try:
        ev = AccessorEval(prog, mo_cls, limit=8000)
        ev.module = do.module
        ev._block([*pre, loop], {do.posparams[0]: sink, do.posparams[1]: data, cvar: coeffs})
        lines = [ln + "\n" for ln in sink.text.split("\n") if ln.strip() != ""]
        lit = Rec(licls, filename="F", fh=iter(lines), lineno=0, stack=[])
        for j in range(norb):
            number, occ, energy, cf = AccessorEval(prog, licls, limit=8000).run_free(rd, [lit, nprim], {})
            if int(number) != j + 1:
                bad = f"orbital {j + 1} is numbered {number}"
            elif abs(float(_num(occ)) - occs[j]) > 1e-7:
                bad = f"orbital {j + 1}: occupation {occs[j]} comes back as {float(_num(occ))}"
            elif abs(float(_num(energy)) - energies[j]) > 1e-6:
                bad = f"orbital {j + 1}: energy {energies[j]} comes back as {float(_num(energy))}"
            elif _num(cf).shape != (nprim,) or np.abs(_num(cf) - coeffs[:, j]).max() > 1e-7:
                bad = f"orbital {j + 1}: the primitive coefficients come back as {_num(cf).tolist()[:3]}..., written {coeffs[:3, j].tolist()}..."
            if bad:
                break
    except Raised as exc:
        bad = f"evaluation raises {exc.args[0]}"
    except NotSymbolic as exc:
        raise AnalysisError(f"WFN MO section writer / reader are outside the evaluation whitelist: {exc}") from exc
    if bad:
        ctx.violate(rid, f"WFN orbital sections, {bad}", do, loop, construct=f"wfn MO sections: {bad}"[:180])
    else:
        ctx.ok(rid, "WFN orbital sections: number, occupation, energy and seven primitive coefficients of two orbitals come back in their own slots", f"{do.module.relpath}:{loop.lineno}")


def check_fchk_basis_block(ctx, rid):
    """FCHK basis set: the block of dump_one that writes `Shell types`, `Shell to atom map`, the primitive arrays and the
    `P(S=P)` coefficients is interpreted on a model basis (an s shell, an SP shell, a pure d, a Cartesian f and a p shell
    on three centres, different primitive counts) with the field writers captured; the block of load_one that rebuilds
    the shells is interpreted on the captured fields.  Every shell must come back with its centre, angular momenta,
    kinds, exponents and coefficient columns."""
    prog = ctx.prog
    do = prog.format_op("fchk", "dump_one")
    lo = prog.format_op("fchk", "load_one")
    iocls = prog.cls("iodata.iodata.IOData")
    shcls = prog.cls("iodata.basis.Shell")
    bcls = prog.cls("iodata.basis.MolecularBasis")

    def sh(ic, ls, ks, ex, co):
        return Rec(shcls, icenter=ic, angmoms=np.array(ls), kinds=list(ks), exponents=np.array(ex), coeffs=np.array(co))

    shells = [
        sh(1, [0], ["c"], [5.0, 1.5], [[0.3], [0.7]]),
        sh(0, [0, 1], ["c", "c"], [9.0, 3.0, 1.0], [[0.1, 0.4], [0.2, 0.5], [0.3, 0.6]]),
        sh(2, [2], ["p"], [0.8], [[1.0]]),
        sh(0, [3], ["c"], [0.6, 0.2], [[0.9], [0.15]]),
        sh(1, [1], ["c"], [2.5], [[1.0]]),
        sh(2, [4], ["p"], [0.4, 0.1], [[0.6], [0.5]]),
    ]
    basis = Rec(bcls, shells=shells, conventions={}, primitive_normalization="L2")
    f0 = {n: None for n in iocls.fields}
    f0.update(obasis=basis, atcoords=np.array([[0.0, 0.0, 0.0], [0.0, 0.0, 1.0], [0.0, 1.0, 0.0]]), extra={}, atcharges={}, moments={})
    wst = [st for st in do.body if isinstance(st, ast.If) and any(isinstance(x, ast.Constant) and x.value == "Shell types" for x in ast.walk(st))]
    body = lo.body
    i0 = next((i for i, st in enumerate(body) if isinstance(st, ast.Assign) and isinstance(st.value, ast.Subscript) and isinstance(st.value.slice, ast.Constant) and st.value.slice.value == "Shell types"), None)
    i1 = next((i for i, st in enumerate(body) if isinstance(st, ast.Assign) and isinstance(st.targets[0], ast.Subscript) and isinstance(st.targets[0].slice, ast.Constant) and st.targets[0].slice.value == "obasis"), None)
    rhelper = None
    if i0 is None:
        # the reader's block may be a helper of the module that is handed the field dictionary
        for cs in lo.calls:
            for h in cs.callees:
                if h.module is lo.module and h.parent is None and len(h.posparams) == 1 and any(isinstance(x, ast.Subscript) and isinstance(x.slice, ast.Constant) and x.slice.value == "Shell types" for x in ast.walk(h.node)):
                    rhelper = h
    if len(wst) != 1 or (rhelper is None and (i0 is None or i1 is None or i1 < i0)):
        raise AnalysisError("fchk: the basis-set block of dump_one / load_one was not found")
    src = dst = None
    if rhelper is None:
        src = body[i0].value.value.id if isinstance(body[i0].value.value, ast.Name) else None
        dst = body[i1].targets[0].value.id if isinstance(body[i1].targets[0].value, ast.Name) else None
        if src is None or dst is None:
            raise AnalysisError("fchk.load_one: the field dictionary / result dictionary of the basis block cannot be identified")
    got = {}

    def cap(args, kw):
        got[args[0]] = args[1]

    try:
        ev = AccessorEval(prog, shcls, limit=40000)
        ev.module = do.module
        ev.stubs = {f"iodata.formats.fchk.{nm}": cap for nm in ("_dump_integer_scalars", "_dump_integer_arrays", "_dump_real_arrays", "_dump_real_scalars")}
        ev._block(wst, {do.posparams[0]: None, do.posparams[1]: Rec(iocls, **f0)})
        fields = {k: (np.asarray(v) if isinstance(v, (list, tuple, np.ndarray)) else v) for k, v in got.items()}
        ev = AccessorEval(prog, shcls, limit=40000)
        ev.module = lo.module
        if rhelper is None:
            local = {src: fields, dst: {}, "lit": None}
            ev._block(body[i0 : i1 + 1], local)
        else:
            dst = "result"
            made = ev.run_free(rhelper, [fields], {})
            local = {dst: {"obasis": made if isinstance(made, Rec) else Rec(bcls, shells=list(made) if isinstance(made, (list, tuple)) else None, conventions={}, primitive_normalization="L2")}}
    except Raised as exc:
        ctx.violate(rid, f"FCHK basis block: the fields written for a model basis (s, SP, pure d, Cartesian f, p, pure g) make the reader's block raise {exc.args[0]}", do, wst[0], construct="fchk basis block: raises")
        return
    except NotSymbolic as exc:
        raise AnalysisError(f"FCHK basis blocks are outside the evaluation whitelist: {exc}") from exc
    ob = local[dst].get("obasis")
    back = ob.fields.get("shells") if isinstance(ob, Rec) else None
    bad = None
    if not isinstance(back, list) or len(back) != len(shells):
        bad = f"{len(back) if isinstance(back, list) else 'no'} shells come back instead of {len(shells)}"
    else:
        for i, (a, b) in enumerate(zip(shells, back)):
            af, bf = a.fields, b.fields
            name = f"shell {i + 1} (l = {af['angmoms'].tolist()}, kinds {af['kinds']}, centre {af['icenter']})"
            if int(bf.get("icenter")) != af["icenter"]:
                bad = f"{name} comes back on centre {int(bf.get('icenter'))}"
            elif [int(x) for x in np.asarray(bf.get("angmoms")).ravel()] != af["angmoms"].tolist() or list(bf.get("kinds")) != af["kinds"]:
                bad = f"{name} comes back with l = {[int(x) for x in np.asarray(bf.get('angmoms')).ravel()]}, kinds {list(bf.get('kinds'))}"
            elif _num(bf.get("exponents")).shape != af["exponents"].shape or np.abs(_num(bf.get("exponents")) - af["exponents"]).max() > 1e-12:
                bad = f"{name}: exponents {af['exponents'].tolist()} come back as {_num(bf.get('exponents')).tolist()}"
            elif _num(bf.get("coeffs")).shape != af["coeffs"].shape or np.abs(_num(bf.get("coeffs")) - af["coeffs"]).max() > 1e-12:
                bad = f"{name}: contraction coefficients {af['coeffs'].tolist()} come back as {_num(bf.get('coeffs')).tolist()}"
            if bad:
                break
    if bad:
        ctx.violate(rid, f"FCHK basis block: {bad}", do, wst[0], construct=f"fchk basis block: {bad}"[:170])
    else:
        ctx.ok(rid, f"fchk: {len(shells)} model shells (s, SP, pure d, Cartesian f, p, pure g on three centres) written as Shell types / Shell to atom map / primitive arrays / P(S=P) coefficients are rebuilt by the reader's block", f"{do.module.relpath}:{wst[0].lineno}")


def check_wfn_primitive_lists(ctx, rid):
    """WFN centre / type / exponent lists: the statements of dump_one that build them are interpreted on a model
    de-contracted basis (s, d, two p, f primitives on two centres; the module's own CONVENTIONS), the numbers are
    compared with the format's TYPE ASSIGNMENTS numbering (1 s, 2-4 p, 5-10 d, 11-20 f, 21-35 g) and handed to the
    reader's `build_obasis`, which must regroup them into the same primitives, in order."""
    from ..consteval import ConstEval, NotConstant

    prog = ctx.prog
    do = prog.format_op("wfn", "dump_one")
    bo = prog.funcs.get("iodata.formats.wfn.build_obasis")
    if bo is None:
        raise AnalysisError("wfn.build_obasis not found")
    shcls = prog.cls("iodata.basis.Shell")
    bcls = prog.cls("iodata.basis.MolecularBasis")
    licls = prog.cls("iodata.utils.LineIterator")
    try:
        conv = ConstEval(prog).global_value(do.module, "CONVENTIONS")
    except NotConstant as exc:
        raise AnalysisError(f"wfn.CONVENTIONS is not a constant: {exc}") from exc

    def sh(ic, l, ex):
        return Rec(shcls, icenter=ic, angmoms=np.array([l]), kinds=["c"], exponents=np.array([ex]), coeffs=np.array([[1.0]]))

    prims = [(0, 0, 5.0), (0, 2, 1.5), (1, 1, 0.8), (1, 1, 0.3), (0, 3, 0.9), (1, 0, 0.2)]
    obasis = Rec(bcls, shells=[sh(*p_) for p_ in prims], conventions=conv, primitive_normalization="L2")
    body = do.body
    tgt = lambda st, name: isinstance(st, ast.Assign) and len(st.targets) == 1 and ((isinstance(st.targets[0], ast.Name) and st.targets[0].id == name) or (isinstance(st.targets[0], ast.Tuple) and any(isinstance(e_, ast.Name) and e_.id == name for e_ in st.targets[0].elts)))
    calls = [x for x in do.own_nodes() if isinstance(x, ast.Call) and getattr(x.func, "id", "") == "_dump_helper_section" and len(x.args) >= 2 and isinstance(x.args[1], ast.Name)]
    if len(calls) < 3:
        raise AnalysisError("wfn.dump_one: the three section writers (centres, types, exponents) were not found")
    names = [c.args[1].id for c in calls[:3]]
    idx = [next((i for i, st in enumerate(body) if tgt(st, nm)), None) for nm in names]
    bvar = next((st.targets[0].id for st in body if isinstance(st, ast.Assign) and isinstance(st.value, ast.Call) and getattr(st.value.func, "id", "") == "MolecularBasis" and isinstance(st.targets[0], ast.Name)), None)
    if None in idx or bvar is None:
        raise AnalysisError("wfn.dump_one: the statements that build the centre / type / exponent lists were not found")
    frag = body[min(idx) : max(idx) + 1]
    nfun = {0: 1, 1: 3, 2: 6, 3: 10, 4: 15}
    first = {0: 1, 1: 2, 2: 5, 3: 11, 4: 21}
    want_c = [ic + 1 for ic, l, ex in prims for _ in range(nfun[l])]
    want_t = [first[l] + k for ic, l, ex in prims for k in range(nfun[l])]
    want_e = [ex for ic, l, ex in prims for _ in range(nfun[l])]
    try:
        ev = AccessorEval(prog, shcls, limit=40000)
        ev.module = do.module
        local = {bvar: obasis}
        ev._block(frag, local)
        cn, ty, ex = (list(np.asarray(local[nm]).ravel()) for nm in names)
        if [int(v) for v in cn] != want_c:
            ctx.violate(rid, f"WFN CENTRE ASSIGNMENTS for primitives (centre, l) {[(p_[0] + 1, p_[1]) for p_ in prims]} are written as {[int(v) for v in cn]}, expected {want_c}", do, frag[0], construct="wfn primitive lists: centres")
            return
        if [int(v) for v in ty] != want_t:
            k = next(i for i, (a, b) in enumerate(zip([int(v) for v in ty] + [None] * len(want_t), want_t)) if a != b)
            ctx.violate(rid, f"WFN TYPE ASSIGNMENTS: function {k + 1} of the model basis gets type {int(ty[k]) if k < len(ty) else None}, the format numbers it {want_t[k]} (1 s, 2-4 p, 5-10 d, 11-20 f, 21-35 g)", do, frag[0], construct="wfn primitive lists: types")
            return
        if [float(v) for v in ex] != want_e:
            ctx.violate(rid, f"WFN EXPONENTS are written as {[float(v) for v in ex]}, expected {want_e}", do, frag[0], construct="wfn primitive lists: exponents")
            return
        lit = Rec(licls, filename="F", fh=iter([]), lineno=0, stack=[])
        ev = AccessorEval(prog, licls, limit=40000)
        ev.module = bo.module
        ob, perm = ev.run_free(bo, [np.array(cn, dtype=int) - 1, np.array(ty, dtype=int) - 1, np.array(ex, dtype=float), lit], {})
    except Raised as exc:
        ctx.violate(rid, f"WFN primitive lists written by dump_one make build_obasis raise {exc.args[0]}", do, frag[0], construct="wfn primitive lists: raises")
        return
    except NotSymbolic as exc:
        raise AnalysisError(f"WFN primitive-list statements are outside the evaluation whitelist: {exc}") from exc
    back = [(int(s_.fields["icenter"]), int(np.asarray(s_.fields["angmoms"]).ravel()[0]), float(np.asarray(s_.fields["exponents"]).ravel()[0])) for s_ in ob.fields["shells"]]
    if back != prims or [int(v) for v in np.asarray(perm).ravel()] != list(range(len(want_t))):
        ctx.violate(rid, f"WFN primitive lists written for (centre, l, exponent) {prims} are regrouped by the reader as {back} with row permutation {[int(v) for v in np.asarray(perm).ravel()]}", do, frag[0], construct="wfn primitive lists: regrouped differently")
    else:
        ctx.ok(rid, f"wfn: centre / type / exponent lists of {len(prims)} model primitives carry the format's numbering and are regrouped by build_obasis into the same primitives, rows in place", f"{do.module.relpath}:{frag[0].lineno}")


def check_molden_centers(ctx, rid):
    """Molden `[GTO]` section: the statements of dump_one from the `[GTO]` header up to the orbital part are interpreted on
    abstract bases (atoms without functions first / in the middle / last, several shells per atom, shells not grouped by
    atom) into a model file, and the reader's `_load_helper_obasis` on the printed lines.  The atom number that heads a
    block is what attaches its shells to a nucleus: every shell must come back on the atom it was written for (the
    writer lists the atoms in ascending order; the order of shells within an atom is kept)."""
    prog = ctx.prog
    do = prog.format_op("molden", "dump_one")
    rd = prog.funcs.get("iodata.formats.molden._load_helper_obasis")
    cc = prog.func("iodata.convert.convert_conventions")
    if rd is None:
        raise AnalysisError("molden._load_helper_obasis not found")
    shell_cls = prog.cls("iodata.basis.Shell")
    basis_cls = prog.cls("iodata.basis.MolecularBasis")
    iocls = prog.cls("iodata.iodata.IOData")
    licls = prog.cls("iodata.utils.LineIterator")
    body = do.body
    i0 = next((i for i, st in enumerate(body) if isinstance(st, ast.Expr) and isinstance(st.value, ast.Call) and any(isinstance(a, ast.Constant) and isinstance(a.value, str) and a.value.strip() == "[GTO]" for a in st.value.args)), None)
    i1 = next((i for i, st in enumerate(body) if isinstance(st, ast.Assign) and isinstance(st.value, ast.Call) and any(cs.node is st.value and cc in cs.callees for cs in do.calls)), None)
    bvar = next((st.targets[0].id for st in body if isinstance(st, ast.Assign) and len(st.targets) == 1 and isinstance(st.targets[0], ast.Name) and isinstance(st.value, ast.Attribute) and st.value.attr == "obasis"), None)
    helper = helper_call = None
    if i0 is None:
        # the section may be written by a helper of the module that dump_one hands the file and the basis to
        for cs in do.calls:
            for h in cs.callees:
                if h.module is do.module and h.parent is None and any(isinstance(x, ast.Constant) and isinstance(x.value, str) and x.value.strip() == "[GTO]" for x in ast.walk(h.node)):
                    helper, helper_call = h, cs.node
    if helper is None and (i0 is None or i1 is None or i1 <= i0):
        raise AnalysisError("molden.dump_one: the [GTO] part (from the header to the convert_conventions call) was not found")
    frag = body[i0:i1] if helper is None else [helper.node]
    cases = dict(CASES)
    cases["shells not grouped by atom"] = [1, 0, 1, 2, 0]
    bad = None
    for label, centers in cases.items():
        shells = []
        for n_, ic in enumerate(centers):
            l = n_ % 3
            nprim = 1 + n_ % 2
            shells.append(Rec(shell_cls, icenter=ic, angmoms=np.array([l]), kinds=["c"], exponents=np.array([1.5 + n_ + p_ for p_ in range(nprim)]), coeffs=np.array([[0.5 + 0.25 * p_] for p_ in range(nprim)])))
        basis = Rec(basis_cls, shells=shells, conventions={}, primitive_normalization="L2")
        data = Rec(iocls, obasis=basis, mo=None)
        sink = TextSink()
        local = {do.posparams[0]: sink, do.posparams[1]: data}
        if bvar is not None:
            local[bvar] = basis
        try:
            ev = AccessorEval(prog, iocls, limit=8000)
            ev.module = do.module
            if helper is None:
                ev._block(frag, local)
            else:
                from ..astutil import bind_call as _bind

                bound, _extra, _okb = _bind(helper_call, helper)
                hargs = {}
                for p_, a_ in bound.items():
                    if isinstance(a_, ast.Name) and a_.id == do.posparams[0]:
                        hargs[p_] = sink
                    elif isinstance(a_, ast.Name) and a_.id == do.posparams[1]:
                        hargs[p_] = data
                    elif (isinstance(a_, ast.Name) and a_.id == bvar) or (isinstance(a_, ast.Attribute) and a_.attr == "obasis"):
                        hargs[p_] = basis
                    else:
                        raise AnalysisError(f"molden.dump_one: argument `{ast.unparse(a_)}` of the [GTO] helper is neither the file, the object nor its basis")
                ev.run_free(helper, [], hargs)
            lines = [ln + "\n" for ln in sink.text.split("\n")]
            if not lines or lines[0].strip() != "[GTO]":
                bad = f"{label}: the section does not start with [GTO]"
                break
            lit = Rec(licls, filename="FILE", fh=iter(lines[1:] + ["[MO]\n"]), lineno=0, stack=[])
            back = AccessorEval(prog, licls, limit=8000).run_free(rd, [lit], {})
        except Raised as exc:
            bad = f"{label} (centres {centers}): raises {exc.args[0]}"
            break
        except NotSymbolic as exc:
            raise AnalysisError(f"Molden [GTO] writer / reader are outside the evaluation whitelist: {exc}") from exc
        got = [(int(s_.fields["icenter"]), int(np.asarray(s_.fields["angmoms"])[0]), len(np.asarray(s_.fields["exponents"]))) for s_ in back.fields["shells"]]
        want = sorted([(int(s_.fields["icenter"]), int(s_.fields["angmoms"][0]), len(s_.fields["exponents"])) for s_ in shells], key=lambda t: t[0])
        if got != want:
            bad = f"{label}: shells written for atoms {[w[0] for w in want]} are read back on atoms {[g[0] for g in got]}" + ("" if [g[1:] for g in got] == [w[1:] for w in want] else f" (shell types / primitive counts {[g[1:] for g in got]} instead of {[w[1:] for w in want]})")
            break
    if bad:
        ctx.violate(rid, f"Molden [GTO] section, {bad}: the atom number heading a block is what attaches its shells to a nucleus", do, frag[0], construct=f"molden GTO centres: {bad}"[:180])
    else:
        ctx.ok(rid, f"Molden [GTO] section: on {len(cases)} abstract bases (atoms without functions, shells not grouped by atom) every shell comes back on the atom it was written for", f"{do.module.relpath}:{frag[0].lineno}")
