"""Segmentation of generalized contractions, decided by evaluating convert_to_segmented / prepare_segmented on
abstract basis sets (shared by C14, C08, C18)."""

from __future__ import annotations

import ast

import numpy as np

from .. import AnalysisError
from ..accessors import AccessorEval, Raised, Rec
from ..symarr import NotSymbolic, same, sym_array

# (angmoms, kinds) of the shells of the test basis; coefficients are symbolic (nexp = 2)
SHELLS = [([0], ["c"]), ([0, 1], ["c", "c"]), ([2], ["p"]), ([1, 0], ["c", "c"]), ([0, 0], ["c", "c"]), ([1, 1], ["c", "c"]), ([2, 3], ["c", "p"]), ([0, 1, 2], ["c", "c", "p"]), ([0, 0, 0], ["c", "c", "c"]), ([3], ["c"])]


def _basis(prog, shell_cls, basis_cls):
    shells = []
    from ..symarr import Sym

    for i, (ls, ks) in enumerate(SHELLS):
        co = sym_array(f"k{i}", (2, len(ls)))
        if list(ls) == [0, 1, 2]:
            co[:, 1] = Sym.const(0)  # a contraction whose coefficients all vanish is still a contraction
        shells.append(Rec(shell_cls, icenter=i % 3, angmoms=np.array(ls), kinds=list(ks), exponents=sym_array(f"a{i}", (2,)), coeffs=co))
    return Rec(basis_cls, shells=shells, conventions={}, primitive_normalization="L1")


def _want_keep(ls, keep_sp):
    return len(ls) == 1 or (keep_sp and list(ls) == [0, 1])


def check_segmentation(ctx, rid_split, rid_pred):
    prog = ctx.prog
    cs = prog.func("iodata.convert.convert_to_segmented")
    ps = prog.func("iodata.prepare.prepare_segmented")
    shell_cls = prog.cls("iodata.basis.Shell")
    basis_cls = prog.cls("iodata.basis.MolecularBasis")
    iocls = prog.cls("iodata.iodata.IOData")

    def ev(module):
        e = AccessorEval(prog, shell_cls)
        e.module = module
        return e

    try:
        d_ = cs.default_of("keep_sp")
        if isinstance(d_, ast.Constant) and d_.value is False:
            ctx.ok(rid_split, "convert_to_segmented: `keep_sp` defaults to False (compute_overlap and most writers rely on it)", f"{cs.module.relpath}:{cs.lineno}", sample=False)
        else:
            ctx.violate(rid_split, f"convert_to_segmented: `keep_sp` defaults to `{ast.unparse(d_) if d_ is not None else '<no default>'}`: callers that omit it (the overlap code) keep SP shells and use their first angular momentum only", cs, cs.node, construct="keep_sp default")
        for keep_sp in (False, True):
            src = _basis(prog, shell_cls, basis_cls)
            out = ev(cs.module).run_free(cs, [src], {"keep_sp": keep_sp})
            if not isinstance(out, Rec) or not isinstance(out.fields.get("shells"), list):
                ctx.violate(rid_split, "convert_to_segmented does not return a basis with a shell list", cs, cs.node, construct="segmented result")
                continue
            want = []
            for sh in src.fields["shells"]:
                ls = sh.fields["angmoms"]
                if _want_keep(ls, keep_sp):
                    want.append((sh.fields["icenter"], list(ls), list(sh.fields["kinds"]), sh.fields["exponents"], sh.fields["coeffs"]))
                else:
                    for j in range(len(ls)):
                        want.append((sh.fields["icenter"], [ls[j]], [sh.fields["kinds"][j]], sh.fields["exponents"], sh.fields["coeffs"][:, j : j + 1]))
            got = out.fields["shells"]
            bad = None
            if len(got) != len(want):
                bad = f"{len(got)} shells instead of {len(want)}"
            else:
                for i, (g, w) in enumerate(zip(got, want)):
                    gf = g.fields
                    if gf.get("icenter") != w[0]:
                        bad = f"shell {i}: center {gf.get('icenter')} instead of {w[0]}"
                    elif [int(x) for x in np.asarray(gf.get("angmoms")).ravel()] != [int(x) for x in w[1]]:
                        bad = f"shell {i}: angular momenta {list(np.asarray(gf.get('angmoms')).ravel())} instead of {w[1]} (contraction order not kept)"
                    elif list(gf.get("kinds")) != w[2]:
                        bad = f"shell {i}: kinds {list(gf.get('kinds'))} instead of {w[2]}"
                    elif not same(gf.get("exponents"), w[3]):
                        bad = f"shell {i}: other exponents"
                    elif not same(gf.get("coeffs"), w[4]):
                        bad = f"shell {i}: coefficient column differs from the contraction it came from"
                    if bad:
                        break
            if bad is None and out.fields.get("conventions") is not src.fields["conventions"]:
                bad = "the conventions of the basis are not carried over"
            if bad is None and out.fields.get("primitive_normalization") != src.fields["primitive_normalization"]:
                bad = f"the primitive normalization of the basis ({src.fields['primitive_normalization']!r}) is replaced by {out.fields.get('primitive_normalization')!r} while the contraction coefficients are copied unchanged"
            if bad:
                ctx.violate(rid_split, f"convert_to_segmented(keep_sp={keep_sp}) on {len(SHELLS)} abstract shells: {bad}", cs, cs.node, construct=f"segmentation keep_sp={keep_sp}: {bad}"[:200])
            else:
                ctx.ok(rid_split, f"convert_to_segmented(keep_sp={keep_sp}): {len(SHELLS)} shells -> {len(want)} shells, each contraction in order with its own center, kind, exponents and coefficient column" + ("; SP shells kept" if keep_sp else ""), f"{cs.module.relpath}:{cs.lineno}")
            # idempotence
            again = ev(cs.module).run_free(cs, [out], {"keep_sp": keep_sp})
            if isinstance(again, Rec) and len(again.fields["shells"]) == len(out.fields["shells"]) and all(a is b for a, b in zip(again.fields["shells"], out.fields["shells"])):
                ctx.ok(rid_split, f"convert_to_segmented(keep_sp={keep_sp}) is idempotent (a converted basis is returned with the very same shells)", f"{cs.module.relpath}:{cs.lineno}", sample=False)
            else:
                ctx.violate(rid_split, f"convert_to_segmented(keep_sp={keep_sp}) changes an already converted basis", cs, cs.node, construct=f"segmentation idempotence keep_sp={keep_sp}")
        # a second call in the same process, after the basis object was edited in place (the result depends on the
        # argument as it is now, not on what an earlier call saw)
        e_hist = ev(cs.module)
        src = _basis(prog, shell_cls, basis_cls)
        e_hist.run_free(cs, [src], {"keep_sp": False})
        src.fields["shells"] = list(reversed(src.fields["shells"][:2]))
        src.fields["conventions"] = {"edited": True}
        second = e_hist.run_free(cs, [src], {"keep_sp": False})
        fresh_ = ev(cs.module).run_free(cs, [src], {"keep_sp": False})
        sig = lambda b: [(sh.fields.get("icenter"), [int(x) for x in np.asarray(sh.fields.get("angmoms")).ravel()], list(sh.fields.get("kinds"))) for sh in b.fields["shells"]] if isinstance(b, Rec) else None
        if sig(second) == sig(fresh_) and second.fields.get("conventions") is src.fields["conventions"] and all(same(a.fields["coeffs"], b.fields["coeffs"]) for a, b in zip(second.fields["shells"], fresh_.fields["shells"])):
            ctx.ok(rid_split, "convert_to_segmented: a second call after the basis was edited in place (shells replaced, conventions reassigned) gives the result for the edited basis", f"{cs.module.relpath}:{cs.lineno}", sample=False)
        else:
            ctx.violate(rid_split, f"convert_to_segmented called again on the same basis object after its shells / conventions were edited in place returns {len(second.fields['shells']) if isinstance(second, Rec) else second!r} shells with the earlier conventions: the result of the first call is remembered (the overlap matrix and every writer work on a stale basis)", cs, cs.node, construct="segmentation: stale result after in-place edit")
        # prepare_segmented: nothing to do <=> every shell is kept by convert_to_segmented
        nbad = 0
        for keep_sp in (False, True):
            for ls, ks in SHELLS:
                sh = Rec(shell_cls, icenter=0, angmoms=np.array(ls), kinds=list(ks), exponents=sym_array("a", (2,)), coeffs=sym_array("k", (2, len(ls))))
                basis = Rec(basis_cls, shells=[sh], conventions={}, primitive_normalization="L2")
                data = Rec(iocls, obasis=basis)
                try:
                    r = ev(ps.module).run_free(ps, [data, keep_sp, False, "file", "FMT"], {})
                    nothing = r is data
                    if not nothing:
                        ctx.violate(rid_pred, f"prepare_segmented(allow_changes=False) returns another object for a shell with angular momenta {ls}", ps, ps.node, construct=f"prepare_segmented {ls} keep_sp={keep_sp}: neither identity nor error")
                        nbad += 1
                        continue
                except Raised as exc:
                    if exc.cls != "PrepareDumpError":
                        ctx.violate(rid_pred, f"prepare_segmented raises {exc.cls} for a shell with angular momenta {ls}", ps, ps.node, construct=f"prepare_segmented {ls}: {exc.cls}")
                        nbad += 1
                        continue
                    nothing = False
                if nothing != _want_keep(ls, keep_sp):
                    nbad += 1
                    ctx.violate(rid_pred, f"prepare_segmented(keep_sp={keep_sp}) " + ("sees nothing to convert in" if nothing else "demands a conversion of") + f" a shell with angular momenta {ls}, but convert_to_segmented " + ("splits" if nothing else "keeps") + " such a shell: the pre-flight check and the writer disagree (the writer fails after the file was opened, or a writable object is refused)", ps, ps.node, construct=f"prepare_segmented {ls} keep_sp={keep_sp}: nothing-to-do={nothing}")
        if not nbad:
            ctx.ok(rid_pred, f"prepare_segmented returns the same object exactly for the shells convert_to_segmented keeps ({2 * len(SHELLS)} shell / keep_sp combinations; otherwise PrepareDumpError without allow_changes)", f"{ps.module.relpath}:{ps.lineno}")
        # allow_changes=True: exactly one warning and a *copy* whose basis is the segmented one and whose other
        # attributes are the caller's; the caller's object keeps its basis
        for keep_sp in (False, True):
            shs = [Rec(shell_cls, icenter=i_, angmoms=np.array(ls), kinds=list(ks), exponents=sym_array(f"a{i_}", (2,)), coeffs=sym_array(f"k{i_}", (2, len(ls)))) for i_, (ls, ks) in enumerate(SHELLS[:6])]
            basis = Rec(basis_cls, shells=shs, conventions={}, primitive_normalization="L2")
            marker = Rec(None, tag="orbitals")
            data = Rec(iocls, obasis=basis, title="MARK", mo=marker)
            e1 = ev(ps.module)
            e1.warnings = 0
            try:
                r = e1.run_free(ps, [data, keep_sp, True, "file", "FMT"], {})
            except Raised as exc:
                ctx.violate(rid_pred, f"prepare_segmented(keep_sp={keep_sp}, allow_changes=True) raises {exc.cls} although the conversion is allowed", ps, ps.node, construct=f"prepare_segmented allow keep_sp={keep_sp}: {exc.cls}")
                continue
            want = ev(cs.module).run_free(cs, [basis], {"keep_sp": keep_sp})
            why = None
            if not isinstance(r, Rec) or r is data:
                why = "the given object is returned although its basis needs converting"
            elif getattr(e1, "warnings", 0) != 1:
                why = f"{getattr(e1, 'warnings', 0)} warning(s) are issued for the conversion (expected exactly one)"
            elif data.fields["obasis"] is not basis or len(basis.fields["shells"]) != len(shs):
                why = "the caller's object was modified"
            elif r.fields.get("title") != "MARK" or r.fields.get("mo") is not marker:
                why = "attributes other than the basis differ in the converted copy"
            else:
                got_s = r.fields["obasis"].fields["shells"] if isinstance(r.fields.get("obasis"), Rec) else None
                want_s = want.fields["shells"]
                if got_s is None or len(got_s) != len(want_s) or any(not (same(np.asarray(a.fields["angmoms"]), np.asarray(b.fields["angmoms"])) and list(a.fields["kinds"]) == list(b.fields["kinds"]) and a.fields["icenter"] == b.fields["icenter"] and same(a.fields["exponents"], b.fields["exponents"]) and same(a.fields["coeffs"], b.fields["coeffs"])) for a, b in zip(got_s, want_s)):
                    why = "the basis of the converted copy is not what convert_to_segmented gives for the caller's basis"
            if why:
                ctx.violate(rid_pred, f"prepare_segmented(keep_sp={keep_sp}, allow_changes=True): {why}", ps, ps.node, construct=f"prepare_segmented allow keep_sp={keep_sp}: {why}"[:150])
            else:
                ctx.ok(rid_pred, f"prepare_segmented(keep_sp={keep_sp}, allow_changes=True): one warning; a copy with the segmented basis and the caller's other attributes; the caller's object untouched", f"{ps.module.relpath}:{ps.lineno}")
        # missing basis
        try:
            ev(ps.module).run_free(ps, [Rec(iocls, obasis=None), False, False, "file", "FMT"], {})
            ctx.violate(rid_pred, "prepare_segmented accepts an object without orbital basis", ps, ps.node, construct="prepare_segmented no basis")
        except Raised as exc:
            ctx.ok(rid_pred, f"prepare_segmented raises {exc.cls} without an orbital basis", f"{ps.module.relpath}:{ps.lineno}", sample=False)
    except NotSymbolic as exc:
        raise AnalysisError(f"segmentation code is outside the accessor-evaluation whitelist: {exc}") from exc
