"""C08-R4 -- required-list truthfulness: unguarded dereferences of optional attributes in writers."""

from __future__ import annotations

import ast

from .. import AnalysisError
from ..absint import Interp, Obj, State, V
from ..consteval import ConstEval, NotConstant
from ..domains.nullness import NV, VV, NullDomain
from ..model import src_of
from ..schema import class_schema
from .c17 import DOC_DECORATORS, declared_lists

# implied non-None facts (DESIGN.md Appendix C): attribute -> attributes whose presence implies it
IMPLIED = {
    "atcorenums": [{"atnums"}],
    "natom": [{"atcoords"}, {"atnums"}, {"atmasses"}, {"atgradient"}, {"atfrozen"}, {"atcorenums"}],
    "nelec": [{"mo"}],
    "spinpol": [{"mo"}],
    "charge": [{"atcorenums", "nelec"}, {"atnums", "mo"}, {"atnums", "nelec"}, {"atcorenums", "mo"}],
}


def _data_object(it, st, prog, required, node):
    ci, fields, props = class_schema(prog, "iodata.iodata.IOData")
    req = set(required)
    # close under the implied facts
    changed = True
    while changed:
        changed = False
        for a, alts in IMPLIED.items():
            if a not in req and any(alt <= req for alt in alts):
                req.add(a)
                changed = True
    slots = {}
    for name, f in fields.items():
        if f["dict"] or name in req:
            slots["." + name] = V(VV | frozenset([("a", name)]))
        else:
            slots["." + name] = V(NV | frozenset([("a", name)]))
    for name in props:
        if name in fields:
            continue
        slots["." + name] = V((VV if name in req else NV) | frozenset([("a", name)]))
    return it.new(st, "obj", node, slots=slots, meta={"iodata": True}, tag=VV)


def check_required_truthfulness(ctx, rid="R4"):
    prog = ctx.prog
    ce = ConstEval(prog)
    ctx.rule(rid, "every unguarded dereference of an optional attribute in a writer is declared as required", "an object lacking the attribute fails with DumpError after the existing file was truncated, instead of a clean PrepareDumpError")
    decls = [d for d in declared_lists(prog, ce) if DOC_DECORATORS[d[2]] == "dump" and d[1].name == "dump_one"]
    nw = 0
    for mod, f, dname, lists, dnode, fmt in decls:
        required = lists.get("required", [])
        nw += 1
        dom = NullDomain(prog)
        it = Interp(prog, dom)
        st = State()
        it.stack = []
        data = None
        prep = prog.format_op(mod.short, "prepare_dump")
        # a pseudo frame is needed for allocation: allocate inside run_function via param tags
        class _F:
            pass
        # build the abstract IOData object in a scratch frame
        from ..absint import _Frame
        it.stack.append(_Frame(f, 0))
        data = _data_object(it, st, prog, required, f.node)
        it.stack.pop()
        if prep is not None:
            ret, st = it.run_function(prep, {prep.posparams[0]: data}, st)
            if it.obj(st, ret) is not None:
                data = ret
        nprep = len(dom.derefs)
        it.run_function(f, {f.posparams[1]: data}, st)
        seen = set()
        flagged = False
        for func, node, tag, how in dom.derefs:
            names = sorted(a[1] for a in tag if isinstance(a, tuple) and a[0] == "a")
            if not names or "N" not in tag:
                continue
            for nm in names:
                key = (func.qualname, nm)
                if key in seen:
                    continue
                seen.add(key)
                flagged = True
                ctx.violate(rid, f"{mod.short} writer: optional attribute `{nm}` is {how} without a None guard (`{src_of(node)[:50]}`), but `{nm}` is not in the required list {required}", func, node, construct=f"{mod.short}: {nm} {how} unguarded")
        if not flagged:
            ctx.ok(rid, f"{mod.short}: all dereferenced attributes are required ({required}), guarded, or implied", f.where)
    ctx.floor(rid, nw, 12, "writers")
