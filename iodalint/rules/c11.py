"""C11 -- charge, electron count and core charges stay consistent (nullness typestate)."""

from __future__ import annotations

import ast

import numpy as np
from itertools import product

from .. import AnalysisError
from ..model import src_of
from ..schema import class_schema
from ..typestate import MO_ABSENT, MO_NOOCCS, MO_OCCS, NONE, SET, Raised, TypeState

PROP = "C11"
LEVEL = "other"
TECHNIQUE = "static analysis: exhaustive nullness typestate interpretation of the IOData property getters/setters and __attrs_post_init__ (every abstract state reachable under every public operation); attrs schema model of the per-atom validators"
EXPLANATION = (
    "Static decision of the structural clauses of C11: (R1) the set of fields validated against 'natom' "
    "equals the set consulted by the natom property, each with its array converter; (R2) nelec/spinpol "
    "getters return the orbital-derived value whenever orbitals are present and their setters raise "
    "TypeError on that branch; (R3) the charge getter returns core-charge sum minus electron count exactly "
    "when both are known and the stored charge otherwise; (R4) typestate invariants over the nullness of "
    "(_atcorenums, _charge, _nelec, _spinpol, atnums, mo), closed under construction and every public "
    "read/assignment: J1 core charges known => no stored charge, J2 charge/nelec/spinpol setters never "
    "write the core charges except through the getter's lazy default, J3 getters idempotent, J4 a raising "
    "assignment leaves the canonical state unchanged; (R5) __attrs_post_init__ replays every hidden field "
    "through its setter.  Declined: 'reads back as assigned (to rounding)' and the arithmetic of the "
    "derived values (values, not nullness); histories that write the hidden fields directly."
)
TRUSTED = ["CPython ast parser", "attrs.define: validators/converters run on construction and assignment; a failing validator keeps the old value"]

HIDDEN = ["_atcorenums", "_charge", "_nelec", "_spinpol"]
PUBLIC = {"_atcorenums": "atcorenums", "_charge": "charge", "_nelec": "nelec", "_spinpol": "spinpol"}
EXPLANATION += ' (R6) validate_shape compares every axis for which an expected size is given and skips only None (an expected size of 0 is a size).'
# --- metadata added for batch 7
TECHNIQUE += '; accessor evaluation on symbols and on special numbers'
EXPLANATION += ' Added: (R7) the charge / nelec / atcorenums accessors evaluated as values: on symbols (any number) and on the numbers where a truth test or a sign slip shows (zero electrons, zero charge, a negative charge); a rounding call on symbols is an uninterpreted application, so `nelec = round(z - q)` is reported as not equal to z - q. The typestate fragment accepts tuple assignments and truth tests of fields (None is false, a set value generic).'
# --- end metadata batch 7
# --- metadata added for batch 8
TECHNIQUE += '; interpreter-wide setter clause borrowed from C16'
EXPLANATION += ' Added: (R8) no function reachable from the API switches the attrs validators off for the process (`attrs.validators.disabled()` / `set_disabled`): every other rule of this property rests on them.'
# --- end metadata batch 8
# --- metadata added after the round-3 refactoring twins
TECHNIQUE += '; evaluation of the getters on model objects with pairwise different sources'
EXPLANATION += ' R2 / R3 no longer compare the text of the returned expression: nelec, spinpol and charge are evaluated on model objects in which the orbitals, the stored values and the core charges all give different numbers (orbitals with and without occupations, none; core charges given, defaulted from the atomic numbers, absent).'
# --- end metadata round-3 twins
# --- metadata added after the round-4 refactoring twins
EXPLANATION += ' R1: which per-atom arrays `natom` consults is found by evaluating the property on objects that hold exactly one array of seven rows (every field is tried), not by reading attribute names off its text.'
# --- end metadata round-4 twins
# --- metadata added for batch 9
EXPLANATION += " R1 also: an assignment hook (on_setattr) of a field may only consist of attrs' own convert / validate steps. R2 also: rows with generalized orbitals (the getters answer what the orbitals answer, assigning nelec / spinpol raises TypeError)."
# --- end metadata batch 9
# --- metadata added after the round-5 refactoring twins
EXPLANATION += ' The typestate interpreter unrolls a loop over a local bound to a literal sequence.'
# --- end metadata round-5 twins


def run(ctx):
    prog = ctx.prog
    ci, fields, props = class_schema(prog, "iodata.iodata.IOData")
    ctx.clauses_decided = ["R1 per-atom schema", "R2 orbitals win", "R3 charge is derived", "R4 typestate invariants J1-J4", "R5 post-init replays hidden fields"]
    ctx.clauses_declined = ["reads back as assigned (to rounding)", "arithmetic of the derived values", "histories that reach the hidden fields directly"]

    # ------------------------------------------------------------------ R1
    ctx.rule("R1", "every per-atom array is tied to natom", "an array of the wrong length is accepted, or natom ignores an array that is set")
    validated = set()
    for name, f in fields.items():
        st = f["stmt"]
        if st.value is None:
            continue
        for c in ast.walk(st.value):
            if isinstance(c, ast.Call) and getattr(c.func, "id", "") == "validate_shape" and c.args and isinstance(c.args[0], ast.Constant) and c.args[0].value == "natom":
                validated.add(name)
                conv = [k for k in st.value.keywords if k.arg == "converter"] if isinstance(st.value, ast.Call) else []
                if not conv:
                    ctx.violate("R1", f"per-atom field {name} has no array converter", relpath=ci.module.relpath, function=ci.qualname, construct=f"field {name} converter")
                vkw = [k for k in st.value.keywords if k.arg == "validator"]
                if not vkw or not any(c is x for x in ast.walk(vkw[0].value)):
                    ctx.violate("R1", f"validate_shape('natom') of {name} is not installed as validator", relpath=ci.module.relpath, function=ci.qualname, construct=f"field {name} validator")
    for name, f in fields.items():
        st = f["stmt"]
        if isinstance(st.value, ast.Call):
            for k in st.value.keywords:
                if k.arg == "on_setattr" and "validate" not in src_of(k.value):
                    ctx.violate("R1", f"field {name} overrides on_setattr with `{src_of(k.value)}`: assignments after construction are no longer validated", relpath=ci.module.relpath, function=ci.qualname, construct=f"field {name} on_setattr={src_of(k.value)}")
                elif k.arg == "on_setattr":
                    # besides attrs' own converter / validator steps an assignment hook is arbitrary code that runs on
                    # every assignment to the field: it may rewrite the other fields behind the consistency logic
                    hooks = k.value.elts if isinstance(k.value, (ast.List, ast.Tuple)) else [k.value]
                    for h_ in hooks:
                        r_ = prog.resolve_expr(None, ci.module, h_)
                        if not (r_ is not None and r_[0] == "external" and r_[1].split(".")[0] in ("attrs", "attr")):
                            ctx.violate("R1", f"field {name} runs `{src_of(h_)}` on every assignment (on_setattr): assigning {name} changes other attributes outside the setters that keep charge, electron count and core charges consistent", relpath=ci.module.relpath, function=ci.qualname, construct=f"field {name} on_setattr hook {src_of(h_)}")
    for d in ci.node.decorator_list:
        if isinstance(d, ast.Call):
            for k in d.keywords:
                if k.arg == "on_setattr" and "validate" not in src_of(k.value):
                    ctx.violate("R1", f"IOData is defined with on_setattr=`{src_of(k.value)}`: assignments are no longer validated", relpath=ci.module.relpath, function=ci.qualname, construct=f"class on_setattr={src_of(k.value)}")
                if k.arg in ("frozen", "slots") and False:
                    pass
    natom = ci.getters.get("natom")
    if natom is None:
        raise AnalysisError("IOData.natom property not found")
    # which arrays the property consults: decided by evaluating it on objects that hold exactly one validated array of
    # seven rows (an if-chain, a loop over attribute names, ... all read the same)
    from ..accessors import AccessorEval as _AEval, Raised as _ARaised, Rec as _ARec
    from ..symarr import NotSymbolic as _NotSym

    consulted = set()
    for stored in sorted(ci.fields):
        name = stored.lstrip("_")
        f0 = {k: None for k in ci.fields}
        f0[stored] = np.zeros((7, 3)) if name in ("atcoords", "atgradient") else np.zeros(7)
        try:
            if _AEval(prog, ci).get(_ARec(ci, **f0), "natom") is not None:
                consulted.add(name)  # (any answer: an array natom derives a count from, whatever the arithmetic)
        except _ARaised:
            pass
        except _NotSym as exc:
            raise AnalysisError(f"IOData.natom is outside the evaluation whitelist: {exc}") from exc
    for name in sorted(validated | consulted):
        if name in validated and name in consulted:
            ctx.ok("R1", f"{name}: validated against natom and consulted by natom", f"{ci.module.relpath}:{fields[name]['stmt'].lineno}")
        elif name in validated:
            ctx.violate("R1", f"{name} is validated against natom but the natom property never consults it (an object holding only this array reports natom=None and accepts any length elsewhere)", natom, natom.node, construct=f"natom ignores {name}")
        else:
            ctx.violate("R1", f"natom consults {name}, which is not validated against natom", relpath=ci.module.relpath, function=ci.qualname, construct=f"field {name} not natom-validated")
    ctx.floor("R1", len(validated), 6, "natom-validated fields")
    # natom: every branch returns len(<the field it tested>)
    for st in ast.walk(natom.node):
        if isinstance(st, ast.If) and isinstance(st.test, ast.Compare):
            tested = src_of(st.test.left)
            for s2 in st.body:
                if isinstance(s2, ast.Assign) and isinstance(s2.value, ast.Call) and getattr(s2.value.func, "id", "") == "len":
                    if src_of(s2.value.args[0]) != tested:
                        ctx.violate("R1", f"natom tests `{tested}` but takes the length of `{src_of(s2.value.args[0])}`", natom, s2)

    # ------------------------------------------------------------ typestate
    ts = TypeState(prog, ci, HIDDEN, ["atnums"])
    # hidden fields with a shape validator: assigning an array of the wrong length raises TypeError at the store
    ts.validated = {("_" + n) for n, f in fields.items() if f["private"] and f["array"]}
    for h in HIDDEN:
        if h.lstrip("_") not in fields or not fields[h.lstrip("_")]["private"]:
            raise AnalysisError(f"hidden field {h} not found in IOData")

    def canon(st):
        """State after reading every getter once (the permitted lazy default applied)."""
        cur = st
        for g in ("atcorenums", "charge", "nelec", "spinpol"):
            try:
                cur, _ = ts.call_getter(cur, g)
            except Raised:
                pass
        return cur

    init_states = {}
    nfail = 0
    for vals in product([NONE, SET], repeat=5):
        for mo in (MO_ABSENT, MO_OCCS, MO_NOOCCS):
            st = ts.make(_atcorenums=vals[0], _charge=vals[1], _nelec=vals[2], _spinpol=vals[3], atnums=vals[4], mo=mo)
            try:
                st2 = ts.call_method(st, "__attrs_post_init__")
                init_states[st2] = st
            except Raised as r:
                nfail += 1
    ops = []
    for g in ("atcorenums", "charge", "nelec", "spinpol", "natom"):
        ops.append(("get", g, None))
    for s_ in ("atcorenums", "charge", "nelec", "spinpol"):
        for v in (NONE, SET):
            ops.append(("set", s_, v))
    for v in (NONE, SET):
        ops.append(("plain", "atnums", v))
    for v in (MO_ABSENT, MO_OCCS, MO_NOOCCS):
        ops.append(("plain", "mo", v))

    ctx.rule("R4", "typestate invariants J1-J5 hold on every reachable abstract state", "a history of assignments after which charge, electron count and core charges disagree, or a failed assignment that changed the object")
    ctx.rule("R2", "orbitals determine electron count and spin polarisation", "nelec/spinpol differ from the orbitals, or can be assigned although orbitals are present")
    ctx.rule("R3", "charge is derived when both core charges and electron count are known", "charge != core charges - electrons")
    pi_func = ci.methods.get("__attrs_post_init__")
    if pi_func is None:
        raise AnalysisError("IOData.__attrs_post_init__ not found")
    seen = set(init_states)
    todo = list(init_states)
    trans = 0
    nraise = 0
    viol = {}

    def flag(rule, key, msg, func, node, sample_state):
        if (rule, key) in viol:
            return
        viol[(rule, key)] = True
        ctx.violate(rule, msg + f" [abstract state {dict(zip(ts.vars, sample_state))}]", func, node, construct=key)

    getter_return = {}
    while todo:
        st = todo.pop()
        # J5: the object can be rebuilt from its own fields (attrs.evolve / copy by constructor, used by every prepare_*
        # conversion): __attrs_post_init__ on the state does not raise and gives an observably equal object
        try:
            rebuilt = ts.call_method(st, "__attrs_post_init__")
            if canon(rebuilt) != canon(st):
                flag("R4", "J5 copy differs", "J5 violated: rebuilding the object from its own fields (attrs.evolve) gives an object with other charge / electron count / core charges", pi_func, pi_func.node, st)
        except Raised as r5:
            flag("R4", "J5 copy raises", f"J5 violated: an object in a reachable state cannot be copied: attrs.evolve / IOData(**fields) raises {r5.cls} in __attrs_post_init__ (every prepare_* conversion of such an object fails)", pi_func, r5.node, st)
        # J1 on the state itself
        if ts.get(st, "_atcorenums") == SET and ts.get(st, "_charge") == SET:
            flag("R4", "J1", "J1 violated: core charges are known but a stored charge is kept (two authoritative sources)", ci.setters["atcorenums"], ci.setters["atcorenums"].node, st)
        for kind, name, val in ops:
            trans += 1
            ts.writes = []
            ts.return_nodes = []
            try:
                if kind == "get":
                    st2, res = ts.call_getter(st, name)
                    # J3: idempotent
                    st3, res3 = ts.call_getter(st2, name)
                    if st3 != st2 or res3 != res:
                        flag("R4", f"J3 {name}", f"J3 violated: reading `{name}` twice changes the object / the result", ci.getters[name], ci.getters[name].node, st)
                elif kind == "set":
                    ts.inject, ts.vcount = None, 0
                    st2 = ts.call_setter(st, name, val)
                    nvalidated = ts.vcount
                    # the same assignment with a value the shape validator rejects (k-th validated store fails)
                    for k in range(nvalidated):
                        ts.inject, ts.vcount = k, 0
                        try:
                            ts.call_setter(st, name, val)
                        except Raised as rr:
                            nraise += 1
                            if canon(ts.cur) != canon(st):
                                flag("R4", f"J4 {name} rejected value", f"J4 violated: `{name} = <array the shape validator rejects>` raises TypeError after the object was already changed", ci.setters[name], rr.node, st)
                        finally:
                            ts.inject, ts.vcount = None, 0
                    # J2
                    if name in ("charge", "nelec", "spinpol"):
                        for fld, stack, node in ts.writes:
                            if fld == "_atcorenums" and "atcorenums" not in stack:
                                flag("R4", f"J2 {name}", f"J2 violated: assigning `{name}` writes the core charges outside the getter's lazy default", ci.setters[name], node, st)
                    # read-back nullness: a successful assignment of a value reads back as a value
                    if val == SET:
                        _, rb = ts.call_getter(st2, name)
                        if rb != SET:
                            flag("R4", f"readback {name}", f"after a successful `{name} = value` the property reads back None", ci.setters[name], ci.setters[name].node, st)
                    if name in ("nelec", "spinpol") and ts.get(st, "mo") != MO_ABSENT:
                        flag("R2", f"setter {name}", f"`{name}` can be assigned although orbitals are present (must raise TypeError)", ci.setters[name], ci.setters[name].node, st)
                else:
                    st2 = ts.put(st, name, val)
            except Raised as r:
                nraise += 1
                if kind == "set":
                    if r.cls != "TypeError":
                        flag("R4", f"raise class {name}", f"assigning `{name}` fails with {r.cls} instead of TypeError", ci.setters[name], r.node, st)
                    after = ts.cur
                    if canon(after) != canon(st):
                        flag("R4", f"J4 {name}", f"J4 violated: a raising assignment of `{name}` leaves the object changed", ci.setters[name], r.node, st)
                    if name in ("nelec", "spinpol") and ts.get(st, "mo") == MO_ABSENT:
                        flag("R2", f"setter {name} raises", f"`{name}` cannot be assigned although no orbitals are present", ci.setters[name], r.node, st)
                elif kind == "get":
                    flag("R4", f"getter raises {name}", f"reading `{name}` raises {r.cls}", ci.getters[name], r.node, st)
                continue
            if st2 not in seen:
                seen.add(st2)
                todo.append(st2)
    if not any(k[0] == "R4" for k in viol):
        ctx.ok("R4", f"J1-J5 hold on {len(seen)} reachable abstract states, {trans} operation evaluations, {nraise} raising assignments, {nfail} rejected constructions", ci.module.relpath)
    if not any(k[0] == "R2" for k in viol):
        ctx.ok("R2", "nelec/spinpol: mo-derived when orbitals present, stored otherwise; setters raise TypeError with orbitals", ci.module.relpath)
    if not any(k[0] == "R3" for k in viol):
        ctx.ok("R3", "charge getter: derived iff core charges and electron count are both known", ci.module.relpath)
    nv = sum(1 for k in viol if k[0] == "R4")
    ctx.rules["R4"]["obligations"] += trans
    ctx.rules["R4"]["discharged"] += max(trans - nv, 0)
    ctx.extra["states"] = len(seen)
    ctx.extra["transitions"] = trans
    ctx.extra["raising_assignments"] = nraise
    ctx.extra["rejected_constructions"] = nfail
    ctx.samples.append({"abstract_state": dict(zip(ts.vars, next(iter(seen)))), "operations": [f"{k} {n} {v}" for k, n, v in ops[:6]]})
    ctx.floor("R4", len(seen), 30, "reachable abstract states")
    # setter error class for nelec/spinpol
    for nm in ("nelec", "spinpol"):
        s_ = ci.setters.get(nm)
        rs = [n for n in s_.own_nodes() if isinstance(n, ast.Raise)]
        if rs and all(getattr(r.exc.func if isinstance(r.exc, ast.Call) else r.exc, "id", "") == "TypeError" for r in rs):
            ctx.ok("R2", f"{nm} setter raises TypeError", f"{s_.module.relpath}:{s_.lineno}")
        else:
            ctx.violate("R2", f"{nm} setter does not raise TypeError when orbitals are present", s_, s_.node, construct=f"{nm} setter raise")

    # ------------------------------------------------------------------ R5
    ctx.rule("R5", "constructor arguments go through the consistency logic (typestate: construction = assignment through the setters)", "a constructor argument bypasses the consistency logic: charge, electron count and core charges given together disagree afterwards")
    pi = ci.methods.get("__attrs_post_init__")
    if pi is None:
        ctx.violate("R5", "IOData has no __attrs_post_init__", relpath=ci.module.relpath, function=ci.qualname, construct="__attrs_post_init__")
    else:
        # without orbitals: the object built by the constructor from hidden values equals the object obtained by
        # assigning the same values through the public setters, in the constructor's order, to an empty object
        nok = nbad = 0
        for vals in product([NONE, SET], repeat=5):
            st0 = ts.make(_atcorenums=vals[0], _charge=vals[1], _nelec=vals[2], _spinpol=vals[3], atnums=vals[4], mo=MO_ABSENT)
            try:
                built = ts.call_method(st0, "__attrs_post_init__")
            except Raised:
                built = None
            ref = ts.make(_atcorenums=NONE, _charge=NONE, _nelec=NONE, _spinpol=NONE, atnums=vals[4], mo=MO_ABSENT)
            try:
                for h, v in zip(("_atcorenums", "_charge", "_nelec", "_spinpol"), vals[:4]):
                    if v == SET:
                        ref = ts.call_setter(ref, PUBLIC[h], SET)
            except Raised:
                ref = None
            if (built is None) != (ref is None) or (built is not None and canon(built) != canon(ref)):
                nbad += 1
                given = [h for h, v in zip(("_atcorenums", "_charge", "_nelec", "_spinpol"), vals[:4]) if v == SET]
                ctx.violate("R5", f"IOData({', '.join(PUBLIC[h] + '=...' for h in given)}) gives {'an error' if built is None else dict(zip(ts.vars, canon(built)))}, assigning the same values through the setters gives {'an error' if ref is None else dict(zip(ts.vars, canon(ref)))}: the constructor bypasses the consistency logic", pi, pi.node, construct=f"construction with {given} differs from assignment")
                break
            nok += 1
        if not nbad:
            ctx.ok("R5", f"{nok} combinations of constructor arguments (no orbitals): construction and assignment through the setters give the same object", f"{pi.module.relpath}:{pi.lineno}")
        # with orbitals: stored values are ignored by the getters (R2) and construction never fails because of them (J5)
        nmo = 0
        for vals in product([NONE, SET], repeat=5):
            for mo_ in (MO_OCCS, MO_NOOCCS):
                st0 = ts.make(_atcorenums=vals[0], _charge=vals[1], _nelec=vals[2], _spinpol=vals[3], atnums=vals[4], mo=mo_)
                try:
                    ts.call_method(st0, "__attrs_post_init__")
                    nmo += 1
                except Raised as r_:
                    if vals[0] == SET and vals[1] == SET:
                        continue  # core charges and charge given together with orbitals: contradictory input
                    ctx.violate("R5", f"an object holding orbitals and stored values {dict(zip(('_atcorenums', '_charge', '_nelec', '_spinpol', 'atnums'), vals))} cannot be constructed ({r_.cls}): it cannot be copied with attrs.evolve either", pi, r_.node, construct="construction with orbitals raises")
                    break
        ctx.ok("R5", f"{nmo} combinations with orbitals are constructible (copyable)", f"{pi.module.relpath}:{pi.lineno}")

    # the shape validator itself (shared with C07-R5 / C12-R1): only `None` is a wildcard, 0 is a size
    from .c07 import check_validate_shape

    ctx.rule("R6", "the shape validator compares every non-None expected size, 0 included", "with zero atoms a non-empty per-atom array is accepted: the per-atom arrays disagree on the number of atoms")
    check_validate_shape(ctx, "R6")
    check_getter_sources(ctx)
    ctx.rule("R7", "charge = sum of the core charges - number of electrons, as values (accessors evaluated on symbols)", "a sign slip in a setter: assigning the charge stores an electron count that gives back another charge")
    check_charge_arithmetic(ctx, "R7")
    check_natom_value(ctx, "R1")
    # all of the above rests on the attrs validators running on every construction and assignment: no function
    # reachable from the API may switch them off for the process (the interpreter-wide setter clause C16-R5)
    ctx.borrow("c16", {"R5": "R8"})


def check_getter_sources(ctx):
    """R2 / R3 by value: which source the getters `nelec`, `spinpol` and `charge` read, decided by evaluating them on
    model objects whose stored values, orbitals and core charges all give *different* numbers.

    With orbitals present `nelec` / `spinpol` are what the orbitals say (also when the orbitals carry no occupations:
    then None), never the stored values; without orbitals they are the stored values.  `charge` is sum(core charges) -
    nelec whenever both are known, otherwise the stored charge."""
    from ..accessors import AccessorEval, Raised, Rec
    from ..symarr import NotSymbolic

    prog = ctx.prog
    ci = prog.cls("iodata.iodata.IOData")
    mo_cls = prog.cls("iodata.orbitals.MolecularOrbitals")

    def orbitals(occs):
        f = {name: None for name in mo_cls.fields}
        f.update(kind="unrestricted", norba=2, norbb=1, occs=None if occs is None else np.array(occs), coeffs=None, energies=None, irreps=None)
        return Rec(mo_cls, **f)

    def obj(**kw):
        f = {name: None for name in ci.fields}
        f.update(kw)
        return Rec(ci, **f)

    def num(v):
        if v is None:
            return None
        try:
            return float(np.asarray(v, dtype=float))
        except (TypeError, ValueError):
            return v

    rows = []
    for label, mo in (("orbitals with occupations [1, 1 | 1]", orbitals([1.0, 1.0, 1.0])), ("orbitals without occupations", orbitals(None)), ("no orbitals", None)):
        for name, stored in (("nelec", 11.0), ("spinpol", 7.0)):
            rows.append((f"{name} with {label}", name, lambda mo=mo: obj(mo=mo, _nelec=11.0, _spinpol=7.0), (lambda ev, mo=mo, name=name: num(ev.get(mo, name))) if mo is not None else (lambda ev, stored=stored: stored), "R2"))
    # generalized (two-component) orbitals are orbitals too: the getters defer to them (whatever they answer), and
    # assigning nelec / spinpol is refused as with any orbitals
    gen = orbitals([1.0, 1.0, 1.0])
    gen.fields["kind"] = "generalized"
    for name, stored in (("nelec", 11.0), ("spinpol", 7.0)):
        def want_gen(ev, name=name, gen=gen):
            try:
                return num(ev.get(gen, name))
            except Raised as exc:
                return ("raises", exc.args[0])
        rows.append((f"{name} with generalized orbitals", name, lambda gen=gen: obj(mo=gen, _nelec=11.0, _spinpol=7.0), want_gen, "R2"))
    z = np.array([8.0, 1.0])
    rows += [
        ("charge with core charges [8, 1] and 6 stored electrons", "charge", lambda: obj(_atcorenums=z.copy(), _nelec=6.0), lambda ev: 3.0, "R3"),
        ("charge with core charges [8, 1] and orbitals holding 3 electrons", "charge", lambda: obj(_atcorenums=z.copy(), mo=orbitals([1.0, 1.0, 1.0]), _nelec=6.0), lambda ev: 6.0, "R3"),
        ("charge with atomic numbers [8, 1] only and 6 stored electrons", "charge", lambda: obj(atnums=np.array([8, 1]), _nelec=6.0), lambda ev: 3.0, "R3"),
        ("charge without core charges and atomic numbers (stored charge 5.5, 6 electrons)", "charge", lambda: obj(_charge=5.5, _nelec=6.0), lambda ev: 5.5, "R3"),
        ("charge with core charges but no electron count (stored charge 5.5)", "charge", lambda: obj(_atcorenums=z.copy(), _charge=5.5), lambda ev: 5.5, "R3"),
    ]
    done = {"R2": 0, "R3": 0}
    for label, name, mk, want_f, rid in rows:
        g = ci.getters.get(name)
        if g is None:
            raise AnalysisError(f"IOData.{name} getter not found")
        try:
            want = want_f(AccessorEval(prog, mo_cls, limit=4000))
            ev = AccessorEval(prog, ci, limit=4000)
            try:
                got = num(ev.get(mk(), name))
            except Raised as exc:
                got = ("raises", exc.args[0])
            if isinstance(got, tuple) or isinstance(want, tuple):
                if got == want:
                    done[rid] += 1
                else:
                    ctx.violate(rid, f"IOData.{label}: the getter gives {got!r}; the orbitals themselves answer {want!r} (with orbitals present the stored value is never used)", g, g.node, construct=f"getter {name}: {label}"[:150])
                continue
        except Raised as exc:
            ctx.violate(rid, f"IOData.{label}: the getter raises {exc.args[0]}", g, g.node, construct=f"getter {name}: raises")
            continue
        except NotSymbolic as exc:
            raise AnalysisError(f"IOData.{name} getter is outside the evaluation whitelist: {exc}") from exc
        same = (got is None and want is None) or (got is not None and want is not None and abs(got - want) < 1e-12)
        if same:
            done[rid] += 1
        else:
            src = "the orbitals" if "orbitals" in label and "no orbitals" not in label and name != "charge" else ("the stored value" if name != "charge" else "sum(core charges) - nelec when both are known, else the stored charge")
            ctx.violate(rid, f"IOData.{label}: the getter gives {got!r}, expected {want!r} ({src})", g, g.node, construct=f"getter {name}: {label}"[:150])
    for name in ("nelec", "spinpol"):
        st_ = ci.setters.get(name)
        if st_ is None:
            continue
        for label, mo_ in (("generalized orbitals", gen), ("orbitals with occupations", orbitals([1.0, 1.0, 1.0]))):
            try:
                AccessorEval(prog, ci, limit=4000).set(obj(mo=mo_), name, 1.0)
                ctx.violate("R2", f"IOData.{name} can be assigned although {label} are present: the stored value and the orbitals then disagree", st_, st_.node, construct=f"setter {name}: accepted with {label}")
            except Raised as exc:
                if exc.args[0] == "TypeError":
                    done["R2"] += 1
                else:
                    ctx.violate("R2", f"IOData.{name} = ... with {label} raises {exc.args[0]}, documented TypeError", st_, st_.node, construct=f"setter {name}: {exc.args[0]} with {label}")
            except NotSymbolic as exc:
                raise AnalysisError(f"IOData.{name} setter is outside the evaluation whitelist: {exc}") from exc
    for rid, k in done.items():
        if k:
            ctx.ok(rid, f"IOData getters evaluated on {k} model objects with pairwise different sources: each reads the documented source", f"{ci.module.relpath}:{ci.node.lineno}")


def check_charge_arithmetic(ctx, rid):
    """charge = sum(core charges) - electrons, as *values*: the property setters / getters of IOData evaluated on
    symbolic core charges z, charge q and electron count n (the typestate analysis above decides which of the three is
    stored when; this decides that what is stored has the right value and sign)."""
    from ..accessors import AccessorEval, Raised, Rec
    from ..symarr import NotSymbolic, Sym, sym_array

    from ..symarr import SymbolicBranch

    prog = ctx.prog
    ci = prog.cls("iodata.iodata.IOData")

    def fresh(**kw):
        f = {name: None for name in ci.fields}
        f.update(kw)
        return Rec(ci, **f)

    def eq(a, b):
        return a is not None and not isinstance(a, np.ndarray) and Sym.const(a) == Sym.const(b)

    def sequences(tag, z, q, n):
        zsum = z[0] + z[1] if isinstance(q, Sym) else float(z[0] + z[1])
        out = []
        ev = AccessorEval(prog, ci, limit=4000)
        r = fresh(_atcorenums=z.copy())
        ev.set(r, "charge", q)
        out.append((f"core charges known, charge := {tag[0]}", eq(ev.get(r, "nelec"), zsum - q) and eq(ev.get(r, "charge"), q), f"nelec = {ev.get(r, 'nelec')!r}, charge = {ev.get(r, 'charge')!r}; expected nelec = {zsum - q!r}, charge = {q!r}"))
        r = fresh(_atcorenums=z.copy())
        ev.set(r, "nelec", n)
        out.append((f"core charges known, nelec := {tag[1]}", eq(ev.get(r, "charge"), zsum - n) and eq(ev.get(r, "nelec"), n), f"charge = {ev.get(r, 'charge')!r}, nelec = {ev.get(r, 'nelec')!r}; expected charge = {zsum - n!r}"))
        r = fresh()
        ev.set(r, "charge", q)
        ev.set(r, "atcorenums", z.copy())
        out.append((f"charge := {tag[0]}, then core charges := z", eq(ev.get(r, "nelec"), zsum - q) and eq(ev.get(r, "charge"), q), f"nelec = {ev.get(r, 'nelec')!r}, charge = {ev.get(r, 'charge')!r}; expected nelec = {zsum - q!r}, charge = {q!r}"))
        r = fresh(_atcorenums=z.copy())
        ev.set(r, "nelec", n)
        ev.set(r, "atcorenums", None)
        out.append((f"nelec := {tag[1]} with core charges, then core charges := None", eq(ev.get(r, "charge"), zsum - n) and eq(ev.get(r, "nelec"), n), f"charge = {ev.get(r, 'charge')!r}, nelec = {ev.get(r, 'nelec')!r}; expected the charge {zsum - n!r} to be kept"))
        r = fresh(atnums=np.array([8, 1]))
        ev.set(r, "charge", q)
        out.append((f"only atomic numbers [8, 1] known, charge := {tag[0]}", eq(ev.get(r, "nelec"), Sym.const(9) - q), f"nelec = {ev.get(r, 'nelec')!r}; expected {Sym.const(9) - q!r} (core charges default to the atomic numbers)"))
        return out

    # values: symbols (any number), and the numbers where a truth test or a sign slip shows -- zero electrons (a bare
    # nucleus), zero charge, a negative charge
    variants = [
        (("q", "n"), sym_array("z", (2,)), Sym.atom("q"), Sym.atom("n")),
        (("0", "0"), np.array([8.0, 1.0]), 0.0, 0.0),
        (("-1", "10"), np.array([8.0, 1.0]), -1.0, 10.0),
    ]
    cases = []
    decided = 0
    for tag, z, q, n in variants:
        try:
            cases.extend(sequences(tag, z, q, n))
            decided += 1
        except Raised as exc:
            ctx.violate(rid, f"charge / nelec / atcorenums accessors raise {exc.args[0]} on a legal assignment sequence (charge {tag[0]}, nelec {tag[1]})", relpath=ci.module.relpath, function=ci.qualname, node=ci.node, construct="charge arithmetic raises")
            return
        except SymbolicBranch:
            if not isinstance(q, Sym):
                raise AnalysisError("IOData charge accessors branch on an array value")
            continue  # the accessors test the truth of a value: decided on the numbers below
        except NotSymbolic as exc:
            raise AnalysisError(f"IOData charge accessors are outside the evaluation whitelist: {exc}") from exc
    if decided < 2:
        raise AnalysisError("IOData charge accessors could not be evaluated on numbers")
    bad = [(label, why) for label, ok_, why in cases if not ok_]
    if bad:
        label, why = bad[0]
        g = ci.setters.get("charge")
        ctx.violate(rid, f"IOData, {label}: {why}", g, g.node if g is not None else ci.node, construct=f"charge arithmetic: {label}"[:150])
    else:
        ctx.ok(rid, f"IOData: {len(cases)} assignment sequences on symbolic z, q, n give charge = sum(z) - nelec with the right values and signs", f"{ci.module.relpath}:{ci.node.lineno}")


def check_natom_value(ctx, rid):
    """`natom` evaluated on objects that hold exactly one per-atom array (5 atoms): the count is that array's number of
    rows, whichever array it is; with none it is None."""
    from ..accessors import AccessorEval, Raised, Rec
    from ..symarr import NotSymbolic

    prog = ctx.prog
    ci = prog.cls("iodata.iodata.IOData")
    shapes = {"atcoords": (5, 3), "_atcorenums": (5,), "atgradient": (5, 3), "atfrozen": (5,), "atmasses": (5,), "atnums": (5,)}
    bad = None
    try:
        for name, shape in shapes.items():
            f = {k: None for k in ci.fields}
            f[name] = np.zeros(shape)
            got = AccessorEval(prog, ci).get(Rec(ci, **f), "natom")
            if got != 5:
                bad = bad or f"with only `{name.lstrip('_')}` of shape {shape} set, natom = {got!r} (expected 5)"
        got = AccessorEval(prog, ci).get(Rec(ci, **{k: None for k in ci.fields}), "natom")
        if got is not None:
            bad = bad or f"without any per-atom array natom = {got!r} (expected None)"
    except Raised as exc:
        bad = f"natom raises {exc.args[0]}"
    except NotSymbolic as exc:
        raise AnalysisError(f"IOData.natom is outside the evaluation whitelist: {exc}") from exc
    g = ci.getters["natom"]
    if bad:
        ctx.violate(rid, f"IOData.natom: {bad}", g, g.node, construct=f"natom value: {bad}"[:150])
    else:
        ctx.ok(rid, f"IOData.natom evaluated on {len(shapes)} single-array objects of 5 atoms and on an empty one", g.where)
