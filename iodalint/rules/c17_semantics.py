"""C17-R1: the format selection routine evaluated over a finite domain of file names, operations and explicit
formats, with the registry modelled from the format modules' own PATTERNS and entry points."""

from __future__ import annotations

import fnmatch

from .. import AnalysisError
from ..accessors import AccessorEval, Raised, Rec
from ..symarr import NotSymbolic

OPS = ("load_one", "load_many", "dump_one", "dump_many")


def check_selection_semantics(ctx, rid, patterns):
    """patterns: {short: [glob, ...]} in registry order."""
    prog = ctx.prog
    sel = prog.func("iodata.api._select_format_module")
    mods = {}
    for short, m in prog.format_modules().items():
        fields = {"PATTERNS": list(patterns.get(short, [])), "__name__": m.name}
        for op in OPS + ("prepare_dump",):
            if prog.format_op(short, op) is not None:
                fields[op] = ("<function>", op)
        mods[short] = Rec(None, **fields)
    names = []
    for short, pats in patterns.items():
        for p_ in pats:
            base = p_.replace("*", "abc")
            names += [base, "dir.xyz/" + base, base + ".bak", "pre_" + base, base.upper()]
    names += ["unknown.ext", "noext", "a.xyz/b.unknown", "CHGCAR.cube", "x.cp2k.out", "x.out", "old_POSCAR", "mol.molden.input", "mol.fchk.xyz", ""]
    names = sorted(set(names))

    def oracle(filename, op, fmt):
        if fmt is not None:
            m = mods.get(fmt)
            return m if (m is not None and op in m.fields) else "FileFormatError"
        base = filename.rsplit("/", 1)[-1]
        for short, m in mods.items():
            if any(fnmatch.fnmatchcase(base, p_) for p_ in m.fields["PATTERNS"]) and op in m.fields:
                return m
        return "FileFormatError"

    bad = None
    n = 0
    try:
        for filename in names:
            for op in OPS:
                for fmt in (None, "xyz", "fchk", "gromacs", "nosuchformat", ""):
                    if fmt is not None and filename not in ("unknown.ext", "abc.xyz", "abc.fchk", "noext"):
                        continue
                    ev = AccessorEval(prog, None)
                    ev.module = sel.module
                    ev._globals = {(sel.module.name, "FORMAT_MODULES"): mods}
                    try:
                        got = ev.run_free(sel, [filename, op, fmt], {})
                    except Raised as exc:
                        got = exc.cls
                    want = oracle(filename, op, fmt)
                    n += 1
                    if got is not want and got != want:
                        bad = bad or (filename, op, fmt, got, want)
    except NotSymbolic as exc:
        raise AnalysisError(f"_select_format_module is outside the evaluation whitelist: {exc}") from exc

    def show(x):
        return x.fields["__name__"].rsplit(".", 1)[-1] if isinstance(x, Rec) else str(x)

    if bad:
        filename, op, fmt, got, want = bad
        ctx.violate(rid, f"_select_format_module({filename!r}, {op!r}, fmt={fmt!r}) gives {show(got)}, expected {show(want)} (explicit format wins; otherwise the first registry module whose pattern matches the base name and that supports the operation; else FileFormatError)", sel, sel.node, construct=f"selection {filename!r} {op} fmt={fmt!r}: {show(got)} instead of {show(want)}")
    else:
        ctx.ok(rid, f"_select_format_module evaluated on {n} (file name, operation, explicit format) combinations built from every registered pattern (plain, inside a directory whose name matches a pattern, with suffix / prefix, upper-cased): the selected module is the documented one, otherwise FileFormatError", f"{sel.module.relpath}:{sel.lineno}")
    ctx.floor(rid, n, 500, "selection evaluations")
