"""C02 -- save-then-reload returns the same data (sibling agreement of reader and writer)."""

from __future__ import annotations

import ast

import numpy as np
import json
import os
import re

from .. import AnalysisError
from ..absint import Interp, State, V
from ..astutil import bind_call, deref, names_in, single_def, walk_stmts
from ..consteval import ConstEval, NotConstant
from ..domains.nullness import NullDomain, VV
from ..model import src_of
from ..report import VERIF as VERIF_DIR
from ..schema import dict_attr_names
from .offsets import check_writer_offsets

PROP = "C02"
LEVEL = "other"
TECHNIQUE = "static analysis: sibling cross-check of reader and writer of each read/write format (label tables, index offsets by offset dataflow, index-order pairing, lookup-table bijections, nullness of dict-typed results, vocabulary inclusion over the documented finite domain)"
EXPLANATION = (
    "Static decision of the structural clauses of C02: (R1) index-permutation literals of reader and writer "
    "are mutually inverse (decided under C03-R5, referenced); (R2) FCHK: every label the reader consumes is in "
    "the label list it requests, and the (attribute key <-> file label) pairs extracted from reader and "
    "writer agree on their common keys, with no near-miss spellings between the two sides; (R3) every "
    "zero-based index attribute (bond endpoints, shell centers) and every loop counter that reaches a "
    "writer's output passes through exactly one `+ 1`, bond types are written as stored; (R4) FCIDUMP: the "
    "writer reads two_mo[i, k, j, l] for the printed order i j k l, the inverse of the reader's "
    "set_four_index_element(.., i, k, j, l); (R5) num2sym has keys 1..118 with distinct symbols and sym2num "
    "is its inversion, likewise the bond-type tables; (R6) POSCAR symbols line, counts line and coordinate "
    "blocks are driven by one and the same element sequence; (R7) no loader returns None for a dict-typed "
    "attribute; (R8) FCHK run-type strings the writer can emit for the documented run types are keys of the "
    "reader's mapping; (R9) fixed-width writer layouts agree with the reader's slices (decided under "
    "C03-R2).  Declined: equality of real data to the digits printed; behaviour at field overflow; "
    "multi-line titles; whether every optional attribute present in an object is written."
)
TECHNIQUE += '; option-forwarding check on the format entry points; symbolic index-map evaluation of writer flattening against reader reshape; layout-independence lint of writer traversals'
EXPLANATION += " Added: (R9) every option parameter of a format's load_one/load_many/dump_one/dump_many is read, and the many-frame routine forwards each option it shares with the one-frame routine; (R10) FCHK MO coefficients and coordinates and the QCSchema geometry, flattened by the writer expression and reshaped by the reader expression on symbolic arrays, come back entry by entry; (R10 also) every wavefunction writer's coefficient block, alpha and beta alike, is exactly signs[r] * C[permutation[r]] on symbols (the reader records the file's convention and applies nothing, so anything else comes back permuted or sign-flipped); (R11) no writer traverses an array in memory order (np.nditer without order, order='A'/'K', tobytes/tofile/view)."
TECHNIQUE += '; unit-tag abstract interpretation of reader and writer compared per attribute'
EXPLANATION += " Added: (R12) for every format with reader and writer, the unit factor the writer applies to an attribute is the inverse of one of the reader's variants (both computed by the unit-tag abstract interpreter; the QCSchema writer is analysed through the object handed to json.dump)."
TRUSTED = ["CPython ast parser", "a dict comprehension {v: k for k, v in d.items()} inverts d iff the values are distinct"]

RUN_TYPES = ["energy", "energy_force", "opt", "scan", "freq"]
EXPLANATION += ' (R13) count fields are rounded, not truncated (fchk, wfx, fcidump, molekel); (R14) formats whose reader splits lines at white space are written with a literal separator between neighbouring fields, so that a counter filling its field cannot merge with its neighbour.'
TECHNIQUE += '; count-field rule; token-separation rule on writer templates'
# --- metadata added for batch 7
TECHNIQUE += '; writer-fragment / reader-fragment evaluation on model streams (packed arrays, chunked sections, integral records, user-defined columns); abstract interpretation of reader results for dictionary keys'
EXPLANATION += " Added: (R15) Molekel centres; (R16) chunked sections (Molekel blocks of five, FCHK five per line, PDB CONECT groups of four, WFX) write every value once, in order; (R17-R19) the orbital sections of Molekel / Molden / WFN (the evaluated clauses of C01-R14..R16); (R20) dictionary keys a writer looks up are keys its reader stores; (R21) FCHK gradient / Hessian / polarizability packing against the reader's unpacking; (R22) FCIDUMP: the symmetry-unique records written rebuild both integral arrays when read; (R23) FCHK quadrupole: the writer statement lists XX YY ZZ XY XZ YZ, the reader statement stores xx xy xz yy yz zz (both evaluated on six different numbers, no frozen permutation literal); (R24) the column-driven XYZ writer and reader interpreted with user-defined columns (scalar, vector, two columns under one dictionary attribute)."
# --- end metadata batch 7
# --- metadata added for batch 8
TECHNIQUE += '; whole writer / reader pairs of the small record formats (XYZ columns, SDF, MOL2, PDB atom records, cube header, POSCAR) and the FCHK field routing, interpreted on model objects'
EXPLANATION += ' Added: (R25) cube header writer / reader; (R26) POSCAR writer against the VASP header reader on a non-orthogonal cell; (R27, R28, R32) the FCHK basis block, WFN primitive lists and Molden [GTO] centres (C01-R17..R19); (R29) FCHK field routing: dump_one and load_one interpreted as a whole with the field I/O helpers replaced by a recorder -- which attribute goes to which label and back, with which factor, permutation and packing; (R30) pdb.dump_one against the record parser on atoms with occupancy / B-factor / residue number 0; (R31) SDF and MOL2 pairs on a molecule with bond types 1, 4, 9, 11. The frozen count of literal label pairs in R2 was dropped (a table-driven writer is not an anchor loss).'
# --- end metadata batch 8
# --- metadata added after the round-3 refactoring twins
EXPLANATION += ' R5: the inverse tables are compared as values (any expression form). R6 is decided by the POSCAR writer / VASP header reader pair on a model cell with atoms [H, O, H]. R2: header keys given through `zip(keys, words)` are header keys.'
# --- end metadata round-3 twins
# --- metadata added after the round-4 refactoring twins
TECHNIQUE += '; evaluation of the FCIDUMP record writer'
EXPLANATION += ' R4: the FCIDUMP integral loops are interpreted on a 3-orbital model whose symmetry-distinct integrals all differ; every printed record `v i j k l` must be the element <ik|jl> of the array (one-based), `v i j 0 0` the one-electron element. R3: range(<expression>, ...) carries the index nature of its start value instead of counting from zero.'
# --- end metadata round-4 twins
# --- metadata added for batch 9
TECHNIQUE += '; def-use provenance of the WFX sections'
EXPLANATION += ' Added: (R33) WFX section sources as in C01-R20. R25 also feeds the whole cube loader a header with negative point counts (angstrom flavour): refused or converted, never taken as bohr. R31: the MOL2 model carries atom types that spell other elements (`CA`, `os`).'
# --- end metadata batch 9


def _lev(a, b):
    if a == b:
        return 0
    prev = list(range(len(b) + 1))
    for i, ca in enumerate(a, 1):
        cur = [i]
        for j, cb in enumerate(b, 1):
            cur.append(min(prev[j] + 1, cur[j - 1] + 1, prev[j - 1] + (ca != cb)))
        prev = cur
    return prev[-1]


def _label_of(f, e):
    """Constant label (or pattern with * for formatted parts) of an expression, else None."""
    if isinstance(e, ast.Constant) and isinstance(e.value, str):
        return [e.value]
    if isinstance(e, ast.JoinedStr):
        return ["".join(x.value if isinstance(x, ast.Constant) else "*" for x in e.values)]
    if isinstance(e, ast.Name):
        vals = []
        for n in f.own_nodes():
            if isinstance(n, ast.Assign) and any(isinstance(t, ast.Name) and t.id == e.id for t in n.targets):
                r = _label_of(f, n.value) if not isinstance(n.value, ast.Name) else None
                if r:
                    vals += r
        return vals or None
    return None


def run(ctx):
    prog = ctx.prog
    ce = ConstEval(prog)
    ctx.clauses_decided = ["R2 FCHK label tables", "R3 index offsets (writers)", "R4 FCIDUMP index-order pairing", "R5 lookup-table bijections", "R6 POSCAR same-order coherence", "R7 dict attributes never None", "R8 FCHK run-type vocabulary", "R9 options reach the per-frame routines", "R10 writer flattening vs reader reshape (symbolic evaluation)", "R11 layout-independent traversal", "R12 reader/writer unit factors are inverse", "R13 count fields rounded", "R14 token separation", "R15 Molekel centre separators (evaluated)", "R16 chunked sections complete (evaluated)", "R17-R19 Molekel / Molden / WFN orbital blocks (evaluated, shared with C01)"]
    ctx.clauses_declined = ["equality of real data to the digits printed", "behaviour at field overflow", "multi-line titles", "whether every optional attribute present is written", "R1/R9: decided under C03-R5 / C03-R2"]

    # ------------------------------------------------------------------ R2
    ctx.rule("R2", "FCHK reader and writer agree on field labels", "a field is silently never read, or written under a label the reader does not look for")
    lo = prog.format_op("fchk", "load_one")
    do = prog.format_op("fchk", "dump_one")
    wfuncs = [g for g in prog.callees_closure([do]) if g.module is do.module]
    rfuncs = [g for g in prog.callees_closure([lo]) if g.module is lo.module]
    W, R, Q, header_keys = {}, {}, set(), set()
    wpairs, rpairs = {}, {}
    for f in wfuncs:
        for cs in f.calls:
            if cs.callees and cs.cls is None and cs.callees[0].module is do.module and cs.node.args and len(cs.callees[0].posparams) >= 3:
                labs = _label_of(f, cs.node.args[0])
                if not labs:
                    continue
                for l in labs:
                    W.setdefault(l, cs.node)
                # attribute key written under this label: data.ATTR["key"]
                if len(cs.node.args) > 1:
                    for n in ast.walk(cs.node.args[1]):
                        if isinstance(n, ast.Subscript) and isinstance(n.slice, ast.Constant) and isinstance(n.value, ast.Attribute) and isinstance(n.slice.value, str):
                            for l in labs:
                                wpairs[(n.value.attr, n.slice.value)] = (l, cs.node, f)
    fname = None
    for f in rfuncs:
        for n in f.own_nodes():
            lab = None
            if isinstance(n, ast.Subscript) and isinstance(n.value, ast.Name) and isinstance(n.slice, ast.Constant) and isinstance(n.slice.value, str) and n.value.id == "fchk":
                lab = n.slice.value
            elif isinstance(n, ast.Call) and isinstance(n.func, ast.Attribute) and n.func.attr == "get" and isinstance(n.func.value, ast.Name) and n.func.value.id == "fchk" and n.args and isinstance(n.args[0], ast.Constant):
                lab = n.args[0].value
            elif isinstance(n, ast.Compare) and isinstance(n.left, ast.Constant) and isinstance(n.left.value, str) and isinstance(n.comparators[0], ast.Name) and n.comparators[0].id == "fchk":
                lab = n.left.value
            if lab is not None:
                R.setdefault(lab, (n, f))
            # requested label list: a call passing a list of string constants
            if isinstance(n, ast.Call) and len(n.args) > 1 and isinstance(n.args[1], ast.List) and n.args[1].elts and all(isinstance(e, ast.Constant) and isinstance(e.value, str) for e in n.args[1].elts):
                r = prog.resolve_expr(f, f.module, n.func)
                if r and r[0] == "func" and r[1].module is lo.module:
                    if f is lo:
                        Q |= {e.value for e in n.args[1].elts}
                        low = r[1]
                        for m in low.own_nodes():
                            if isinstance(m, ast.Subscript) and isinstance(m.ctx, ast.Store) and isinstance(m.slice, ast.Constant) and isinstance(m.slice.value, str):
                                header_keys.add(m.slice.value)
                            if isinstance(m, ast.Dict):
                                header_keys |= {k.value for k in m.keys if isinstance(k, ast.Constant) and isinstance(k.value, str)}
                            # keys given to `result.update(zip((<keys>), values))` / `dict(zip(...))`
                            if isinstance(m, ast.Call) and isinstance(m.func, ast.Name) and m.func.id == "zip" and m.args and isinstance(m.args[0], (ast.Tuple, ast.List)):
                                header_keys |= {e.value for e in m.args[0].elts if isinstance(e, ast.Constant) and isinstance(e.value, str)}
            # reader pairs: X["key"] = ... fchk["label"] ...   /  helper("label", fchk, target, "key")
            if isinstance(n, ast.Assign) and isinstance(n.targets[0], ast.Subscript) and isinstance(n.targets[0].slice, ast.Constant) and isinstance(n.targets[0].value, ast.Name) and isinstance(n.targets[0].slice.value, str):
                for m in ast.walk(n.value):
                    if isinstance(m, ast.Subscript) and isinstance(m.value, ast.Name) and m.value.id == "fchk" and isinstance(m.slice, ast.Constant):
                        rpairs[(n.targets[0].value.id, n.targets[0].slice.value)] = (m.slice.value, n, f)
            if isinstance(n, ast.Call) and len(n.args) == 4 and isinstance(n.args[0], ast.Constant) and isinstance(n.args[3], ast.Constant) and isinstance(n.args[2], ast.Name):
                rpairs[(n.args[2].id, n.args[3].value)] = (n.args[0].value, n, f)
                R.setdefault(n.args[0].value, (n, f))

    def matches(label, pats):
        for p in pats:
            if p == label:
                return True
            if "*" in p and re.fullmatch(re.escape(p).replace(r"\*", ".*"), label):
                return True
        return False

    for lab, (node, f) in sorted(R.items()):
        if lab in header_keys:
            ctx.ok("R2", f"`{lab}`: header key set by the low-level reader", f"{f.module.relpath}:{node.lineno}", sample=False)
        elif matches(lab, Q):
            ctx.ok("R2", f"`{lab}` is requested from the low-level field reader", f"{f.module.relpath}:{node.lineno}", sample=(lab in ("Mulliken Charges", "Total Energy")))
        else:
            near = [q for q in Q if _lev(q.lower(), lab.lower()) <= 2]
            ctx.violate("R2", f"the FCHK reader consumes field `{lab}` but never requests it from the low-level field reader (requested list has {near or 'nothing similar'}): the attribute is silently never loaded", f, node, construct=f"label {lab!r} not requested")
    ctx.floor("R2", len(R), 30, "labels consumed by the FCHK reader")
    ctx.floor("R2", len(Q), 35, "labels requested by the FCHK reader")
    # near-miss spellings between the two sides
    for w, wnode in W.items():
        if "*" in w or w in R:
            continue
        for r_ in R:
            if r_ in W:
                continue
            if w.lower().replace(" ", "") == r_.lower().replace(" ", "") or (_lev(w, r_) <= 2 and len(w) > 6):
                ctx.violate("R2", f"the writer emits field `{w}` while the reader looks for `{r_}`: one of the two spellings is wrong", do, wnode, construct=f"label {w!r} vs {r_!r}")
    # attribute-key <-> label pairs
    attr_of_var = {"atcharges": "atcharges", "one_rdms": "one_rdms", "result": None, "moments": "moments"}
    npair = 0
    for (var, key), (rlab, rnode, rf) in sorted(rpairs.items()):
        attr = attr_of_var.get(var, var)
        if attr is None:
            continue
        wp = wpairs.get((attr, key))
        if wp is None:
            continue
        npair += 1
        wl = wp[0]
        if wl == rlab or ("*" in wl and re.fullmatch(re.escape(wl).replace(r"\*", ".*"), rlab)):
            ctx.ok("R2", f"{attr}['{key}'] <-> `{rlab}` on both sides", f"{rf.module.relpath}:{rnode.lineno}")
        else:
            ctx.violate("R2", f"{attr}['{key}'] is read from `{rlab}` but written as `{wl}`", wp[2], wp[1], construct=f"{attr}[{key!r}]: reader {rlab!r} writer {wl!r}")
    # no floor on the literal pairs: which attribute goes to which label and back is decided by evaluation (R29), so a
    # writer that routes through a table instead of literal `if "key" in ...` statements is not an anchor loss

    # labels the reader needs unconditionally must not depend, on the writer side, on an attribute the writer declares
    # optional: otherwise a successfully written file cannot be read back
    from ..consteval import ConstEval as _CE
    from .c17 import declared_lists as _declared

    req = set()
    for mod_, f_, dname_, lists_, dnode_, fmt_ in _declared(prog, _CE(prog)):
        if f_ is do:
            req = set(lists_.get("required", []))
    unconditional = set()
    for st in lo.body:
        if isinstance(st, (ast.If, ast.For, ast.While, ast.Try, ast.With)):
            continue
        for n in ast.walk(st):
            if isinstance(n, ast.Subscript) and isinstance(n.ctx, ast.Load) and isinstance(n.value, ast.Name) and n.value.id == "fchk" and isinstance(n.slice, ast.Constant) and isinstance(n.slice.value, str) and n.slice.value not in header_keys:
                unconditional.add(n.slice.value)
    pmw = prog.parents(do)
    dparam = do.posparams[1]
    by_attr = {}
    for lab, wnode in W.items():
        if wnode is None or lab not in unconditional:
            continue
        cur = wnode
        while id(cur) in pmw:
            par = pmw[id(cur)]
            if isinstance(par, ast.If) and any(cur is b for b in par.body):
                t = par.test
                if isinstance(t, ast.Compare) and len(t.ops) == 1 and isinstance(t.ops[0], ast.IsNot) and isinstance(t.comparators[0], ast.Constant) and t.comparators[0].value is None and isinstance(t.left, ast.Attribute) and isinstance(t.left.value, ast.Name) and t.left.value.id == dparam:
                    by_attr.setdefault(t.left.attr, []).append((lab, par))
            cur = par
    nreq = 0
    for lab in sorted(unconditional & set(W)):
        nreq += 1
    for attr, items in sorted(by_attr.items()):
        labs = sorted({l for l, _ in items})
        if attr in req:
            ctx.ok("R2", f"fields {labs[:3]}... are written only when `{attr}` is set, and `{attr}` is a required attribute", f"{do.module.relpath}:{items[0][1].lineno}")
        else:
            ctx.violate("R2", f"when `{attr}` is None the FCHK writer omits {labs}, which the FCHK reader requires unconditionally, although `{attr}` is declared optional (required: {sorted(req)}): the file is written and cannot be read back", do, items[0][1], construct=f"fchk writer: reader-required fields depend on optional {attr}")
    ctx.floor("R2", nreq, 8, "labels the reader requires that the writer emits")
    # ------------------------------------------------------------------ R3
    ctx.rule("R3", "zero-based indices are written one-based", "bonds / shells / orbitals are attached to the neighbouring atom after reload")
    check_writer_offsets(ctx, "R3")

    # ------------------------------------------------------------------ R4
    ctx.rule("R4", "FCIDUMP two-electron index order is the inverse of the reader's", "integrals come back on transposed positions")
    check_fcidump_record_indices(ctx, "R4")

    # ------------------------------------------------------------------ R5
    ctx.rule("R5", "element and bond-type tables are bijections", "two symbols map to one number (or vice versa): a written label reloads as another element / bond type")
    pm = prog.module("iodata.periodic")
    for fwd, inv, lo_, hi_ in (("num2sym", "sym2num", 1, 118), ("num2bond", "bond2num", None, None)):
        try:
            t = ce.global_value(pm, fwd)
        except NotConstant as exc:
            raise AnalysisError(f"periodic.{fwd} is not a constant: {exc}") from exc
        probs = []
        if lo_ is not None and sorted(t) != list(range(lo_, hi_ + 1)):
            probs.append(f"keys are not exactly {lo_}..{hi_} (missing {sorted(set(range(lo_, hi_ + 1)) - set(t))[:5]}, extra {sorted(set(t) - set(range(lo_, hi_ + 1)))[:5]})")
        vals = list(t.values())
        dup = sorted({v for v in vals if vals.count(v) > 1})
        if dup:
            probs.append(f"duplicate values {dup}")
        if not all(isinstance(v, str) and v for v in vals):
            probs.append("non-string / empty value")
        if lo_ is not None and not all(v == v.title() and v.isalpha() and len(v) <= 2 for v in vals):
            probs.append("symbols are not 1-2 letter title-case")
        # the inverse table, as a value (a comprehension, dict(zip(values, keys)), a loop-free expression of any form)
        try:
            tinv = ce.global_value(pm, inv)
        except NotConstant:
            tinv = None
            b = pm.bindings.get(inv)
            if b is not None and getattr(b, "value", None) is not None:
                from ..accessors import AccessorEval
                from ..symarr import NotSymbolic

                ev_ = AccessorEval(prog, None, limit=4000)
                ev_.module = pm
                try:
                    tinv = ev_._eval(b.value, {})
                except NotSymbolic as exc:
                    raise AnalysisError(f"periodic.{inv} is outside the evaluation whitelist: {exc}") from exc
        invok = isinstance(tinv, dict) and tinv == {v: k for k, v in t.items()}
        if not invok:
            probs.append(f"{inv} is not defined as the inversion of {fwd}")
        where = f"{pm.relpath}:{pm.bindings[fwd].stmt.lineno}"
        if probs:
            ctx.violate("R5", f"periodic.{fwd}: " + "; ".join(probs), relpath=pm.relpath, function=f"iodata.periodic.{fwd}", construct=f"{fwd}: {'; '.join(probs)}"[:250])
        else:
            ctx.ok("R5", f"{fwd}: {len(t)} entries, distinct values; {inv} is its inversion", where)

    # ------------------------------------------------------------------ R6
    ctx.rule("R6", "POSCAR element blocks are driven by one sequence", "symbols, counts and coordinate blocks disagree: atoms reload with another element")
    # decided by evaluation: the writer on a model cell with atoms [H, O, H] into a text sink, the VASP header reader
    # on the lines -- symbols, counts and coordinate blocks agree exactly when every atom comes back with its own
    # element at its own position (however the writer loops over the elements)
    check_poscar_pair(ctx, "R6")

    # ------------------------------------------------------------------ R7
    ctx.rule("R7", "dict-typed attributes are never loaded as None", "IOData(atcharges=None): every consumer that iterates the dictionary fails, dump of the reloaded object raises")
    dattrs = dict_attr_names(prog)
    nd = 0
    for short in prog.format_modules():
        for op in ("load_one",):
            f = prog.format_op(short, op)
            if f is None:
                continue
            dom = NullDomain(prog)
            it = Interp(prog, dom)
            ret, st = it.run_function(f, {f.posparams[0]: V(VV)}, State())
            ro = it.obj(st, ret)
            if ro is None:
                continue
            for k in sorted(dattrs & {x for x in ro.slots if isinstance(x, str)}):
                nd += 1
                tag = ro.slots[k].tag
                if "N" in tag:
                    ctx.violate("R7", f"{short}.load_one may return `{k}`=None for the dict-typed attribute (must be a dict or be left out)", f, f.node, construct=f"{short} result {k}: may be None")
                else:
                    ctx.ok("R7", f"{short}: `{k}` is a dict whenever it is set", f.where, sample=(nd % 7 == 1))
    ctx.floor("R7", nd, 20, "dict-typed result slots")

    # ------------------------------------------------------------------ R8
    ctx.rule("R8", "FCHK run-type strings written are understood by the reader", "run_type is lost (None) after a save/reload cycle")
    check_fchk_run_types(ctx, "R8")

    # ------------------------------------------------------------------ R9
    ctx.rule("R9", "every option a format entry point accepts reaches its body (per-frame routines get the caller's options)", "an option such as atom_columns is accepted but silently ignored on one path: the trajectory is written/read with defaults")
    nparams = 0
    nopt = 0
    for short in prog.format_modules():
        for op in ("load_one", "load_many", "dump_one", "dump_many"):
            g = prog.format_op(short, op)
            if g is None:
                continue
            used = {n.id for n in g.own_nodes() if isinstance(n, ast.Name) and isinstance(n.ctx, ast.Load)}
            for nested in g.nested.values():
                used |= {n.id for n in ast.walk(nested.node) if isinstance(n, ast.Name) and isinstance(n.ctx, ast.Load)}
            for i, prm in enumerate(g.posparams + g.kwonly):
                nparams += 1
                if prm in used:
                    if i >= (1 if op.startswith("load") else 2) or prm in g.kwonly:
                        nopt += 1
                        ctx.ok("R9", f"{short}.{op}: option `{prm}` is used", f"{g.module.relpath}:{g.lineno}", sample=(nopt % 4 == 1))
                    continue
                ctx.violate("R9", f"{short}.{op} accepts `{prm}` but never reads it: the caller's value is ignored (the per-frame routine runs with its default)", g, g.node, construct=f"{op} ignores {prm}")
            # the many-frame routine forwards each of its options that the one-frame routine also has
            if op in ("load_many", "dump_many"):
                one = prog.format_op(short, op.replace("many", "one"))
                if one is None:
                    continue
                shared = [p_ for p_ in (g.posparams[(1 if op.startswith("load") else 2):] + g.kwonly) if p_ in one.params]
                for cs in g.calls:
                    if one in cs.callees and cs.registry_op is None:
                        b, e, okb = bind_call(cs.node, one)
                        for p_ in shared:
                            a = b.get(p_)
                            if isinstance(a, ast.Name) and a.id == p_:
                                ctx.ok("R9", f"{short}.{op} forwards `{p_}` to {one.name}", f"{g.module.relpath}:{cs.node.lineno}")
                            elif a is None and not e:
                                ctx.violate("R9", f"{short}.{op} calls {one.name} without its own `{p_}` option: every frame is processed with the default", g, cs.node)
    ctx.floor("R9", nparams, 65, "entry-point parameters")
    ctx.floor("R9", nopt, 6, "format options")

    # ------------------------------------------------------------------ R10
    ctx.rule("R10", "flattening by the writer is undone by the reader's reshape (entry by entry)", "matrices come back transposed or with rows and columns interleaved")
    from .indexmaps import check_index_maps

    check_index_maps(ctx, "R10", ["fchk_mo", "fchk_coords", "json_geometry", "writer_conventions"])
    ctx.floor("R10", ctx.rules["R10"]["obligations"], 4, "writer/reader index-map pairs")

    # ------------------------------------------------------------------ R11
    ctx.rule("R11", "writers traverse arrays in index order, never in memory order", "a Fortran-ordered or transposed (view) array is written with its values on the wrong grid points / matrix elements")
    droots = [g for short in prog.format_modules() for op in ("dump_one", "dump_many") for g in [prog.format_op(short, op)] if g is not None]
    ntrav = 0
    LAYOUT_CALLS = {"nditer": "numpy.nditer iterates in memory order unless order='C' is given", "tobytes": "raw bytes follow the memory layout", "tofile": "raw bytes follow the memory layout", "view": "a dtype view exposes the memory layout", "frombuffer": "buffers follow the memory layout", "ndenumerate": None}
    for f in prog.callees_closure(droots):
        for n in f.own_nodes():
            if isinstance(n, ast.Attribute) and n.attr in ("flat",) and isinstance(n.ctx, ast.Load):
                ntrav += 1
                ctx.ok("R11", f"{f.name}: `.flat` iterates in C (index) order", f"{f.module.relpath}:{n.lineno}", sample=(ntrav % 6 == 1), nontrivial=False)
            if isinstance(n, ast.Attribute) and n.attr in ("strides", "data") and isinstance(n.value, ast.Attribute) is False and n.attr == "strides":
                ctx.violate("R11", "a writer inspects array strides (output depends on the memory layout)", f, n)
            if not isinstance(n, ast.Call):
                continue
            nm = n.func.attr if isinstance(n.func, ast.Attribute) else getattr(n.func, "id", "")
            kw = {k.arg: k.value for k in n.keywords}
            order = kw.get("order")
            if nm in ("ravel", "flatten", "reshape"):
                if order is None and nm in ("ravel", "flatten") and n.args and isinstance(n.args[-1], ast.Constant) and isinstance(n.args[-1].value, str):
                    order = n.args[-1]
                ntrav += 1
                if order is not None and not (isinstance(order, ast.Constant) and order.value in ("C", "F")):
                    ctx.violate("R11", f"`{src_of(n)[:60]}` uses order={src_of(order)}: 'A'/'K' follow the memory layout of the caller's array", f, n)
                else:
                    ctx.ok("R11", f"{f.name}: `{nm}` with a fixed index order", f"{f.module.relpath}:{n.lineno}", sample=(ntrav % 6 == 1), nontrivial=False)
            elif nm in LAYOUT_CALLS and LAYOUT_CALLS[nm]:
                if nm == "nditer" and isinstance(order, ast.Constant) and order.value in ("C", "F"):
                    ctx.ok("R11", f"{f.name}: nditer with order={order.value!r}", f"{f.module.relpath}:{n.lineno}")
                    continue
                r = prog.resolve_expr(f, f.module, n.func)
                if nm in ("view",) and not (r and r[0] == "external"):
                    # only flag .view on arrays: a bare method named view on unknown objects is rare enough to report
                    pass
                ctx.violate("R11", f"`{src_of(n)[:60]}`: {LAYOUT_CALLS[nm]}; two arrays with equal entries but different strides are written differently", f, n)
    ctx.floor("R11", ntrav, 12, "array traversal sites in writers")


    # ------------------------------------------------------------------ R12
    ctx.rule("R12", "the writer's unit factor is the inverse of the reader's, attribute by attribute", "a quantity comes back rescaled by a unit factor after save and reload (one side converts, the other does not)")
    from .c04 import unit_tables

    both = [sh for sh in prog.format_modules() if prog.format_op(sh, "load_one") is not None and prog.format_op(sh, "dump_one") is not None]
    npairs = 0
    for short, (reader, writer, lo, do) in unit_tables(prog, both).items():
        for attr in sorted(set(reader) & set(writer)):
            rt = reader[attr]
            if not rt:
                continue  # never set / zero
            inv = {tuple(sorted((k, -v) for k, v in m)) for m in rt}
            wt = {tuple(sorted(m)) for m in writer[attr]}
            npairs += 1
            if wt and wt <= inv:
                if rt != frozenset([()]):
                    ctx.ok("R12", f"{short} `{attr}`: read x {_show_unit(rt)}, written x {_show_unit(wt)}", f"{do.module.relpath}:{do.lineno}")
                else:
                    ctx.ok("R12", f"{short} `{attr}`: no unit factor on either side", f"{do.module.relpath}:{do.lineno}", sample=False, nontrivial=False)
            else:
                ctx.violate("R12", f"{short}: `{attr}` is read with unit factor `{_show_unit(rt)}` but written with `{_show_unit(wt)}`; after save and reload the value is rescaled", do, do.node, construct=f"{short} {attr}: read {_show_unit(rt)} / written {_show_unit(wt)}")
    ctx.floor("R12", npairs, 25, "attributes both read and written by one format")
    check_count_fields(ctx, "R13")

    # ------------------------------------------------------------------ R14
    from .centers import check_molekel_centers

    ctx.rule("R15", "Molekel: shells come back on the atom they were written for (writer fragment and reader evaluated)", "a basis with an atom that carries no functions is written so that iodata cannot read the file back")
    check_molekel_centers(ctx, "R15")
    ctx.rule("R16", "chunked sections write every value once, in order (evaluated)", "a template with fewer fields than values per line drops values silently: the section is too short to be read back")
    check_chunked_sections(ctx, "R16")
    # orbital blocks of the wavefunction formats, writer fragment against reader routine (rules of C01, adopted)
    ctx.borrow("c01", {"R14": "R17", "R15": "R18", "R16": "R19", "R17": "R27", "R18": "R28", "R19": "R32"})
    ctx.rule("R20", "dictionary keys looked up by a writer are keys its reader stores", "`extra.get('occupancy')` on the writer side, `extra['occupancies']` on the reader side: the column is written with its default")
    check_dict_keys(ctx, "R20")
    ctx.rule("R21", "FCHK gradient / Hessian / polarizability: packed by the writer, unpacked by the reader to the same array (evaluated)", "Fortran-order flattening or a strict lower triangle: derivatives attached to other atoms, diagonal force constants lost")
    check_fchk_packed_arrays(ctx, "R21")
    ctx.rule("R33", "WFX: every per-atom section is written from the attribute the reader files it under; the gradient keeps its sign", "atomic numbers written from the core charges, or forces written where the reader expects gradients")
    check_wfx_field_sources(ctx, "R33")
    ctx.rule("R22", "FCIDUMP: the symmetry-unique records written rebuild the full integral arrays when read (evaluated)", "`>=` turned into `>` or a loop bound one short: a class of integrals is never written and comes back as zero")
    check_fcidump_integrals(ctx, "R22")
    ctx.rule("R23", "FCHK quadrupole: written in the file's component order, read back into the object's (evaluated)", "the reader's permutation used by the writer: xz / yz / zz come back cyclically permuted")
    from .c03 import check_fchk_moment_order

    check_fchk_moment_order(ctx, "R23")
    ctx.rule("R24", "XYZ with user-defined columns: every column written is read back into its own attribute / dictionary key (evaluated)", "two columns under one dictionary attribute: the second replaces the first, the written file cannot be read back")
    check_xyz_columns(ctx, "R24")
    ctx.rule("R25", "cube header: origin, axes, shape, atoms and core charges written are read back (writer and reader routines evaluated)", "axes written transposed, the origin in another line, core charges in the atomic-number column")
    check_cube_header_pair(ctx, "R25")
    ctx.rule("R26", "POSCAR: the cell and the fractional coordinates written give the same Cartesian positions when read (writer and header reader evaluated; atoms grouped by element)", "fractional coordinates computed with the transposed inverse cell: atoms of a non-orthogonal cell come back displaced")
    check_poscar_pair(ctx, "R26")
    ctx.rule("R30", "PDB atom records: every per-atom value the writer prints is read back by the record parser, zero included (writer and record parser evaluated)", "an occupancy of exactly 0.0 written as the default 1.00 (`value or default`), a residue number or chain in another column")
    check_pdb_atom_pair(ctx, "R30")
    ctx.rule("R31", "SDF and MOL2: atoms, coordinates, every bond with its type (the types only MOL2 names included), charges and atom types written are read back (writer and reader interpreted on a model molecule)", "bond types the writer clamps or renames on one side only: an amide / dummy / not-connected bond comes back as another type")
    check_molfile_pairs(ctx, "R31")
    ctx.rule("R29", "FCHK field routing: what dump_one hands to each labelled field comes back from load_one under the same attribute (both interpreted with the field I/O helpers stubbed)", "two charge schemes swapped between their labels, masses written without the amu factor, the core charges read from the atomic-number field, a density matrix filed under another key")
    check_fchk_field_routing(ctx, "R29")
    ctx.rule("R14", "formats read by splitting at white space are written with a literal separator between neighbouring fields", "for a large system a counter fills its field and touches its neighbour: the written line has fewer tokens and cannot be read back")
    with open(os.path.join(VERIF_DIR, "spec", "layouts.json")) as fh:
        column_formats = set(json.load(fh)) - {"_comment"}
    ntpl = 0
    for short in prog.format_modules():
        lo_, do_ = prog.format_op(short, "load_one"), prog.format_op(short, "dump_one")
        if lo_ is None or do_ is None or short in column_formats or short == "fchk":
            continue  # pdb / sdf / gromacs / fchk: column layouts, decided by C03-R2 / C02-R2
        rfun = [g for g in prog.callees_closure([lo_]) if g.module is lo_.module]
        splits = sum(1 for g in rfun for n in g.own_nodes() if isinstance(n, ast.Call) and isinstance(n.func, ast.Attribute) and n.func.attr == "split" and not n.args)
        if not splits:
            continue
        for g in [h for h in prog.callees_closure([do_]) if h.module is do_.module]:
            for n in g.own_nodes():
                if not isinstance(n, ast.JoinedStr):
                    continue
                fv = [v for v in n.values if isinstance(v, ast.FormattedValue)]
                if len(fv) < 2:
                    continue
                ntpl += 1
                bad = None
                for a, b in zip(n.values, n.values[1:]):
                    if isinstance(a, ast.FormattedValue) and isinstance(b, ast.FormattedValue):
                        spec = "".join(str(x.value) for x in b.format_spec.values if isinstance(x, ast.Constant)) if b.format_spec is not None else ""
                        # a left-aligned or string field after a number still starts with its first character
                        if spec and spec[-1] in "dfeEgG" and not spec.startswith(" "):
                            bad = (a, b, spec)
                            break
                if bad:
                    ctx.violate("R14", f"{short} writer: `{{{src_of(bad[0].value)}}}` is followed by `{{{src_of(bad[1].value)}:{bad[2]}}}` without a separator; the {short} reader splits lines at white space, so when the second number fills its {bad[2]} field the two tokens merge", g, n)
                else:
                    ctx.ok("R14", f"{short}: `{src_of(n)[:60]}` separates its fields literally", f"{g.module.relpath}:{n.lineno}", sample=(ntpl % 10 == 1), nontrivial=False)
    ctx.floor("R14", ntpl, 18, "multi-field templates in writers of white-space formats")


def check_count_fields(ctx, rid):
    from .intfields import check_integer_fields

    ctx.rule(rid, "electron counts, charges and multiplicities go into integer fields rounded, and never as floats into an integer-only format code", "9.9999999 electrons are written as 9 (the reloaded object has another charge), or a float electron count makes the writer fail after the file was opened")
    check_integer_fields(ctx, rid, _writer_funcs(ctx.prog))


def _show_unit(tag):
    from ..domains.units import show

    return show(frozenset(tuple(m) for m in tag))


def _writer_funcs(prog):
    roots = [g for short in prog.format_modules() for op in ("dump_one", "dump_many") for g in [prog.format_op(short, op)] if g is not None]
    roots += [g for short, m in prog.input_modules().items() for g in [prog.funcs.get(f"{m.name}.write_input")] if g is not None]
    return prog.callees_closure(roots)


def check_chunked_sections(ctx, rid):
    """Chunk writers (`fmt.format(*chunk)` in a loop over slices) write every value once, in order.

    `str.format` silently ignores surplus positional arguments, so a template with fewer fields than the chunk holds
    drops values without any error.  Each call site of such a helper is evaluated (accessor evaluator, model output
    file) with its own constant template / width / chunk-size arguments on integer sequences of several lengths around
    the chunk size; the numbers found in the written text must be the sequence itself."""
    from ..accessors import AccessorEval, Raised, TextSink
    from ..symarr import NotSymbolic

    prog = ctx.prog
    helpers = []
    for f in prog.package_funcs():
        if not f.module.name.startswith("iodata.formats."):
            continue
        starred = [n for n in f.own_nodes() if isinstance(n, ast.Call) and isinstance(n.func, ast.Attribute) and n.func.attr == "format" and any(isinstance(a, ast.Starred) for a in n.args)]
        loops = [n for n in f.own_nodes() if isinstance(n, (ast.While, ast.For))]
        if starred and loops and len(f.posparams) >= 3:
            helpers.append(f)
    nsite = 0
    for h in helpers:
        for g in prog.package_funcs():
            for cs in g.calls:
                if h not in cs.callees:
                    continue
                b, _e, okb = bind_call(cs.node, h)
                if not okb:
                    raise AnalysisError(f"{g.qualname}: call of {h.name} cannot be bound")
                nsite += 1
                # constant arguments (module constants are evaluated); the data argument and the file are supplied
                ev0 = AccessorEval(prog, None)
                ev0.module = g.module
                consts = {}
                dataparam = None
                for p_ in h.posparams[1:]:
                    a = b.get(p_)
                    if a is None:
                        continue
                    try:
                        v = ev0._eval(a, {})
                    except (NotSymbolic, Raised, KeyError):
                        v = None
                    if isinstance(v, (str, int)) and not isinstance(v, bool):
                        consts[p_] = v
                    elif dataparam is None:
                        dataparam = p_
                ints = sorted(v for v in consts.values() if isinstance(v, int) and v > 1)
                nline = max(ints) if ints else None
                cand = [p_ for p_, v in consts.items() if isinstance(v, int) and v == nline]
                if dataparam is None or nline is None:
                    raise AnalysisError(f"{g.qualname}: arguments of {h.name} at line {cs.node.lineno} are not constants")
                bad = None
                for n in sorted({1, nline - 1, nline, nline + 1, 2 * nline + 3}):
                    seq = [(7 * i_) % 9 + 1 for i_ in range(n)]
                    sink = TextSink()
                    env = dict(consts)
                    env[h.posparams[0]] = sink
                    env[dataparam] = list(seq)
                    try:
                        AccessorEval(prog, None, limit=4000).run_free(h, [], env)
                    except Raised as exc:
                        bad = f"{n} values: raises {exc.args[0]}"
                        break
                    except NotSymbolic as exc:
                        raise AnalysisError(f"{h.qualname} is outside the evaluation whitelist: {exc}") from exc
                    got = []
                    skip = next((v for p_, v in consts.items() if isinstance(v, int) and v != nline and p_ in ("skip",)), 0)
                    for ln in sink.text.split("\n"):
                        for tok in ln[skip:].split():
                            try:
                                got.append(int(round(float(tok))))
                            except ValueError:
                                pass
                    if got != seq:
                        bad = f"{n} values handed over, {len(got)} written" if len(got) != len(seq) else f"{n} values are written in another order"
                        break
                where = f"{g.module.relpath}:{cs.node.lineno}"
                if bad:
                    ctx.violate(rid, f"{g.name}: `{src_of(cs.node)[:70]}`: {bad} (a template with fewer fields than the chunk holds drops the surplus silently)", g, cs.node, construct=f"{src_of(cs.node)[:80]}: {bad}")
                else:
                    ctx.ok(rid, f"{g.name}: `{src_of(cs.node)[:60]}` writes every value once, in order (sequences of 1 .. {2 * nline + 3} values)", where)
    ctx.floor(rid, nsite, 5, "call sites of chunk writers")


DICT_ATTRS = ("extra", "atffparams", "atcharges", "moments", "one_rdms", "two_rdms", "one_ints", "two_ints")


def check_dict_keys(ctx, rid):
    """Keys of the dictionary attributes: every constant key a writer looks up (`data.extra.get("k")`,
    `data.atcharges["k"]`) is a key the format's own reader stores under the same attribute.  A key misspelt on one
    side is not an error at run time -- the writer silently falls back to its default (occupancy 1.00, no charges),
    so the value does not survive a save / reload cycle."""
    from ..absint import Interp, State
    from ..domains.nullness import NullDomain

    prog = ctx.prog
    n = 0
    for short, m in sorted(prog.format_modules().items()):
        lo, do = prog.format_op(short, "load_one"), prog.format_op(short, "dump_one")
        if lo is None or do is None:
            continue
        wk = {}
        for g in [do] + [h for h in prog.callees_closure([do]) if h.module is do.module]:
            for x in g.own_nodes():
                attr = key = None
                if isinstance(x, ast.Subscript) and isinstance(x.value, ast.Attribute) and x.value.attr in DICT_ATTRS and isinstance(x.slice, ast.Constant) and isinstance(x.slice.value, str) and isinstance(x.ctx, ast.Load):
                    attr, key = x.value.attr, x.slice.value
                elif isinstance(x, ast.Call) and isinstance(x.func, ast.Attribute) and x.func.attr == "get" and isinstance(x.func.value, ast.Attribute) and x.func.value.attr in DICT_ATTRS and x.args and isinstance(x.args[0], ast.Constant) and isinstance(x.args[0].value, str):
                    attr, key = x.func.value.attr, x.args[0].value
                elif isinstance(x, ast.Compare) and len(x.ops) == 1 and isinstance(x.ops[0], (ast.In, ast.NotIn)) and isinstance(x.left, ast.Constant) and isinstance(x.left.value, str) and isinstance(x.comparators[0], ast.Attribute) and x.comparators[0].attr in DICT_ATTRS:
                    attr, key = x.comparators[0].attr, x.left.value
                if key is not None:
                    wk.setdefault(attr, {})[key] = (g, x)
        if not wk:
            continue
        it = Interp(prog, NullDomain(prog))
        try:
            ret, st = it.run_function(lo, {}, State())
        except AnalysisError as exc:
            raise AnalysisError(f"while analysing {lo.qualname}: {exc}") from exc
        ro = it.obj(st, ret)
        rk = {}
        if ro is not None:
            for a in DICT_ATTRS:
                v = ro.slots.get(a)
                o = it.obj(st, v) if v is not None else None
                if o is not None:
                    rk[a] = {k for k in o.slots if isinstance(k, str)}
        for attr, keys in sorted(wk.items()):
            if attr not in rk:
                ctx.note(f"{short}: the reader's `{attr}` dictionary is not resolved by the interpreter; keys {sorted(keys)} not compared")
                continue
            for key, (g, node) in sorted(keys.items()):
                n += 1
                if key in rk[attr]:
                    ctx.ok(rid, f"{short}: `{attr}[{key!r}]` is read by the writer and stored by the reader", f"{g.module.relpath}:{node.lineno}", sample=False)
                else:
                    ctx.violate(rid, f"{short} writer looks up `{attr}[{key!r}]`, but the {short} reader stores only {sorted(rk[attr])} under `{attr}`: a value loaded from a {short} file is never written back (the writer silently uses its default)", g, node)
    ctx.floor(rid, n, 25, "dictionary keys looked up by writers")


def check_fchk_packed_arrays(ctx, rid):
    """FCHK gradient (flattened), Hessian and polarizability (lower triangle, row by row): the writer statement that
    hands each array to `_dump_real_arrays` is evaluated on a numeric array whose entries all differ, and the reader's
    unpacking (`reshape(-1, 3)`, `_triangle_to_dense`) must give the array back, symmetric ones in both triangles."""
    from ..accessors import AccessorEval, Raised, Rec
    from ..symarr import NotSymbolic

    prog = ctx.prog
    do = prog.func("iodata.formats.fchk.dump_one")
    tri = prog.funcs.get("iodata.formats.fchk._triangle_to_dense")
    dra = prog.funcs.get("iodata.formats.fchk._dump_real_arrays")
    lo_funcs = [g for g in prog.package_funcs() if g.module is do.module]
    if tri is None or dra is None:
        raise AnalysisError("fchk: _triangle_to_dense / _dump_real_arrays not found")
    iocls = prog.cls("iodata.iodata.IOData")
    H = np.array([[11.0, 21.0, 31.0], [21.0, 22.0, 32.0], [31.0, 32.0, 33.0]])
    G = np.array([[1.0, 2.0, 3.0], [4.0, 5.0, 6.0]])
    P = np.array([[0.5, 1.5, 2.5], [1.5, 3.5, 4.5], [2.5, 4.5, 5.5]])
    cases = [("Cartesian Gradient", dict(atgradient=G), G, "gradient"), ("Cartesian Force Constants", dict(athessian=H), H, "tri"), ("Polarizability", dict(extra={"polarizability_tensor": P}), P, "tri")]
    for label, fields, want, kind in cases:
        stmt = None
        for st in do.body:
            if any(isinstance(x, ast.Call) and x.args and isinstance(x.args[0], ast.Constant) and x.args[0].value == label for x in ast.walk(st)):
                stmt = st
        if stmt is None:
            raise AnalysisError(f"fchk.dump_one: the statement that writes '{label}' was not found")
        f0 = {name: None for name in iocls.fields}
        f0.update(extra={}, moments={}, atcharges={})
        f0.update(fields)
        data = Rec(iocls, **f0)
        got = {}

        def capture(args, kw, got=got):
            got[args[0]] = np.asarray(args[1], dtype=float)
            return None

        ev = AccessorEval(prog, iocls, limit=4000)
        ev.module = do.module
        ev.stubs = {dra.qualname: capture}
        try:
            ev._block([stmt], {do.posparams[0]: None, do.posparams[1]: data})
            flat = got.get(label)
            if flat is None or flat.ndim != 1:
                ctx.violate(rid, f"FCHK '{label}': the writer does not hand a flat array to _dump_real_arrays", do, stmt, construct=f"fchk {label}: not flat")
                continue
            if kind == "tri":
                back = np.asarray(AccessorEval(prog, None, limit=4000).run_free(tri, [flat], {}), dtype=float)
            else:
                rst = None
                for g in lo_funcs:
                    for x in g.own_nodes():
                        if isinstance(x, ast.Assign) and isinstance(x.targets[0], ast.Subscript) and isinstance(x.targets[0].slice, ast.Constant) and x.targets[0].slice.value == "atgradient":
                            rst = (g, x)
                if rst is None:
                    raise AnalysisError("fchk: the reader statement that stores atgradient was not found")
                g, x = rst
                src = next((n_.id for n_ in ast.walk(x.value) if isinstance(n_, ast.Name)), None)
                local = {src: flat, x.targets[0].value.id: {}}
                ev2 = AccessorEval(prog, None, limit=2000)
                ev2.module = g.module
                ev2._block([x], local)
                back = np.asarray(local[x.targets[0].value.id]["atgradient"], dtype=float)
        except Raised as exc:
            ctx.violate(rid, f"FCHK '{label}': evaluation raises {exc.args[0]}", do, stmt, construct=f"fchk {label}: raises")
            continue
        except NotSymbolic as exc:
            raise AnalysisError(f"fchk '{label}' writer / reader are outside the evaluation whitelist: {exc}") from exc
        if back.shape == want.shape and np.abs(back - want).max() < 1e-12:
            ctx.ok(rid, f"FCHK '{label}': what the writer packs, the reader unpacks to the same array" + (" (both triangles)" if kind == "tri" else ""), f"{do.module.relpath}:{stmt.lineno}")
        else:
            where = "shape " + str(back.shape) if back.shape != want.shape else "element " + str([int(v) + 1 for v in np.argwhere(np.abs(back - want) > 1e-12)[0]])
            ctx.violate(rid, f"FCHK '{label}': written as {flat.tolist()}, read back with {where} wrong: values are attached to other matrix elements / atoms", do, stmt, construct=f"fchk {label}: round trip differs")


def _fcidump_written(prog):
    """The integral loops of the FCIDUMP writer interpreted on a 3-orbital model whose symmetry-distinct one- and
    two-electron integrals all differ: (text sink, one-electron array, two-electron array, loop statements)."""
    from ..accessors import AccessorEval, Rec, TextSink

    do = prog.format_op("fcidump", "dump_one")
    iocls = prog.cls("iodata.iodata.IOData")
    n = 3
    orbit = lambda i, j, k, l: [(i, j, k, l), (j, i, l, k), (k, l, i, j), (l, k, j, i), (k, j, i, l), (i, l, k, j), (l, i, j, k), (j, k, l, i)]
    two = np.zeros((n, n, n, n))
    val = 1.0
    for i in range(n):
        for j in range(n):
            for k in range(n):
                for l in range(n):
                    if two[i, j, k, l] == 0.0:
                        val += 0.125
                        for idx in orbit(i, j, k, l):
                            two[idx] = val
    one = np.array([[0.5, 1.5, 2.5], [1.5, 3.5, 4.5], [2.5, 4.5, 5.5]])
    wloops = [st for st in do.body if isinstance(st, ast.For)]
    pre = [st for st in do.body if isinstance(st, ast.Assign) and any(isinstance(t, ast.Name) and t.id in ("one_mo", "two_mo", "nactive") for t in st.targets)]
    if len(wloops) < 2:
        raise AnalysisError("fcidump: the integral loops of dump_one were not found")
    f0 = {name: None for name in iocls.fields}
    f0.update(one_ints={"core_mo": one}, two_ints={"two_mo": two}, extra={})
    data = Rec(iocls, **f0)
    sink = TextSink()
    ev = AccessorEval(prog, iocls, limit=40000)
    ev.module = do.module
    ev._block([*pre, *wloops], {do.posparams[0]: sink, do.posparams[1]: data})
    return sink, one, two, wloops


def check_fcidump_record_indices(ctx, rid):
    """The records the FCIDUMP writer prints carry the format's indices: `value i j k l` (one-based, chemists' notation)
    is the element <ik|jl> of the physicists' array the object holds; `value i j 0 0` is the one-electron element."""
    from ..accessors import Raised
    from ..symarr import NotSymbolic

    prog = ctx.prog
    do = prog.format_op("fcidump", "dump_one")
    try:
        sink, one, two, wloops = _fcidump_written(prog)
    except Raised as exc:
        ctx.violate(rid, f"FCIDUMP writer: evaluation raises {exc.args[0]}", do, do.node, construct="fcidump records: raises")
        return
    except NotSymbolic as exc:
        raise AnalysisError(f"fcidump integral loops are outside the evaluation whitelist: {exc}") from exc
    bad = None
    n4 = n2 = 0
    for ln in sink.text.split("\n"):
        w = ln.split()
        if not w:
            continue
        try:
            v, idx = float(w[0]), [int(x) for x in w[1:5]]
        except (ValueError, IndexError):
            bad = f"a record that is not `value i j k l`: {ln!r}"
            break
        if len(idx) != 4 or min(idx) < 0 or max(idx) > 3:
            bad = f"record {ln.strip()!r}: indices outside 0..3 for three orbitals"
            break
        i, j, k, l = idx
        if k == 0 and l == 0 and i > 0 and j > 0:
            n2 += 1
            if abs(v - one[i - 1, j - 1]) > 1e-12:
                bad = f"record {ln.strip()!r}: the one-electron integral ({i} {j}) of the object is {one[i - 1, j - 1]}"
                break
        elif min(idx) > 0:
            n4 += 1
            if abs(v - two[i - 1, k - 1, j - 1, l - 1]) > 1e-12:
                bad = f"record {ln.strip()!r}: chemists' ({i}{j}|{k}{l}) is physicists' <{i}{k}|{j}{l}> = {two[i - 1, k - 1, j - 1, l - 1]} in the object (indices are one-based)"
                break
        else:
            bad = f"record {ln.strip()!r}: zero index in a two-electron record (indices are written one-based)"
            break
    if bad is None and (n4 < 10 or n2 < 6):
        bad = f"only {n4} two-electron and {n2} one-electron records for three orbitals"
    if bad:
        ctx.violate(rid, f"FCIDUMP writer, {bad}", do, wloops[0], construct=f"fcidump records: {bad}"[:170])
    else:
        ctx.ok(rid, f"FCIDUMP writer: {n4} two-electron records `v i j k l` = <ik|jl> and {n2} one-electron records `v i j 0 0`, one-based", f"{do.module.relpath}:{wloops[0].lineno}")


def check_wfx_field_sources(ctx, rid):
    """WFX sections are fed from the attribute the reader files them under.

    The reader's result dictionary says which parsed section goes to which attribute (`"atnums": data["atnums"]`,
    `"atcorenums": data["nuclear_charge"]`, ...); the writer names its sections by the same keys (`lbs["atnums"]`).
    For every such section written from the object, the value handed to the section writer -- followed through locals
    -- must come from that attribute and from no other attribute of the object, and the gradient must not change sign
    on the way (the reader takes the section as dE/dR as it stands)."""
    prog = ctx.prog
    lo = prog.format_op("wfx", "load_one")
    do = prog.format_op("wfx", "dump_one")
    key2attr = {}
    for n in lo.own_nodes():
        if isinstance(n, ast.Return) and isinstance(n.value, ast.Dict):
            for k, v in zip(n.value.keys, n.value.values):
                if not (isinstance(k, ast.Constant) and isinstance(k.value, str)):
                    continue
                key = None
                if isinstance(v, ast.Subscript) and isinstance(v.value, ast.Name) and isinstance(v.slice, ast.Constant):
                    key = v.slice.value
                elif isinstance(v, ast.Call) and isinstance(v.func, ast.Attribute) and v.func.attr == "get" and v.args and isinstance(v.args[0], ast.Constant):
                    key = v.args[0].value
                if isinstance(key, str):
                    key2attr[key] = k.value
    if len(key2attr) < 5:
        raise AnalysisError(f"wfx.load_one: the result dictionary maps only {len(key2attr)} parsed sections to attributes")
    dparam = do.posparams[1]

    def sources(e, depth=0):
        """Attributes of the object an expression is computed from (through single-definition locals)."""
        out = set()
        for x in ast.walk(e):
            if isinstance(x, ast.Attribute) and isinstance(x.value, ast.Name) and x.value.id == dparam:
                out.add(x.attr)
            elif isinstance(x, ast.Name) and x.id in do.locals and x.id not in do.params and depth < 4:
                d = single_def(do, x.id)
                if d is not None:
                    out |= sources(d, depth + 1)
        return out

    n = 0
    for cs in do.calls:
        c = cs.node
        if not (cs.callees and cs.callees[0].module is do.module):
            continue
        kw = {k.arg: k.value for k in c.keywords}
        tag = kw.get("tag", c.args[0] if c.args else None)
        info = kw.get("info", c.args[1] if len(c.args) > 1 else None)
        if not (isinstance(tag, ast.Subscript) and isinstance(tag.slice, ast.Constant) and isinstance(tag.slice.value, str)) or info is None:
            continue
        key = tag.slice.value
        attr = key2attr.get(key)
        if attr is None:
            continue
        src = sources(info)
        per_atom = {"atnums", "atcorenums", "atcoords", "atgradient", "atmasses"}
        if src & per_atom or attr in per_atom:
            n += 1
            if src & (per_atom | {attr}) == {attr}:
                ctx.ok(rid, f"wfx: section `{key}` is written from data.{attr}, the attribute the reader files it under", f"{do.module.relpath}:{c.lineno}", sample=(n % 3 == 1))
            else:
                ctx.violate(rid, f"wfx.dump_one writes the section `{key}` from {sorted('data.' + a for a in src) or 'no attribute of the object'}; the reader stores that section as `{attr}`: after a reload {attr} holds another quantity (centres with an effective core charge or ghost centres come back as other elements)", do, c, construct=f"wfx section {key} <- {sorted(src)}")
    ctx.floor(rid, n, 2, "per-atom WFX sections written from the object")
    # the gradient section is printed as it stands
    neg = [x for x in do.own_nodes() if isinstance(x, ast.UnaryOp) and isinstance(x.op, ast.USub) and "atgradient" in sources(x.operand)]
    neg += [x for x in do.own_nodes() if isinstance(x, ast.BinOp) and isinstance(x.op, ast.Mult) and any(isinstance(y, ast.Constant) and isinstance(y.value, (int, float)) and y.value < 0 for y in (x.left, x.right)) and "atgradient" in sources(x)]
    neg += [x for x in do.own_nodes() if isinstance(x, ast.BinOp) and isinstance(x.op, ast.Mult) and any(isinstance(y, ast.UnaryOp) and isinstance(y.op, ast.USub) for y in (x.left, x.right)) and "atgradient" in sources(x)]
    if neg:
        ctx.violate(rid, f"wfx.dump_one changes the sign of the gradient (`{src_of(neg[0])[:60]}`) before writing <Nuclear Cartesian Energy Gradients>; the reader takes the section as dE/dR: gradients come back with the opposite sign", do, neg[0], construct="wfx gradient sign")
    else:
        ctx.ok(rid, "wfx: the gradient section is written from data.atgradient without a change of sign", f"{do.module.relpath}:{do.lineno}")


def check_fcidump_integrals(ctx, rid):
    """FCIDUMP: the symmetry-unique integrals the writer lists are enough -- and correctly indexed -- for the reader to
    rebuild the full arrays.  The writer's two integral loops are evaluated (model output file) on a 3-orbital set of
    one- and two-electron integrals whose symmetry-distinct elements all differ; the reader's record loop (model line
    iterator; `set_four_index_element` interpreted as well) must give both arrays back."""
    from ..accessors import AccessorEval, Raised, Rec, TextSink
    from ..symarr import NotSymbolic

    prog = ctx.prog
    do = prog.format_op("fcidump", "dump_one")
    lo = prog.format_op("fcidump", "load_one")
    licls = prog.cls("iodata.utils.LineIterator")
    n = 3
    rloop = next((st for st in lo.body if isinstance(st, ast.For) and any(isinstance(x, ast.Call) and isinstance(x.func, ast.Name) and x.func.id == "set_four_index_element" for x in ast.walk(st))), None)
    if rloop is None:
        raise AnalysisError("fcidump: the record loop of load_one was not found")
    wloops = [do.node]
    try:
        sink, one, two, wloops = _fcidump_written(prog)
        lines = [ln + "\n" for ln in sink.text.split("\n") if ln.strip()]
        lit = Rec(licls, filename="F", fh=iter(lines), lineno=0, stack=[])
        local = {lo.posparams[0]: lit, "one_mo": np.zeros((n, n)), "two_mo": np.zeros((n, n, n, n)), "core_energy": 0.0, "nbasis": n}
        ev2 = AccessorEval(prog, licls, limit=80000)
        ev2.module = lo.module
        ev2.warnings = 0
        ev2._block([rloop], local)
    except Raised as exc:
        ctx.violate(rid, f"FCIDUMP integrals: evaluation raises {exc.args[0]}", do, wloops[0], construct="fcidump integrals: raises")
        return
    except NotSymbolic as exc:
        raise AnalysisError(f"fcidump integral loops are outside the evaluation whitelist: {exc}") from exc
    got2, got1 = np.asarray(local["two_mo"], dtype=float), np.asarray(local["one_mo"], dtype=float)
    bad = None
    if np.abs(got1 - one).max() > 1e-12:
        idx = tuple(int(v) for v in np.argwhere(np.abs(got1 - one) > 1e-12)[0])
        bad = f"one-electron integral {idx} comes back as {got1[idx]}, written {one[idx]}"
    elif np.abs(got2 - two).max() > 1e-12:
        idx = tuple(int(v) for v in np.argwhere(np.abs(got2 - two) > 1e-12)[0])
        bad = f"two-electron integral {idx} comes back as {got2[idx]}, the object holds {two[idx]} ({int((np.abs(got2 - two) > 1e-12).sum())} of {n ** 4} elements differ: the symmetry-unique records written do not cover / do not address the array)"
    elif getattr(ev2, "warnings", 0):
        bad = f"{ev2.warnings} duplicate record(s) are written (the reader warns and ignores them)"
    if bad:
        ctx.violate(rid, f"FCIDUMP integrals, {bad}", do, wloops[0], construct=f"fcidump integrals: {bad}"[:170])
    else:
        ctx.ok(rid, f"FCIDUMP: {len(lines)} symmetry-unique records written for 3 orbitals rebuild all {n ** 4} two-electron and {n * n} one-electron integrals", f"{do.module.relpath}:{wloops[0].lineno}")


def check_xyz_columns(ctx, rid):
    """The column-driven XYZ writer and reader, interpreted on a two-atom model object with a user-defined column list:
    a scalar column, a vector column, two columns stored under the same dictionary attribute and one under another.
    The lines the writer prints are fed to the reader (model LineIterator); every array must come back under its own
    attribute / key with its own values."""
    from ..accessors import AccessorEval, Raised, Rec, TextSink
    from ..symarr import NotSymbolic

    prog = ctx.prog
    lo = prog.format_op("xyz", "load_one")
    do = prog.format_op("xyz", "dump_one")
    licls = prog.cls("iodata.utils.LineIterator")
    iocls = prog.cls("iodata.iodata.IOData")
    F = "<function>"
    as_int = (F, lambda a, k: int(a[0]))
    as_float = (F, lambda a, k: float(a[0]))
    cols = [
        ("atnums", None, (), int, as_int, (F, lambda a, k: f"{int(a[0]):3d}")),
        ("atcoords", None, (3,), float, as_float, (F, lambda a, k: f"{float(a[0]):12.6f}")),
        ("atcharges", "mulliken", (), float, as_float, (F, lambda a, k: f"{float(a[0]):8.4f}")),
        ("atcharges", "esp", (), float, as_float, (F, lambda a, k: f"{float(a[0]):8.4f}")),
        ("extra", "tag", (), int, as_int, (F, lambda a, k: f"{int(a[0]):d}")),
    ]
    want = {
        ("atnums", None): np.array([8, 1]),
        ("atcoords", None): np.array([[0.125, 0.25, 0.375], [1.125, 1.25, 1.375]]),
        ("atcharges", "mulliken"): np.array([-0.5, 0.25]),
        ("atcharges", "esp"): np.array([-0.75, 0.375]),
        ("extra", "tag"): np.array([7, 9]),
    }
    f0 = {n: None for n in iocls.fields}
    f0.update(atnums=want[("atnums", None)], atcoords=want[("atcoords", None)], title="T",
              atcharges={"mulliken": want[("atcharges", "mulliken")], "esp": want[("atcharges", "esp")]}, extra={"tag": want[("extra", "tag")]})
    sink = TextSink()
    try:
        ev = AccessorEval(prog, iocls, limit=20000)
        ev.module = do.module
        ev.run_free(do, [sink, Rec(iocls, **f0), cols], {})
        lines = [ln + "\n" for ln in sink.text.split("\n") if ln != ""]
        if len(lines) != 4:
            ctx.violate(rid, f"xyz.dump_one writes {len(lines)} lines for two atoms with user-defined columns (count, title, one line per atom expected)", do, do.node, construct="xyz columns: line count")
            return
        lit = Rec(licls, filename="F", fh=iter(lines), lineno=0, stack=[])
        ev = AccessorEval(prog, licls, limit=20000)
        ev.module = lo.module
        res = ev.run_free(lo, [lit, cols], {})
    except Raised as exc:
        ctx.violate(rid, f"XYZ with user-defined columns (two columns under `atcharges`): the file written by dump_one makes load_one raise {exc.args[0]}", lo, lo.node, construct="xyz columns: raises")
        return
    except NotSymbolic as exc:
        raise AnalysisError(f"xyz.dump_one / load_one are outside the evaluation whitelist: {exc}") from exc
    for (attr, key), w in want.items():
        got = res.get(attr) if isinstance(res, dict) else None
        if key is not None:
            got = got.get(key) if isinstance(got, dict) else None
        if got is None or np.asarray(got).shape != w.shape or np.abs(np.asarray(got, dtype=float) - w).max() > 1e-9:
            ctx.violate(rid, f"XYZ with user-defined columns: `{attr}`" + (f"['{key}']" if key else "") + f" is written as {w.tolist()} and read back as {np.asarray(got).tolist() if got is not None else None}", lo, lo.node, construct=f"xyz columns: {attr} {key}")
            return
    ctx.ok(rid, "xyz: scalar, vector and dictionary columns (two under one attribute) written by dump_one come back from load_one under their own attribute / key", f"{lo.module.relpath}:{lo.lineno}")


def check_cube_header_pair(ctx, rid):
    """`_write_cube_header` into a model file, `_read_cube_header` on the resulting lines: a non-symmetric axes matrix,
    three different grid counts, two atoms whose core charges differ from their atomic numbers."""
    from ..accessors import AccessorEval, Raised, Rec, TextSink
    from ..symarr import NotSymbolic

    prog = ctx.prog
    wh = prog.funcs.get("iodata.formats.cube._write_cube_header")
    rh = prog.funcs.get("iodata.formats.cube._read_cube_header")
    if wh is None or rh is None:
        raise AnalysisError("cube: _write_cube_header / _read_cube_header not found")
    licls = prog.cls("iodata.utils.LineIterator")
    cucls = prog.cls("iodata.utils.Cube")
    origin = np.array([0.5, -1.5, 2.5])
    axes = np.array([[0.125, 0.25, 0.375], [0.5, 0.625, 0.75], [0.875, 1.0, 1.125]])
    shape = np.array([2, 3, 4])
    atcoords = np.array([[1.0, 2.0, 3.0], [-4.0, 5.5, 6.25]])
    atnums = np.array([14, 1])
    atcorenums = np.array([4.0, 1.0])
    cube = Rec(cucls, origin=origin, axes=axes, shape=shape, data=np.zeros((2, 3, 4)))
    sink = TextSink()
    try:
        ev = AccessorEval(prog, cucls, limit=20000)
        ev.module = wh.module
        ev.run_free(wh, [sink, "model title", atcoords, atnums, cube, atcorenums], {})
        lines = [ln + "\n" for ln in sink.text.split("\n") if ln != ""]
        lit = Rec(licls, filename="F", fh=iter(lines), lineno=0, stack=[])
        ev = AccessorEval(prog, licls, limit=20000)
        ev.module = rh.module
        title, c2, n2, cell2, cube2, q2 = ev.run_free(rh, [lit], {})
    except Raised as exc:
        ctx.violate(rid, f"cube header: the header written by _write_cube_header makes _read_cube_header raise {exc.args[0]}", rh, rh.node, construct="cube header: raises")
        return
    except (NotSymbolic, TypeError, ValueError) as exc:
        raise AnalysisError(f"cube header routines are outside the evaluation whitelist: {exc}") from exc
    num = lambda a: np.asarray(a, dtype=float)
    checks = [
        ("title", title == "model title", title),
        ("origin", num(cube2.get("origin")).shape == (3,) and np.abs(num(cube2["origin"]) - origin).max() < 1e-5, cube2.get("origin")),
        ("axes (one step vector per row)", num(cube2.get("axes")).shape == (3, 3) and np.abs(num(cube2["axes"]) - axes).max() < 1e-5, cube2.get("axes")),
        ("shape", [int(x) for x in num(cube2.get("shape")).ravel()] == [2, 3, 4], cube2.get("shape")),
        ("cell vectors = step vectors x number of points", num(cell2).shape == (3, 3) and np.abs(num(cell2) - axes * shape.reshape(-1, 1)).max() < 1e-5, cell2),
        ("atomic numbers", [int(x) for x in num(n2).ravel()] == [14, 1], n2),
        ("core charges", np.abs(num(q2) - atcorenums).max() < 1e-5 if num(q2).shape == (2,) else False, q2),
        ("atomic coordinates", num(c2).shape == (2, 3) and np.abs(num(c2) - atcoords).max() < 1e-5, c2),
    ]
    for what, ok_, got in checks:
        if not ok_:
            ctx.violate(rid, f"cube header: {what} written by _write_cube_header come(s) back as {np.asarray(got).tolist() if got is not None else None}", wh, wh.node, construct=f"cube header: {what}")
            return
    ctx.ok(rid, "cube: title, origin, three (count, step vector) lines and the atom lines (number, core charge, position) written by the header writer are read back by the header reader", f"{wh.module.relpath}:{wh.lineno}")
    # negative point counts flag a file whose lengths are in angstrom: the reader either refuses such a header or
    # converts every length; it must not hand the angstrom numbers on as bohr
    neg = [ln if not (3 <= i <= 5) else ln.replace(ln.split()[0], "-" + ln.split()[0], 1) for i, ln in enumerate(lines)]
    lit = Rec(licls, filename="F", fh=iter(neg), lineno=0, stack=[])
    lo_ = prog.format_op("cube", "load_one")
    neg = neg + [" ".join(f"{0.5 + k:.5E}" for k in range(k0, min(k0 + 6, 24))) + "\n" for k0 in range(0, 24, 6)]
    lit = Rec(licls, filename="F", fh=iter(neg), lineno=0, stack=[])
    try:
        # (the whole loader: the unmodified one refuses such a file when it allocates the grid)
        ev = AccessorEval(prog, licls, limit=40000)
        ev.module = lo_.module
        res3 = ev.run_free(lo_, [lit], {})
        c3 = res3.get("atcoords") if isinstance(res3, dict) else None
        cube3 = res3.get("cube") if isinstance(res3, dict) else None
        org3 = cube3.fields.get("origin") if isinstance(cube3, Rec) else (cube3.get("origin") if isinstance(cube3, dict) else None)
        same = c3 is not None and np.abs(np.asarray(c3, dtype=float) - atcoords).max() < 1e-9 and org3 is not None and np.abs(np.asarray(org3, dtype=float) - origin).max() < 1e-9
        if same:
            ctx.violate(rid, "a cube file with negative point counts (the format's flag for lengths in angstrom) is loaded and its origin / positions are returned unconverted, as if they were bohr", rh, rh.node, construct="cube header: angstrom flag ignored")
        else:
            ctx.ok(rid, "cube header with negative point counts: lengths are converted", f"{rh.module.relpath}:{rh.lineno}", sample=False)
    except Raised:
        ctx.ok(rid, "cube header with negative point counts (angstrom flavour) is refused", f"{rh.module.relpath}:{rh.lineno}", sample=False)
    except (NotSymbolic, TypeError, ValueError, AttributeError) as exc:
        ctx.ok(rid, f"cube header with negative point counts cannot be read ({type(exc).__name__}: {str(exc)[:80]})", f"{rh.module.relpath}:{rh.lineno}", sample=True)


def check_poscar_pair(ctx, rid):
    """poscar.dump_one into a model file, chgcar._load_vasp_header on the resulting lines (angstrom standing for 1000):
    a non-orthogonal cell and three atoms of two elements.  The cell must come back as written and every atom -- the
    format groups atoms by element, heaviest first -- at its Cartesian position."""
    from ..accessors import AccessorEval, Raised, Rec, TextSink
    from ..symarr import NotSymbolic

    prog = ctx.prog
    do = prog.format_op("poscar", "dump_one")
    rh = prog.funcs.get("iodata.formats.chgcar._load_vasp_header")
    if do is None or rh is None:
        raise AnalysisError("poscar.dump_one / chgcar._load_vasp_header not found")
    licls = prog.cls("iodata.utils.LineIterator")
    iocls = prog.cls("iodata.iodata.IOData")
    A = 1000.0
    cell = np.array([[1.0, 0.0, 0.0], [0.5, 2.0, 0.0], [0.25, 0.75, 3.0]]) * A
    atnums = np.array([1, 8, 1])
    atcoords = np.array([[100.0, 200.0, 300.0], [500.0, 600.0, 700.0], [50.0, 60.0, 70.0]])
    f0 = {n: None for n in iocls.fields}
    f0.update(title="model title", cellvecs=cell, atnums=atnums, atcoords=atcoords)
    sink = TextSink()
    try:
        ev = AccessorEval(prog, iocls, limit=20000)
        ev.module = do.module
        ev._globals = {("iodata.utils", "angstrom"): A}
        ev.run_free(do, [sink, Rec(iocls, **f0)], {})
        lines = [ln + "\n" for ln in sink.text.split("\n") if ln != ""]
        lit = Rec(licls, filename="F", fh=iter(lines), lineno=0, stack=[])
        ev = AccessorEval(prog, licls, limit=20000)
        ev.module = rh.module
        ev._globals = {("iodata.utils", "angstrom"): A}
        title, cell2, n2, c2 = ev.run_free(rh, [lit], {})
    except Raised as exc:
        ctx.violate(rid, f"POSCAR: the file written by poscar.dump_one makes the VASP header reader raise {exc.args[0]}", do, do.node, construct="poscar pair: raises")
        return
    except (NotSymbolic, TypeError, ValueError) as exc:
        raise AnalysisError(f"poscar.dump_one / _load_vasp_header are outside the evaluation whitelist: {exc}") from exc
    cell2, c2 = np.asarray(cell2, dtype=float), np.asarray(c2, dtype=float)
    n2 = [int(x) for x in np.asarray(n2).ravel()]
    if cell2.shape != (3, 3) or np.abs(cell2 - cell).max() > 1e-6:
        ctx.violate(rid, f"POSCAR: the cell {(cell / A).tolist()} (angstrom) comes back as {(cell2 / A).round(6).tolist()}", do, do.node, construct="poscar pair: cell")
        return
    if n2 != [8, 1, 1]:
        ctx.violate(rid, f"POSCAR: atoms [H, O, H] come back as atomic numbers {n2}; the format groups by element, heaviest first: [8, 1, 1]", do, do.node, construct="poscar pair: elements")
        return
    want = np.array([atcoords[1], atcoords[0], atcoords[2]])
    if c2.shape != (3, 3) or np.abs(c2 - want).max() > 1e-6:
        k = int(np.argwhere(np.abs(c2 - want).max(axis=1) > 1e-6)[0][0]) if c2.shape == (3, 3) else 0
        ctx.violate(rid, f"POSCAR, non-orthogonal cell: the atom written at {want[k].tolist()} comes back at {c2[k].round(6).tolist() if c2.shape == (3, 3) else c2.shape}: the fractional coordinates written do not reproduce the Cartesian position with the cell written next to them", do, do.node, construct="poscar pair: positions")
        return
    ctx.ok(rid, "poscar: cell, element groups (heaviest first, original order within a group) and Cartesian positions of a non-orthogonal model cell come back from the VASP header reader", f"{do.module.relpath}:{do.lineno}")


def check_fchk_run_types(ctx, rid):
    """Every documented run type survives an FCHK round trip of the header: dump_one (field writers stubbed) prints the
    two header lines for a model object with that run type; `_load_fchk_low` is interpreted on those two lines (model
    LineIterator) and load_one on its result (the remaining fields taken from the recorder)."""
    from ..accessors import AccessorEval, Raised, Rec

    prog = ctx.prog
    lo = prog.format_op("fchk", "load_one")
    lost = []
    for rt in RUN_TYPES:
        out = _fchk_model_roundtrip(ctx, rid, run_type=rt, real_header=True)
        if out is None:
            return
        res, header = out
        back = res.get("run_type")
        if back == rt:
            ctx.ok(rid, f"run_type '{rt}' is written as `{header[1].split()[0] if header[1].split() else ''}` and read back as '{back}'", f"{lo.module.relpath}:{lo.lineno}")
        else:
            lost.append(f"{rt} -> `{header[1].strip()[:20]}` -> {back!r}")
    if lost:
        ctx.violate(rid, f"documented run types do not survive the FCHK header: {lost}; the run type is lost or changed on reload", lo, lo.node, construct="run_type vocabulary: " + ", ".join(lost)[:150])


def _fchk_model_roundtrip(ctx, rid, run_type="freq", real_header=False):
    """dump_one on the model object (field writers recorded), load_one on the record; returns (result, header lines,
    model fields, expected values, number of fields) or None after reporting a violation.  With `real_header` the two
    header lines the writer prints are parsed by the interpreted `_load_fchk_low` instead of being given."""
    from ..accessors import AccessorEval, Raised, Rec, TextSink
    from ..consteval import ConstEval, NotConstant
    from ..symarr import NotSymbolic

    prog = ctx.prog
    do = prog.format_op("fchk", "dump_one")
    lo = prog.format_op("fchk", "load_one")
    low = prog.funcs.get("iodata.formats.fchk._load_fchk_low")
    if low is None:
        raise AnalysisError("fchk._load_fchk_low not found")
    iocls = prog.cls("iodata.iodata.IOData")
    shcls = prog.cls("iodata.basis.Shell")
    bcls = prog.cls("iodata.basis.MolecularBasis")
    mocls = prog.cls("iodata.orbitals.MolecularOrbitals")
    try:
        conv = ConstEval(prog).global_value(do.module, "CONVENTIONS")
    except NotConstant as exc:
        raise AnalysisError(f"fchk.CONVENTIONS is not a constant: {exc}") from exc
    AMU = 1000.0
    H = np.array([[float(10 * (max(i, j) + 1) + min(i, j) + 1) for j in range(6)] for i in range(6)])  # symmetric, all different
    sh = lambda ic, ex, co: Rec(shcls, icenter=ic, angmoms=np.array([0]), kinds=["c"], exponents=np.array(ex), coeffs=np.array(co))
    charges = {k: np.array([i + 0.25, -(i + 0.25)]) for i, k in enumerate(["mulliken", "esp", "npa", "mbs", "hirshfeld", "cm5"])}
    f0 = {n: None for n in iocls.fields}
    for n in ("atffparams", "two_rdms", "one_ints", "two_ints"):
        if n in f0:
            f0[n] = {}
    want = dict(
        title="model", lot="hf", obasis_name="sto-3g", atnums=np.array([8, 1]), atcoords=np.array([[0.125, 0.25, 0.375], [1.125, 1.25, 1.375]]),
        atmasses=np.array([29164.0, 1837.0]), energy=-75.5, atcharges=charges,
        atgradient=np.array([[0.01, 0.02, 0.03], [0.04, 0.05, 0.06]]), athessian=H,
        moments={(1, "c"): np.array([0.5, 0.6, 0.7]), (2, "c"): np.array([1.0, 2.0, 3.0, 4.0, 5.0, 6.0])},
        extra={"polarizability_tensor": np.array([[1.0, 2.0, 4.0], [2.0, 3.0, 5.0], [4.0, 5.0, 6.0]])},
        one_rdms={"scf": np.array([[1.5, 0.25], [0.25, 0.5]]), "scf_spin": np.array([[0.125, -0.75], [-0.75, 0.0625]])},
    )
    f0.update(want)
    f0.update(run_type=run_type, _atcorenums=np.array([6.0, 1.0]))
    f0["obasis"] = Rec(bcls, shells=[sh(0, [5.0, 1.0], [[0.4], [0.6]]), sh(1, [0.7], [[1.0]])], conventions=conv, primitive_normalization="L2")
    f0["mo"] = Rec(mocls, kind="restricted", norba=2, norbb=2, occs=np.array([2.0, 0.0]), coeffs=np.array([[0.6, 0.8], [0.7, -0.5]]), energies=np.array([-1.5, 0.25]), irreps=None, occs_aminusb=None)
    got = {}

    def cap(args, kw):
        if args[0] in got:
            got["<twice>"] = args[0]
        got[args[0]] = args[1]

    try:
        ev = AccessorEval(prog, iocls, limit=80000)
        ev.module = do.module
        ev._globals = {("iodata.utils", "amu"): AMU}
        ev.stubs = {f"iodata.formats.fchk.{nm}": cap for nm in ("_dump_integer_scalars", "_dump_integer_arrays", "_dump_real_arrays", "_dump_real_scalars")}
        sink = TextSink()
        ev.run_free(do, [sink, Rec(iocls, **f0)], {})
        header = (sink.text.split("\n") + ["", ""])[:2]
        if "<twice>" in got:
            ctx.violate(rid, f"fchk.dump_one writes the field '{got['<twice>']}' twice for one object: the reader keeps one of them", do, do.node, construct=f"fchk routing: {got['<twice>']} twice")
            return
        fields = {k: (np.asarray(v) if isinstance(v, (list, tuple, np.ndarray)) else v) for k, v in got.items()}
        if real_header:
            licls = prog.cls("iodata.utils.LineIterator")
            lit = Rec(licls, filename="F", fh=iter([header[0] + "\n", header[1] + "\n"]), lineno=0, stack=[])
            evh = AccessorEval(prog, licls, limit=4000)
            evh.module = low.module
            fields.update(evh.run_free(low, [lit, []], {}))
        else:
            fields.update(title="model", command="FREQ", lot="HF", obasis_name="STO-3G")
        ev = AccessorEval(prog, iocls, limit=80000)
        ev.module = lo.module
        ev._globals = {("iodata.utils", "amu"): AMU}
        ev.stubs = {low.qualname: lambda a, k: fields}
        res = ev.run_free(lo, [None], {})
    except Raised as exc:
        ctx.violate(rid, f"FCHK field routing: the fields dump_one writes for a model object make load_one raise {exc.args[0]}", lo, lo.node, construct="fchk routing: raises")
        return
    except NotSymbolic as exc:
        raise AnalysisError(f"fchk.dump_one / load_one are outside the evaluation whitelist: {exc}") from exc
    if not isinstance(res, dict):
        raise AnalysisError("fchk.load_one did not return a dictionary")
    if real_header:
        return res, header
    return res, header, f0, want, got, do, lo, AMU


def check_fchk_field_routing(ctx, rid):
    """The routing part of the FCHK writer and reader as a whole: `dump_one` is interpreted on a model object (two
    atoms, two s shells, restricted orbitals, every optional attribute set to values that all differ) with the four
    field writers replaced by a recorder; `load_one` is interpreted with the low-level field reader replaced by that
    record (header fields as the writer prints them).  No text is produced or parsed here -- the formatting of fields
    is the business of C02-R14 / R16 / R21 -- what is decided is which attribute goes to which label and back, with
    which factor, permutation and packing."""
    from ..accessors import AccessorEval, Raised, Rec, TextSink
    from ..consteval import ConstEval, NotConstant
    from ..symarr import NotSymbolic

    from ..accessors import Rec

    out = _fchk_model_roundtrip(ctx, rid)
    if out is None:
        return
    res, header, f0, want, got, do, lo, AMU = out

    def same_value(a, b):
        if isinstance(b, dict):
            return isinstance(a, dict) and set(a) == set(b) and all(same_value(a[k], b[k]) for k in b)
        if isinstance(b, np.ndarray):
            a_ = np.asarray(a, dtype=float) if a is not None else None
            return a_ is not None and a_.shape == b.shape and np.abs(a_ - b).max() < 1e-9
        if isinstance(b, float):
            return a is not None and not isinstance(a, (str, dict)) and abs(float(a) - b) < 1e-12
        return a == b

    expect = dict(want)
    expect["atcorenums"] = np.array([6.0, 1.0])
    for key, w in expect.items():
        g = res.get(key)
        if key == "extra":
            g = {k: v for k, v in (g or {}).items() if k in w}
        if not same_value(g, w):
            show = lambda v: {str(k): np.asarray(x).round(6).tolist() for k, x in v.items()} if isinstance(v, dict) else (np.asarray(v).round(6).tolist() if isinstance(v, np.ndarray) else v)
            ctx.violate(rid, f"FCHK field routing: `{key}` is written as {str(show(w))[:160]} and read back as {str(show(g))[:160]} (amu standing for {AMU:g})", do, do.node, construct=f"fchk routing: {key}")
            return
    mo = res.get("mo")
    ob = res.get("obasis")
    bad = None
    if not isinstance(mo, Rec) or mo.fields.get("kind") != "restricted" or not same_value(mo.fields.get("energies"), f0["mo"].fields["energies"]) or not same_value(mo.fields.get("coeffs"), f0["mo"].fields["coeffs"]) or not same_value(mo.fields.get("occs"), f0["mo"].fields["occs"]):
        bad = "the orbitals (kind, energies, coefficients, occupations from the electron counts)"
    elif not isinstance(ob, Rec) or len(ob.fields.get("shells", [])) != 2 or any(int(a.fields["icenter"]) != int(b.fields["icenter"]) or not same_value(a.fields["exponents"], b.fields["exponents"]) or not same_value(a.fields["coeffs"], b.fields["coeffs"]) for a, b in zip(ob.fields["shells"], f0["obasis"].fields["shells"])):
        bad = "the basis set"
    if bad:
        ctx.violate(rid, f"FCHK field routing: {bad} of the model object do(es) not come back as written", do, do.node, construct=f"fchk routing: {bad}")
        return
    ctx.ok(rid, f"fchk: {len(got)} labelled fields written for a model object come back under their own attributes ({', '.join(sorted(expect))}, mo, obasis)", f"{do.module.relpath}:{do.lineno}")


def check_pdb_atom_pair(ctx, rid):
    """pdb.dump_one interpreted on a three-atom model object whose per-atom values all differ and include the values a
    shortcut gets wrong (occupancy 0.0, B-factor 0.0, residue number 0); every ATOM line it prints is handed to the
    module's own record parser, which must give the values back."""
    from ..accessors import AccessorEval, Raised, Rec, TextSink
    from ..symarr import NotSymbolic

    prog = ctx.prog
    do = prog.format_op("pdb", "dump_one")
    rp = prog.funcs.get("iodata.formats.pdb._parse_pdb_atom_line")
    if rp is None:
        raise AnalysisError("pdb._parse_pdb_atom_line not found")
    licls = prog.cls("iodata.utils.LineIterator")
    iocls = prog.cls("iodata.iodata.IOData")
    f0 = {n: None for n in iocls.fields}
    coords = np.array([[-11.125, 22.25, -3.375], [0.5, -0.25, 8.0], [100.0, 0.0, -99.5]])
    want = dict(attypes=["CA", "N", "O1"], restypes=["GLY", "ALA", "HOH"], resnums=[42, 0, 7], occupancies=[0.75, 0.0, 1.0], bfactors=[12.5, 0.0, 3.25], chainids=["B", "A", "C"])
    f0.update(title="T", atnums=np.array([6, 7, 8]), atcoords=coords,
              atffparams={"attypes": np.array(want["attypes"]), "restypes": np.array(want["restypes"]), "resnums": np.array(want["resnums"])},
              extra={"occupancies": np.array(want["occupancies"]), "bfactors": np.array(want["bfactors"]), "chainids": np.array(want["chainids"])})
    sink = TextSink()
    try:
        ev = AccessorEval(prog, iocls, limit=20000)
        ev.module = do.module
        ev._globals = {("iodata.utils", "angstrom"): 1.0}
        ev.run_free(do, [sink, Rec(iocls, **f0)], {})
        recs = [ln for ln in sink.text.split("\n") if ln.startswith(("ATOM", "HETATM"))]
        if len(recs) != 3:
            ctx.violate(rid, f"pdb.dump_one writes {len(recs)} atom records for three atoms", do, do.node, construct="pdb atom pair: record count")
            return
        back = []
        for ln in recs:
            lit = Rec(licls, filename="F", fh=iter([]), lineno=1, stack=[])
            ev = AccessorEval(prog, licls, limit=2000)
            ev.module = rp.module
            ev._globals = {("iodata.utils", "angstrom"): 1.0}
            back.append(ev.run_free(rp, [ln + "\n", lit], {}))
    except Raised as exc:
        ctx.violate(rid, f"PDB atom records: evaluation raises {exc.args[0]}", do, do.node, construct="pdb atom pair: raises")
        return
    except NotSymbolic as exc:
        raise AnalysisError(f"pdb.dump_one / _parse_pdb_atom_line are outside the evaluation whitelist: {exc}") from exc
    for i, res in enumerate(back):
        atnum, atname, resname, chainid, resnum, atcoord, occ, bfac = res
        got = dict(atnums=int(atnum), attypes=atname, restypes=resname, chainids=chainid, resnums=int(resnum), occupancies=float(occ), bfactors=float(bfac))
        exp = dict(atnums=[6, 7, 8][i], **{k: v[i] for k, v in want.items()})
        for k in exp:
            if got[k] != exp[k]:
                ctx.violate(rid, f"PDB atom record {i + 1}: `{k}` = {exp[k]!r} is written and read back as {got[k]!r}", do, do.node, construct=f"pdb atom pair: {k}")
                return
        if np.abs(np.asarray(atcoord, dtype=float) - coords[i]).max() > 1e-3:
            ctx.violate(rid, f"PDB atom record {i + 1}: coordinates {coords[i].tolist()} come back as {np.asarray(atcoord, dtype=float).tolist()}", do, do.node, construct="pdb atom pair: coordinates")
            return
    ctx.ok(rid, "pdb: names, residues, chains, residue numbers (0 included), coordinates, occupancies and B-factors (0.0 included) of three model atoms written by dump_one come back from the record parser", f"{do.module.relpath}:{do.lineno}")


def check_molfile_pairs(ctx, rid):
    """The two small connection-table formats as whole pairs (like XYZ, the formats *are* their record loops: 17 / 30
    lines of writer, 45 / 40 of reader): dump_one interpreted on a four-atom model molecule with four bonds of types
    1, 4 (aromatic), 9 (amide) and 11 (not connected), load_one on the printed lines."""
    from ..accessors import AccessorEval, Raised, Rec, TextSink
    from ..symarr import NotSymbolic

    prog = ctx.prog
    licls = prog.cls("iodata.utils.LineIterator")
    iocls = prog.cls("iodata.iodata.IOData")
    coords = np.array([[0.5, 1.5, -2.5], [1.25, 0.0, 3.0], [2.0, 2.0, 2.0], [-1.0, -1.0, -1.0]])
    bonds = np.array([[0, 1, 1], [1, 2, 9], [2, 3, 11], [0, 3, 4]])
    charges = np.array([0.1, -0.2, 0.0, 0.3])
    # (force-field atom types that spell other elements: PDB-style `CA` on a carbon, GAFF `os` on an oxygen -- the
    # element is what the atomic numbers say, not what the type column suggests)
    types_ = ["CA", "N.am", "os", "H"]
    for short in ("sdf", "mol2"):
        do, lo = prog.format_op(short, "dump_one"), prog.format_op(short, "load_one")
        f0 = {n: None for n in iocls.fields}
        f0.update(title="T", atnums=np.array([6, 7, 8, 1]), atcoords=coords, bonds=bonds, atcharges={"mol2charges": charges}, atffparams={"attypes": np.array(types_)}, extra={})
        sink = TextSink()
        try:
            ev = AccessorEval(prog, iocls, limit=40000)
            ev.module = do.module
            ev._globals = {("iodata.utils", "angstrom"): 1.0}
            ev.run_free(do, [sink, Rec(iocls, **f0)], {})
            lines = [ln + "\n" for ln in sink.text.split("\n")]
            lit = Rec(licls, filename="F", fh=iter(lines), lineno=0, stack=[])
            ev = AccessorEval(prog, licls, limit=40000)
            ev.module = lo.module
            ev._globals = {("iodata.utils", "angstrom"): 1.0}
            res = ev.run_free(lo, [lit], {})
        except Raised as exc:
            ctx.violate(rid, f"{short}: the file dump_one writes for a model molecule makes load_one raise {exc.args[0]}", lo, lo.node, construct=f"{short} pair: raises")
            continue
        except NotSymbolic as exc:
            raise AnalysisError(f"{short}.dump_one / load_one are outside the evaluation whitelist: {exc}") from exc
        bad = None
        num = lambda v: np.asarray(v, dtype=float)
        if [int(x) for x in num(res.get("atnums")).ravel()] != [6, 7, 8, 1]:
            bad = f"atomic numbers come back as {num(res.get('atnums')).tolist()}"
        elif num(res.get("atcoords")).shape != coords.shape or np.abs(num(res["atcoords"]) - coords).max() > 1e-3:
            bad = f"coordinates come back as {num(res.get('atcoords')).tolist()}"
        elif res.get("bonds") is None or [[int(x) for x in row] for row in num(res["bonds"]).tolist()] != bonds.tolist():
            got = None if res.get("bonds") is None else [[int(x) for x in row] for row in num(res["bonds"]).tolist()]
            k = next((i for i, (a, b) in enumerate(zip(got or [], bonds.tolist())) if a != b), 0)
            bad = f"bond {k + 1} (atoms {bonds[k, 0] + 1}-{bonds[k, 1] + 1}, type {bonds[k, 2]}) comes back as {got[k] if got and k < len(got) else got}"
        elif short == "mol2" and (np.abs(num(res.get("atcharges", {}).get("mol2charges")) - charges).max() > 1e-4 or list(res.get("atffparams", {}).get("attypes", ())) != types_):
            bad = f"charges / atom types come back as {res.get('atcharges')}, {res.get('atffparams')}"
        if bad:
            ctx.violate(rid, f"{short}: {bad}", do, do.node, construct=f"{short} pair: {bad}"[:160])
        else:
            ctx.ok(rid, f"{short}: four atoms and four bonds (types 1, 9, 11, 4)" + (", charges and atom types" if short == "mol2" else "") + " written by dump_one come back from load_one", f"{do.module.relpath}:{do.lineno}")
