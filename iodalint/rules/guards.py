"""prepare_dump guard matrix (C01-R6 / C08-R5): sibling consistency of the wavefunction writers."""

from __future__ import annotations

import ast

from ..astutil import bind_call, raises_class, walk_stmts
from ..cfg import cfg_of
from ..model import src_of

# frozen matrix (DESIGN.md Appendix C), one line of reason each
MATRIX = {
    "fchk": {"generalized": "FCHK has no two-component orbital section", "aufbau_alpha": "FCHK stores electron counts, not occupations: only aufbau occupations can be represented", "aufbau_beta": "same for the beta occupations (restricted open-shell included)", "segmented": True},
    "molden": {"mo_none": "a Molden file without orbitals is not written", "obasis_none": "the [GTO] section is mandatory", "generalized": "no two-component orbitals in Molden", "aminusb": True, "segmented": False},
    "molekel": {"mo_none": "MKL needs orbitals", "obasis_none": "MKL needs a basis", "generalized": "no two-component orbitals in MKL", "aminusb": True, "segmented": False},
    "wfn": {"mo_none": "WFN needs orbitals", "obasis_none": "WFN needs a basis", "generalized": "no two-component orbitals in WFN", "pure": "WFN primitives are Cartesian only", "aminusb": True, "segmented": False},
    "wfx": {"mo_none": "WFX needs orbitals", "obasis_none": "WFX needs a basis", "generalized": "no two-component orbitals in WFX", "pure": "WFX primitives are Cartesian only", "aminusb": True, "segmented": False},
}


def _guard_kind(test_txt, body_txt):
    t = test_txt.replace('"', "'")
    if t.endswith(".mo is None"):
        return "mo_none"
    if t.endswith(".obasis is None"):
        return "obasis_none"
    if t.endswith(".mo.kind == 'generalized'"):
        return "generalized"
    if ".mo.occsa" in t and ".mo.occsb" not in t:
        return "aufbau_alpha"
    if ".mo.occsb" in t and ".mo.occsa" not in t:
        return "aufbau_beta"
    if "kind" in t and ("'c'" in t or "'p'" in t) and ".mo." not in t:
        return "pure"
    return None


def check_aminusb_predicate(ctx, rid):
    """prepare_unrestricted_aminusb, evaluated on abstract objects: identity exactly when there is nothing to convert,
    PrepareDumpError / (warning + unrestricted copy) otherwise, ValueError for generalized / missing orbitals."""
    import numpy as np

    from .. import AnalysisError
    from ..accessors import AccessorEval, Raised, Rec
    from ..symarr import NotSymbolic, sym_array
    from .c12_semantics import _eq

    prog = ctx.prog
    pa = prog.func("iodata.prepare.prepare_unrestricted_aminusb")
    mo_cls = prog.cls("iodata.orbitals.MolecularOrbitals")
    iocls = prog.cls("iodata.iodata.IOData")
    where = f"{pa.module.relpath}:{pa.lineno}"

    def mo(kind, aminusb):
        n = 6 if kind == "unrestricted" else 3
        d = {"sym": sym_array("d", (3,)), "zeros": np.zeros(3), "zero-sum": np.array([0.0, 0.5, -0.5]), "beta-majority": np.array([-1.0, -1.0, 0.0]), None: None}[aminusb]
        return Rec(mo_cls, kind=kind, norba=3, norbb=3, occs=sym_array("o", (n,)) if aminusb in ("sym", None) else (np.array([1.0, 1.0, 0.0]) if aminusb == "beta-majority" else np.array([2.0, 1.0, 1.0])), coeffs=sym_array("c", (2, n)), energies=sym_array("e", (n,)), irreps=None, occs_aminusb=d)

    def call(data, allow):
        ev = AccessorEval(prog, mo_cls)
        ev.module = pa.module
        ev.warnings = 0
        try:
            r = ev.run_free(pa, [data, allow, "file", "FMT"], {})
        except Raised as exc:
            return exc.cls, ev.warnings
        return r, ev.warnings

    try:
        # nothing to do
        for label, m in (("unrestricted orbitals", mo("unrestricted", None)), ("restricted orbitals without occs_aminusb", mo("restricted", None))):
            for allow in (False, True):
                data = Rec(iocls, mo=m)
                r, nw = call(data, allow)
                if r is data and nw == 0:
                    ctx.ok(rid, f"{label} (allow_changes={allow}): the very same object is returned, no warning", where, sample=(allow is False))
                else:
                    ctx.violate(rid, f"{label} (allow_changes={allow}): expected the same object back, got {('another object' if isinstance(r, Rec) else r)!s} ({nw} warning(s))", pa, pa.node, construct=f"aminusb identity {label} allow={allow}")
        # conversion needed: any explicit occs_aminusb, also one that sums to zero or vanishes
        for variant in ("sym", "zero-sum", "zeros", "beta-majority"):
            data = Rec(iocls, mo=mo("restricted", variant))
            r, nw = call(data, False)
            if r == "PrepareDumpError":
                ctx.ok(rid, f"restricted orbitals with explicit occs_aminusb ({variant}), allow_changes=False: PrepareDumpError", where)
            else:
                ctx.violate(rid, f"restricted orbitals with an explicit occs_aminusb ({variant}) pass prepare_unrestricted_aminusb unconverted with allow_changes=False (got {'the same object' if r is data else r}): the writers then store only mo.occs and the alpha/beta occupations are lost", pa, pa.node, construct=f"aminusb {variant} not rejected")
            obmark = Rec(None, tag="basis")
            data = Rec(iocls, mo=mo("restricted", variant), title="MARK", obasis=obmark)
            src_mo = data.fields["mo"]
            try:
                r, nw = call(data, True)
            except NotSymbolic as exc:
                if variant == "sym":
                    ctx.note(f"prepare_unrestricted_aminusb (symbolic occs_aminusb, allow_changes=True): not decidable on symbols ({exc}); decided on the constant patterns")
                    continue
                raise
            okc = isinstance(r, Rec) and r is not data and isinstance(r.fields.get("mo"), Rec) and r.fields["mo"].fields.get("kind") == "unrestricted" and nw == 1
            if okc:
                ev = AccessorEval(prog, mo_cls)
                same_occ = _eq(AccessorEval(prog, mo_cls).get(r.fields["mo"], "occsa"), AccessorEval(prog, mo_cls).get(src_mo, "occsa")) and _eq(AccessorEval(prog, mo_cls).get(r.fields["mo"], "occsb"), AccessorEval(prog, mo_cls).get(src_mo, "occsb"))
                okc = same_occ and data.fields["mo"] is src_mo and r.fields.get("title") == "MARK" and r.fields.get("obasis") is obmark
                for view in ("coeffsa", "coeffsb", "energiesa", "energiesb"):
                    try:
                        va, vb = AccessorEval(prog, mo_cls).get(r.fields["mo"], view), AccessorEval(prog, mo_cls).get(src_mo, view)
                    except (Raised, NotSymbolic):
                        continue
                    if (va is None) != (vb is None) or (va is not None and not _eq(va, vb)):
                        okc = False
            if okc:
                ctx.ok(rid, f"restricted orbitals with explicit occs_aminusb ({variant}), allow_changes=True: one warning, a new object with unrestricted orbitals carrying the same alpha / beta occupations; the caller's object is untouched", where)
            else:
                ctx.violate(rid, f"restricted orbitals with explicit occs_aminusb ({variant}), allow_changes=True: expected a warning and a converted copy, got {('an object' if isinstance(r, Rec) else r)!s} with {nw} warning(s)", pa, pa.node, construct=f"aminusb {variant} conversion")
        for label, data in (("generalized orbitals", Rec(iocls, mo=Rec(mo_cls, kind="generalized", norba=None, norbb=None, occs=None, coeffs=None, energies=None, irreps=None, occs_aminusb=None))), ("no orbitals", Rec(iocls, mo=None))):
            r, nw = call(data, True)
            if isinstance(r, str) and r.endswith("Error"):
                ctx.ok(rid, f"{label}: {r}", where, sample=False)
            else:
                ctx.violate(rid, f"{label} are accepted by prepare_unrestricted_aminusb", pa, pa.node, construct=f"aminusb {label}")
    except NotSymbolic as exc:
        raise AnalysisError(f"prepare_unrestricted_aminusb is outside the accessor-evaluation whitelist: {exc}") from exc


def check_guard_matrix(ctx, rid):
    """Semantic guard matrix: the shared preparation helper and the five prepare_dump routines are evaluated on
    abstract objects (iodalint.accessors) and every outcome is compared with the documented capabilities."""
    from .guards_semantics import check_guard_semantics

    check_aminusb_predicate(ctx, rid)
    check_guard_semantics(ctx, rid)
