"""prepare_dump guard matrix (C01-R6 / C08-R5): sibling consistency of the wavefunction writers."""

from __future__ import annotations

import ast

from ..astutil import bind_call, raises_class, walk_stmts
from ..cfg import cfg_of
from ..model import src_of

# frozen matrix (DESIGN.md Appendix C), one line of reason each
MATRIX = {
    "fchk": {"generalized": "FCHK has no two-component orbital section", "aufbau_alpha": "FCHK stores electron counts, not occupations: only aufbau occupations can be represented", "aufbau_beta": "same for the beta occupations (restricted open-shell included)", "segmented": True},
    "molden": {"mo_none": "a Molden file without orbitals is not written", "obasis_none": "the [GTO] section is mandatory", "generalized": "no two-component orbitals in Molden", "aminusb": True, "segmented": False},
    "molekel": {"mo_none": "MKL needs orbitals", "obasis_none": "MKL needs a basis", "generalized": "no two-component orbitals in MKL", "aminusb": True, "segmented": False},
    "wfn": {"mo_none": "WFN needs orbitals", "obasis_none": "WFN needs a basis", "generalized": "no two-component orbitals in WFN", "pure": "WFN primitives are Cartesian only", "aminusb": True, "segmented": False},
    "wfx": {"mo_none": "WFX needs orbitals", "obasis_none": "WFX needs a basis", "generalized": "no two-component orbitals in WFX", "pure": "WFX primitives are Cartesian only", "aminusb": True, "segmented": False},
}


def _guard_kind(test_txt, body_txt):
    t = test_txt.replace('"', "'")
    if t.endswith(".mo is None"):
        return "mo_none"
    if t.endswith(".obasis is None"):
        return "obasis_none"
    if t.endswith(".mo.kind == 'generalized'"):
        return "generalized"
    if ".mo.occsa" in t and ".mo.occsb" not in t:
        return "aufbau_alpha"
    if ".mo.occsb" in t and ".mo.occsa" not in t:
        return "aufbau_beta"
    if "kind" in t and ("'c'" in t or "'p'" in t) and ".mo." not in t:
        return "pure"
    return None


def check_aminusb_predicate(ctx, rid):
    """The conversion to unrestricted orbitals may be skipped only in the documented nothing-to-do cases."""
    prog = ctx.prog
    pa = prog.func("iodata.prepare.prepare_unrestricted_aminusb")
    pm = prog.parents(pa)
    p0 = pa.posparams[0]
    allowed = {f"{p0}.mo.kind == 'unrestricted'", f"{p0}.mo.occs_aminusb is None"}
    n = 0
    for r in [x for x in pa.own_nodes() if isinstance(x, ast.Return) and isinstance(x.value, ast.Name) and x.value.id == p0]:
        par = pm.get(id(r))
        n += 1
        if not isinstance(par, ast.If) or r not in par.body:
            ctx.violate(rid, "prepare_unrestricted_aminusb returns the unconverted object outside a nothing-to-do test", pa, r)
            continue
        disj = par.test.values if isinstance(par.test, ast.BoolOp) and isinstance(par.test.op, ast.Or) else [par.test]
        bad = [d for d in disj if " ".join(src_of(d).split()).replace('"', "'") not in allowed]
        if bad:
            ctx.violate(rid, f"prepare_unrestricted_aminusb skips the conversion under `{src_of(bad[0])}`, which is not a documented nothing-to-do case ({sorted(allowed)}): restricted orbitals with explicit alpha-minus-beta occupations are written as plain restricted orbitals", pa, par.test)
        else:
            ctx.ok(rid, f"conversion skipped only when `{src_of(par.test)}`", f"{pa.module.relpath}:{par.lineno}")
    if n == 0:
        ctx.violate(rid, "prepare_unrestricted_aminusb has no identity return", pa, pa.node, construct="identity return")


def check_guard_matrix(ctx, rid):
    prog = ctx.prog
    pa = prog.func("iodata.prepare.prepare_unrestricted_aminusb")
    ps = prog.func("iodata.prepare.prepare_segmented")
    check_aminusb_predicate(ctx, rid)
    for short, want in MATRIX.items():
        g = prog.format_op(short, "prepare_dump")
        if g is None:
            ctx.violate(rid, f"{short} has no prepare_dump although it writes wavefunctions", relpath=f"iodata/formats/{short}.py", function=f"iodata.formats.{short}", construct="prepare_dump missing")
            continue
        d = g.posparams[0]
        cfg = cfg_of(g)
        pm = prog.parents(g)
        found = {}
        for st in walk_stmts(g.body):
            if isinstance(st, ast.If) and st.body and isinstance(st.body[-1], ast.Raise):
                kind = _guard_kind(src_of(st.test), "")
                if kind is None:
                    continue
                # enclosing conditions of the guard
                conds = []
                cur = st
                while id(cur) in pm:
                    par = pm[id(cur)]
                    if isinstance(par, ast.If):
                        conds.append(src_of(par.test).replace('"', "'"))
                    elif isinstance(par, (ast.For, ast.While)):
                        conds.append("loop:" + (src_of(par.iter) if isinstance(par, ast.For) else src_of(par.test)))
                    cur = par
                found.setdefault(kind, []).append((st, conds))
        # loop form: `for .., occs in LIST:` with the occupation test on the loop variable
        for st in walk_stmts(g.body):
            if isinstance(st, ast.For) and isinstance(st.iter, ast.Name):
                lname = st.iter.id
                tvars = {x.id for x in ast.walk(st.target) if isinstance(x, ast.Name)}
                guard = None
                for s2 in walk_stmts(st.body):
                    if isinstance(s2, ast.If) and s2.body and isinstance(s2.body[-1], ast.Raise) and ({x.id for x in ast.walk(s2.test) if isinstance(x, ast.Name)} & tvars):
                        guard = s2
                if guard is None:
                    continue
                members = []  # (expr text, conditions)
                for n in g.own_nodes():
                    if isinstance(n, ast.Assign) and any(isinstance(t, ast.Name) and t.id == lname for t in n.targets) and isinstance(n.value, (ast.List, ast.Tuple)):
                        for e in n.value.elts:
                            members.append((src_of(e), []))
                    if isinstance(n, ast.Call) and isinstance(n.func, ast.Attribute) and n.func.attr == "append" and isinstance(n.func.value, ast.Name) and n.func.value.id == lname and n.args:
                        conds = []
                        cur = n
                        while id(cur) in pm:
                            par = pm[id(cur)]
                            if isinstance(par, ast.If):
                                conds.append(src_of(par.test).replace('"', "'"))
                            cur = par
                        members.append((src_of(n.args[0]), conds))
                for txt, conds in members:
                    kind = "aufbau_alpha" if ".mo.occsa" in txt else ("aufbau_beta" if ".mo.occsb" in txt else None)
                    if kind:
                        outer = []
                        cur = st
                        while id(cur) in pm:
                            par = pm[id(cur)]
                            if isinstance(par, ast.If):
                                outer.append(src_of(par.test).replace('"', "'"))
                            cur = par
                        found.setdefault(kind, []).append((guard, [c for c in conds if c not in outer] + outer))
        for kind, reason in want.items():
            if kind in ("aminusb", "segmented"):
                continue
            if kind not in found:
                ctx.violate(rid, f"{short}.prepare_dump no longer rejects `{kind}` ({reason}): such an object reaches the writer", g, g.node, construct=f"guard {kind} missing")
                continue
            st, conds = found[kind][0]
            allowed = {f"{d}.mo is not None"}
            if kind == "pure":
                allowed |= {c for c in conds if c.startswith("loop:") and ".shells" in c}
            extra = [c for c in conds if c not in allowed]
            rc = raises_class(st.body[-1])
            exc = st.body[-1].exc
            fname = exc.args[1] if isinstance(exc, ast.Call) and len(exc.args) > 1 else None
            probs = []
            if extra:
                probs.append(f"applies only under `{extra[0]}`")
            if rc != "PrepareDumpError":
                probs.append(f"raises {rc} instead of PrepareDumpError")
            if not (isinstance(fname, ast.Name) and fname.id in g.params):
                probs.append("does not carry the filename")
            if probs:
                ctx.violate(rid, f"{short}.prepare_dump guard `{kind}` " + "; ".join(probs) + f" ({reason})", g, st.test, construct=f"guard {kind}: {'; '.join(probs)}")
            else:
                ctx.ok(rid, f"{short}: `{kind}` rejected with PrepareDumpError(…, filename): {reason}", f"{g.module.relpath}:{st.lineno}", sample=(kind in ("generalized", "pure")))
        # helper calls and data flow of their results
        rets = [n for n in g.own_nodes() if isinstance(n, ast.Return)]
        for helper, key in ((pa, "aminusb"), (ps, "segmented")):
            calls = [cs for cs in g.calls if helper in cs.callees]
            if key == "aminusb" and not want.get("aminusb"):
                continue
            if not calls:
                ctx.violate(rid, f"{short}.prepare_dump does not call {helper.name}", g, g.node, construct=f"{helper.name} missing")
                continue
            cs = calls[0]
            b, e, okb = bind_call(cs.node, helper)
            a0 = b.get(helper.posparams[0])
            if not (isinstance(a0, ast.Name) and a0.id == d):
                ctx.violate(rid, f"{short}.prepare_dump calls {helper.name} on `{src_of(a0)}` instead of the object being prepared", g, cs.node)
                continue
            for p in ("allow_changes", "filename"):
                a = b.get(p)
                if not (isinstance(a, ast.Name) and a.id == p):
                    ctx.violate(rid, f"{short}.prepare_dump passes `{src_of(a) if a is not None else None}` as {p} to {helper.name}", g, cs.node)
            if key == "segmented":
                ks = b.get("keep_sp")
                val = ks.value if isinstance(ks, ast.Constant) else None
                if val is want["segmented"]:
                    ctx.ok(rid, f"{short}: prepare_segmented(keep_sp={val})", f"{g.module.relpath}:{cs.node.lineno}")
                else:
                    ctx.violate(rid, f"{short}.prepare_dump calls prepare_segmented with keep_sp={src_of(ks) if ks is not None else None}; the format {'supports' if want['segmented'] else 'does not support'} SP shells", g, cs.node)
            # the result must reach the return value: assigned back to the parameter or returned directly
            par = pm.get(id(cs.node))
            flows = (isinstance(par, ast.Return)) or (isinstance(par, ast.Assign) and any(isinstance(t, ast.Name) and t.id == d for t in par.targets) and any(isinstance(r.value, (ast.Name, ast.Call)) and (src_of(r.value) == d or d in src_of(r.value)) for r in rets))
            if flows:
                ctx.ok(rid, f"{short}: the result of {helper.name} is what prepare_dump returns", f"{g.module.relpath}:{cs.node.lineno}", sample=False)
            else:
                ctx.violate(rid, f"{short}.prepare_dump drops the result of {helper.name} (the conversion is announced but the unconverted object is written)", g, cs.node)
            # guards dominate the helper calls
            for kind in ("mo_none", "obasis_none", "generalized"):
                if kind in want and kind in found:
                    st, _ = found[kind][0]
                    stc = cs.node
                    while not isinstance(stc, ast.stmt):
                        stc = pm[id(stc)]
                    if not cfg.dominates(st, stc) and not any(c for c in found[kind][0][1]):
                        ctx.violate(rid, f"{short}.prepare_dump: guard `{kind}` does not precede {helper.name}", g, st.test, construct=f"guard {kind} after {helper.name}")
    # json_qcschema
    g = prog.format_op("json_qcschema", "prepare_dump")
    if g is not None:
        txt = src_of(g.node).replace('"', "'")
        rs = [s for s in walk_stmts(g.body) if isinstance(s, ast.Raise)]
        if "'schema_name' not in" in txt and len(rs) >= 2 and all(raises_class(r) == "PrepareDumpError" for r in rs):
            ctx.ok(rid, "json_qcschema: missing schema_name / unsupported schema rejected with PrepareDumpError", g.where)
        else:
            ctx.violate(rid, "json_qcschema.prepare_dump no longer rejects a missing schema_name / qcschema_basis with PrepareDumpError", g, g.node, construct="json guards")
