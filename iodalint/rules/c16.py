"""C16 -- results depend only on the arguments (no shared mutable state written, no ambient state read)."""

from __future__ import annotations

import ast

from .. import AnalysisError
from ..absint import Interp, State
from ..astutil import attr_chain
from ..domains.ownership import MUTATING_METHODS, OwnDomain, owners
from ..model import Program, src_of
from ..schema import scalar_attr_names

PROP = "C16"
LEVEL = "other"
TECHNIQUE = "static analysis: ownership/effect abstract interpretation with module-level bindings as roots over all package functions; call-graph reachability of ambient-state readers and process-global setters; lint rules for mutable defaults and memoisation"
EXPLANATION = (
    "Static decision of the structural clauses of C16: (R1) no function of the package contains a mutation "
    "sink whose base resolves -- directly, through an imported name, a local alias or a helper parameter -- "
    "to a module-level binding of the package, and no `global` rebinding; (R2) convention tables handed out "
    "by reference are never stored into through a `.conventions` path and functools.reduce(operator.iadd) "
    "over table entries has a fresh initialiser; (R3) no mutable default arguments, no memoisation "
    "decorators; (R4) no function reachable from the five API functions reads a clock, RNG, environment, "
    "id()/hash(), host or process identity; (R5) no reachable call changes interpreter-wide state "
    "(np.seterr, warnings filters, chdir, locale, ...); np.seterr lives only in the CLI entry point.  "
    "Declined: equality of results under thread interleavings (schedules) and fresh-interpreter "
    "equivalence as an observed fact; R1-R5 are the necessary 'no shared mutable state is written, no "
    "ambient state is read' part."
)
TECHNIQUE += '; class-level mutable attribute scan'
EXPLANATION += ' R3 also rejects mutable values in class-level attributes (shared by all instances).'
TECHNIQUE += '; key-completeness rule for local memo tables'
EXPLANATION += ' R3 also runs the local-memo rule over all package functions.'
# --- metadata added for batch 7
TECHNIQUE += "; ownership analysis of dump-side entry points for state carried on the caller's object"
EXPLANATION += " Added: (R6) an argument that a dump modifies carries state into the next call on the same object (ownership clause C09-R1); R1 also covers stores on function / class / module objects and `global` rebinding; R4's set-order rule recognises set algebra on dictionary views (`a.keys() & b.keys()`) and effects made through package helpers that write a record."
# --- end metadata batch 7
# --- metadata added for batch 8
EXPLANATION += ' R3 also reports a module-level name bound to a one-shot iterator (`zip`, `map`, a generator expression): the first call that iterates it uses it up. R5 knows `attrs.validators.disabled()`.'
# --- end metadata batch 8
# --- metadata added for batch 9
EXPLANATION += ' R5: redirection of the standard streams (contextlib.redirect_stdout / redirect_stderr), numpy.errstate / printoptions and removals from os.environ are process-global setters.'
# --- end metadata batch 9
TRUSTED = ["CPython ast parser", "module-level code runs once at import", "warnings.catch_warnings restores the filter state on exit"]

AMBIENT = {
    "time.time", "time.monotonic", "time.perf_counter", "time.process_time", "time.ctime", "time.localtime", "time.gmtime", "time.strftime",
    "datetime.datetime.now", "datetime.datetime.today", "datetime.datetime.utcnow", "datetime.date.today",
    "os.getenv", "os.getpid", "os.getcwd", "os.getlogin", "os.urandom", "os.times", "os.uname",
    "builtins.id", "builtins.hash", "builtins.input", "getpass.getuser", "socket.gethostname", "platform.node", "platform.platform",
    "uuid.uuid1", "uuid.uuid4", "locale.getlocale", "locale.getpreferredencoding", "tempfile.mkstemp", "tempfile.mktemp",
    "threading.get_ident", "threading.current_thread",
}
AMBIENT_PREFIX = ("random.", "numpy.random.", "secrets.")
AMBIENT_ATTR = {"os.environ", "sys.argv", "sys.flags"}
GLOBAL_SETTERS = {
    "attrs.validators.set_disabled", "attr.validators.set_disabled", "attrs.validators.disabled", "attr.validators.disabled", "attrs.set_run_validators", "attr.set_run_validators", "gc.disable", "gc.enable", "sys.setswitchinterval", "os.environ.update", "os.environ.setdefault",
    "numpy.seterr", "numpy.set_printoptions", "numpy.seterrcall", "warnings.simplefilter", "warnings.filterwarnings", "warnings.resetwarnings",
    "os.chdir", "os.umask", "os.putenv", "locale.setlocale", "sys.setrecursionlimit", "numpy.random.seed", "random.seed",
    "sys.settrace", "sys.setprofile", "decimal.setcontext", "signal.signal", "builtins.setattr@module",
    # redirection of the interpreter's standard streams (a writer that prints to the redirected sys.stdout shares it
    # with every other thread and with nested dumps)
    "contextlib.redirect_stdout", "contextlib.redirect_stderr", "numpy.errstate", "numpy.printoptions", "os.environ.pop", "os.environ.clear", "os.unsetenv",
    "tempfile.tempdir", "sys.setdefaultencoding", "importlib.reload",
}
POSITIVE = '''
TABLE = {1: "a"}
LST = [1, 2]
def _h(t):
    t[0] = "x"
def bad(x):
    TABLE.update({0: "Bq"})
    alias = LST
    alias.append(3)
    _h(TABLE)
def good(x):
    local = {**TABLE, 0: "Bq"}
    local[5] = 1
    c = list(LST)
    c.append(1)
    return local
'''


def _scan_globals(prog, funcs, scalars, max_depth=3):
    out = []
    for f in funcs:
        dom = OwnDomain(prog, roots={}, track_globals=True, scalar_attrs=scalars)
        it = Interp(prog, dom, max_depth=max_depth)
        try:
            it.run_function(f, {}, State())
        except AnalysisError as exc:
            raise AnalysisError(f"while analysing {f.qualname}: {exc}") from exc
        for s in dom.sinks:
            if any(isinstance(a, tuple) and a[0] == "G" for a in s[3]):
                out.append((f,) + s)
    return out


def run(ctx):
    prog = ctx.prog
    ctx.clauses_decided = ["R1 no write to module state", "R2 handed-out tables not mutated", "R3 no mutable defaults / memoisation", "R4 no ambient inputs", "R5 no process-global setters"]
    ctx.clauses_declined = ["equality of results under thread interleavings (schedules)", "fresh-interpreter equivalence as an observed fact"]
    scalars = scalar_attr_names(prog)
    pkg = [f for f in prog.package_funcs() if not f.module.name.startswith("docs")]

    # ------------------------------------------------------------------ R1
    ctx.rule("R1", "no function writes to a module-level object", "a call changes what later (or concurrent) calls return")
    sinks = _scan_globals(prog, pkg, scalars)
    seen = set()
    flagged_funcs = set()
    for entry, func, node, kind, tag, detail, stack in sinks:
        key = (func.qualname, getattr(node, "lineno", 0), kind)
        flagged_funcs.add(entry.qualname)
        if key in seen:
            continue
        seen.add(key)
        names = [a[1] for a in owners(tag) if a[0] == "G"]
        ctx.violate("R1", f"module-level object {names} is modified: {detail}", func, node, witness=stack, entry=entry.qualname)
    nclean = 0
    for f in pkg:
        if f.qualname not in flagged_funcs:
            nclean += 1
            ctx.ok("R1", f"{f.qualname}: no mutation sink on module-level objects", f.where, sample=(nclean % 60 == 1), nontrivial=bool(f.calls))
    ctx.floor("R1", len(pkg), 250, "package functions analysed")
    for f in pkg:
        if f.globals_decl:
            ctx.violate("R1", f"`global {sorted(f.globals_decl)}` rebinding in a function", f, f.node, construct="global " + ",".join(sorted(f.globals_decl)))
    # positive control
    ov = dict(prog.overlay)
    ov["iodata/zz_selftest_positive.py"] = POSITIVE
    p2 = Program(prog.root, overlay=ov)
    bad = _scan_globals(p2, [p2.func("iodata.zz_selftest_positive.bad")], scalars)
    good = _scan_globals(p2, [p2.func("iodata.zz_selftest_positive.good")], scalars)
    if len(bad) < 3 or good:
        raise AnalysisError(f"global-mutation engine self-test failed: {len(bad)}/3 seeded sinks flagged, {len(good)} false alarms on the copy-first twin")
    ctx.extra["positive_control"] = f"{len(bad)} seeded writes to module state flagged; copy-first twin silent"

    # ------------------------------------------------------------------ R2
    ctx.rule("R2", "convention tables handed out by reference are not mutated through the object", "one loaded object's conventions edit changes every other object sharing the table")
    nsite = 0
    for f in pkg:
        for n in f.own_nodes():
            tgt = None
            if isinstance(n, (ast.Assign, ast.AugAssign, ast.Delete)):
                tgts = n.targets if isinstance(n, (ast.Assign, ast.Delete)) else [n.target]
                for t in tgts:
                    if isinstance(t, ast.Subscript):
                        ch = attr_chain(t.value) if isinstance(t.value, ast.Attribute) else None
                        inner = t.value
                        while isinstance(inner, ast.Subscript):
                            inner = inner.value
                        ch = attr_chain(inner) if isinstance(inner, ast.Attribute) else ch
                        if ch and ch[-1] == "conventions":
                            tgt = t
            if isinstance(n, ast.Call) and isinstance(n.func, ast.Attribute) and n.func.attr in MUTATING_METHODS:
                inner = n.func.value
                while isinstance(inner, ast.Subscript):
                    inner = inner.value
                ch = attr_chain(inner) if isinstance(inner, ast.Attribute) else None
                if ch and ch[-1] == "conventions":
                    tgt = n
            if tgt is not None:
                ctx.violate("R2", "a `.conventions` table (shared by reference with a module-level table) is modified in place", f, n)
    mb = prog.cls("iodata.basis.MolecularBasis")
    for f in pkg + [m.toplevel for m in prog.modules.values() if m.name.startswith("iodata")]:
        for cs in f.calls:
            if cs.cls is mb:
                nsite += 1
            if cs.external == "functools.reduce" and cs.node.args:
                r = prog.resolve_expr(f, f.module, cs.node.args[0])
                if r and r[0] == "external" and r[1] in ("operator.iadd", "operator.iconcat", "operator.imul"):
                    if len(cs.node.args) >= 3 and isinstance(cs.node.args[2], (ast.List, ast.Dict, ast.Call, ast.ListComp)):
                        ctx.ok("R2", "functools.reduce(operator.iadd, ..., <fresh initialiser>)", f"{f.module.relpath}:{cs.node.lineno}")
                    else:
                        ctx.violate("R2", "functools.reduce with an in-place operator and no fresh initialiser extends the first table entry in place", f, cs.node)
    ctx.ok("R2", f"no store through a .conventions path anywhere in the package ({nsite} MolecularBasis construction sites share tables by reference)", "iodata/")
    ctx.floor("R2", nsite, 7, "MolecularBasis construction sites")

    # ------------------------------------------------------------------ R3
    ctx.rule("R3", "no mutable default arguments, no memoisation", "state carried from one call to the next")
    # a module-level (or default-argument) one-shot iterator is state as well: whoever iterates it first uses it up
    ONE_SHOT = ("zip", "map", "filter", "iter", "reversed", "enumerate")
    nmod = 0
    for mod in prog.modules.values():
        if not mod.name.startswith("iodata.") or ".test" in mod.name:
            continue
        nmod += 1
        for st in mod.tree.body:
            val = st.value if isinstance(st, (ast.Assign, ast.AnnAssign)) else None
            if val is None:
                continue
            if isinstance(val, ast.GeneratorExp) or (isinstance(val, ast.Call) and isinstance(val.func, ast.Name) and val.func.id in ONE_SHOT):
                tgt = st.targets[0] if isinstance(st, ast.Assign) else st.target
                ctx.violate("R3", f"module-level name `{src_of(tgt)}` is bound to a one-shot iterator (`{src_of(val)[:50]}`): the first call that iterates it uses it up, every later call sees it empty", relpath=mod.relpath, function=f"{mod.name}.{src_of(tgt)}", node=st, construct=f"module-level one-shot iterator {src_of(tgt)}")
    nparams = 0
    for f in pkg:
        node = f.node
        if not hasattr(node, "args"):
            continue
        for d in list(node.args.defaults) + [x for x in node.args.kw_defaults if x is not None]:
            nparams += 1
            if isinstance(d, (ast.List, ast.Dict, ast.Set, ast.ListComp, ast.DictComp, ast.SetComp)) or (isinstance(d, ast.Call) and getattr(d.func, "id", "") in ("list", "dict", "set", "defaultdict", "OrderedDict")):
                ctx.violate("R3", "mutable default argument (shared between calls)", f, d)
        for dec in f.decorators:
            t = dec.func if isinstance(dec, ast.Call) else dec
            r = prog.resolve_expr(None, f.module, t)
            if r and r[0] == "external" and r[1] in ("functools.lru_cache", "functools.cache", "functools.cached_property"):
                ctx.violate("R3", f"memoisation decorator {r[1]}", f, dec)
    ctx.ok("R3", f"{nparams} parameter defaults are immutable; no memoisation decorators", "iodata/")
    # class-level mutable values are shared by all instances (attrs/dataclass fields with a mutable default included)
    MUT = (ast.List, ast.Dict, ast.Set, ast.ListComp, ast.DictComp, ast.SetComp)
    ncls = 0
    for cinfo in prog.classes.values():
        ncls += 1
        for st in cinfo.node.body:
            tgt, val = None, None
            if isinstance(st, ast.Assign) and len(st.targets) == 1 and isinstance(st.targets[0], ast.Name):
                tgt, val = st.targets[0].id, st.value
            elif isinstance(st, ast.AnnAssign) and isinstance(st.target, ast.Name) and st.value is not None:
                tgt, val = st.target.id, st.value
            if tgt is None or tgt.startswith("__"):
                continue
            cands = [val]
            if isinstance(val, ast.Call):
                cands = [k.value for k in val.keywords if k.arg == "default"] + ([] if val.keywords or not val.args else [])
                if getattr(val.func, "id", "") in ("list", "dict", "set", "defaultdict", "OrderedDict", "deque"):
                    cands = [val]
            for c in cands:
                if isinstance(c, MUT) or (isinstance(c, ast.Call) and getattr(c.func, "id", "") in ("list", "dict", "set", "defaultdict", "OrderedDict", "deque")):
                    ctx.violate("R3", f"class {cinfo.name} keeps a mutable value in the class-level attribute `{tgt}`: it is one object shared by every instance (two open files / objects alive at once corrupt each other)", relpath=cinfo.module.relpath, function=cinfo.qualname, node=st, construct=f"class-level mutable {tgt}")
    ctx.ok("R3", f"{ncls} classes: no class-level mutable attribute values", "iodata/")
    ctx.floor("R3", ncls, 12, "package classes")
    from .memo import check_local_memos

    check_local_memos(ctx, "R3", list(pkg), "package functions")

    # ------------------------------------------------------------------ R4 / R5
    ctx.rule("R4", "no ambient inputs reachable from the API", "output depends on clock, RNG, environment, object identity or the hash seed")
    from .setorder import check_set_order

    check_set_order(ctx, "R4", list(pkg), "package functions")
    ctx.rule("R5", "no process-global setters reachable from the API", "a call changes interpreter-wide behaviour for later calls")
    roots = [prog.func(f"iodata.api.{n}") for n in ("load_one", "load_many", "dump_one", "dump_many", "write_input")]
    reach = prog.callees_closure(roots)
    # include decorator wrappers of the API functions
    for r in list(roots):
        for d in r.decorators:
            rr = prog.resolve_expr(None, r.module, d.func if isinstance(d, ast.Call) else d)
            if rr and rr[0] == "func":
                reach += prog.callees_closure([rr[1]])
    reach = list({f.qualname: f for f in reach}.values())
    ncalls = 0
    for f in reach:
        for cs in f.calls:
            ncalls += 1
            nm = cs.external
            if not nm:
                continue
            if nm in AMBIENT or nm.startswith(AMBIENT_PREFIX):
                ctx.violate("R4", f"reads ambient state via {nm}", f, cs.node)
            if nm in GLOBAL_SETTERS:
                ctx.violate("R5", f"changes interpreter-wide state via {nm}", f, cs.node)
            if nm == "warnings.catch_warnings":
                ctx.note(f"{f.module.relpath}:{cs.node.lineno}: warnings.catch_warnings in the API decorator swaps the process-wide warning filter list for the duration of a call and restores it; it affects warning delivery under concurrent calls, not returned objects or written bytes")
        for n in f.own_nodes():
            if isinstance(n, ast.Attribute):
                r = prog.resolve_expr(f, f.module, n)
                if r and r[0] == "external" and r[1] in AMBIENT_ATTR:
                    ctx.violate("R4", f"reads ambient state via {r[1]}", f, n)
    ctx.ok("R4", f"{len(reach)} functions / {ncalls} call sites reachable from the API: no clock, RNG, environment, identity reads", "iodata/api.py")
    ctx.ok("R5", f"{len(reach)} functions reachable from the API: no interpreter-wide setter", "iodata/api.py")
    ctx.floor("R4", len(reach), 200, "functions reachable from the API")
    # an argument that a dump modifies carries state from that call into the next one on the same object: the
    # ownership analysis of the dump-side entry points (C09-R1) is the same clause seen from the caller's object
    ctx.borrow("c09", {"R1": "R6"})
    # np.seterr only in the CLI
    for f in pkg:
        for cs in f.calls:
            if cs.external in GLOBAL_SETTERS and f.qualname != "iodata.__main__.main":
                if f not in reach:
                    ctx.violate("R5", f"{cs.external} called in library code outside the CLI entry point", f, cs.node)
            elif cs.external in GLOBAL_SETTERS:
                ctx.ok("R5", f"{cs.external} only in the CLI entry point main()", f"{f.module.relpath}:{cs.node.lineno}")
