"""C10 -- convention conversion is an exact signed permutation (structural clauses)."""

from __future__ import annotations

import ast

from .. import AnalysisError
from ..astutil import bind_call, deref, names_in, raises_class, walk_stmts
from ..cfg import cfg_of
from ..consteval import ConstEval, NotConstant
from ..model import src_of
from ..tables import cart_labels, check_entry, discover_convention_tables

PROP = "C10"
LEVEL = "other"
TECHNIQUE = "static analysis: exhaustive table algebra on convention tables evaluated from the AST; dominance and def-use rules on the conversion routines and their call sites"
EXPLANATION = (
    "Static decision of the structural clauses of C10: (R1) every convention table in the package "
    "(module-level literals, the HORTON2/CCA initialiser results evaluated by constant propagation, "
    "function-local vendor tables, wfn.PRIMITIVE_NAMES) lists each function of each shell type exactly "
    "once -- exhaustive over all entries and labels; (R2) in the per-shell conversion routine the four "
    "rejections (length mismatch, duplicates on either side, different label sets) raise ValueError and "
    "dominate the permutation construction; (R3) permutation built by .index on the stripped lists, sign "
    "= product of one source and one target sign, in both the forward and the reverse branch; (R4) "
    "convert_conventions concatenates per-shell results with offset = length so far, source table = the "
    "basis' own conventions, target = the argument, shells in order; (R5) at every call site both results "
    "are bound, the first used only as an index, the second only as a factor.  Declined: the algebraic "
    "laws (inverse, composition) as statements about outputs on arbitrary inputs -- they follow from "
    "R1-R4 by a paper argument; the tool does not execute the function."
)
TECHNIQUE += '; key-completeness dataflow rule for local memo tables'
EXPLANATION += ' Added: (R7) in functions that use convention tables, a value cached in a local dict under a key depends on no loop-variant variable that the key does not determine (positive control built in).'
TRUSTED = ["CPython ast parser", "list.index returns the first position of an element", "numpy fancy indexing a[p] places a[p[i]] at position i"]


def run(ctx):
    prog = ctx.prog
    ce = ConstEval(prog)
    ctx.clauses_decided = ["R1 tables complete and duplicate-free", "R2 rejection guards dominate", "R3 sign product / index on stripped lists", "R4 concatenation over shells", "R5 call sites use both results correctly"]
    ctx.clauses_declined = ["inverse / composition laws on arbitrary run-time inputs (follow from R1-R4 on paper)"]

    # ------------------------------------------------------------------ R1
    ctx.rule("R1", "convention tables list each function exactly once", "a missing/duplicate/misspelt label mis-maps or rejects every shell of that type")
    tabs = discover_convention_tables(prog, ce)
    nentries = nlabels = 0
    names = []
    for label, relpath, lineno, table, f in tabs:
        names.append(label)
        for key in sorted(table):
            labels = list(table[key])
            nentries += 1
            nlabels += len(labels)
            probs = check_entry(key, labels)
            if probs:
                ctx.violate("R1", f"table {label} entry {key}: " + "; ".join(probs), func=f, relpath=relpath, function=label, construct=f"{key}: {labels}"[:280])
                ctx.findings[-1].line = lineno
            else:
                ctx.ok("R1", f"{label}[{key}] complete ({len(labels)} labels)", f"{relpath}:{lineno}", sample=(key[0] in (2, 3)))
    # wfn.PRIMITIVE_NAMES
    wm = prog.modules.get("iodata.formats.wfn")
    if wm and "PRIMITIVE_NAMES" in wm.bindings:
        try:
            pn = ce.global_value(wm, "PRIMITIVE_NAMES")
        except NotConstant as exc:
            raise AnalysisError(f"wfn.PRIMITIVE_NAMES not constant: {exc}") from exc
        want = [x for l in range(6) for x in cart_labels(l)]
        nlabels += len(pn)
        if sorted(pn) == sorted(want) and len(set(pn)) == len(pn):
            ctx.ok("R1", f"wfn.PRIMITIVE_NAMES: {len(pn)} distinct monomials of degree 0..5", wm.relpath)
        else:
            ctx.violate("R1", f"wfn.PRIMITIVE_NAMES is not the duplicate-free set of monomials of degree 0..5 (missing {sorted(set(want) - set(pn))}, extra/duplicate {sorted(x for x in pn if x not in want or list(pn).count(x) > 1)})", relpath=wm.relpath, function="iodata.formats.wfn.PRIMITIVE_NAMES", construct="PRIMITIVE_NAMES")
        # the table it is built from must be the module's CONVENTIONS (same object the writers use)
    # R6: order and signs of every format table equal the frozen specification
    import json, os
    from ..tables import spec_label
    from ..report import VERIF

    ctx.rule("R6", "format convention tables (order and signs) equal the frozen format specification", "a swapped label or flipped sign mis-reads every real file of that program while IOData's own round trip stays consistent")
    with open(os.path.join(VERIF, "spec", "conventions.json")) as fh:
        spec = json.load(fh)
    seen_spec = set()
    for label, relpath, lineno, table, f in tabs:
        lab = spec_label(label)
        if lab not in spec:
            if not lab.startswith("iodata.convert._get_default_conventions"):
                ctx.note(f"convention table {lab} ({relpath}:{lineno}) has no frozen specification entry (new table?)")
            continue
        seen_spec.add(lab)
        for ks, want in spec[lab]["entries"].items():
            key = (int(ks[:-1]), ks[-1])
            got = list(table.get(key, [])) if key in table else None
            if got == want:
                ctx.ok("R6", f"{lab}[{key}] = specification", f"{relpath}:{lineno}", sample=(key == (3, "p")))
            else:
                diff = [f"{i}:{a}->{b}" for i, (a, b) in enumerate(zip(want, got or [])) if a != b][:4]
                ctx.violate("R6", f"table {lab} entry {key} is {got}, the format specification (spec/conventions.json) says {want} (differences {diff})", func=f, relpath=relpath, function=lab, construct=f"{key}: {got}"[:280])
                ctx.findings[-1].line = lineno
        extra = [k for k in table if f"{k[0]}{k[1]}" not in spec[lab]["entries"] and not lab.startswith("iodata.convert.")]
        for k in extra:
            ctx.note(f"{lab} has entry {k} that the frozen specification does not list")
    for lab in spec:
        if lab not in seen_spec:
            ctx.violate("R6", f"convention table {lab} of the frozen specification no longer exists in the package", relpath=spec[lab]["source"].split(" ")[0], function=lab, construct="table missing")
    ctx.extra["convention_tables"] = names
    ctx.extra["table_entries"] = nentries
    ctx.extra["labels_checked"] = nlabels
    ctx.floor("R1", len(tabs), 8, "convention tables")
    ctx.floor("R1", nentries, 130, "table entries")

    # ------------------------------------------------------------------ R2/R3
    cc = prog.func("iodata.convert.convert_conventions")
    inner = [cs for cs in cc.calls if cs.callees and cs.callees[0].module is cc.module and cs.callees[0] is not cc and len(cs.callees[0].posparams) >= 2 and not cs.cls]
    inner = [cs for cs in inner if cs.callees[0].name not in ("iter_cart_alphabet",)]
    if len(inner) != 1:
        raise AnalysisError(f"convert_conventions should call exactly one per-shell routine, found {[c.callees[0].name for c in inner]}")
    shell_cs = inner[0]
    sf = shell_cs.callees[0]
    p1, p2 = sf.posparams[0], sf.posparams[1]
    revp = sf.posparams[2] if len(sf.posparams) > 2 else None
    ctx.rule("R2", "rejection guards dominate the permutation construction", "a dropped guard lets mismatching/duplicate labels be mis-mapped silently")
    cfg = cfg_of(sf)
    index_calls = [n for n in sf.own_nodes() if isinstance(n, ast.Call) and isinstance(n.func, ast.Attribute) and n.func.attr == "index"]
    if len(index_calls) < 1:
        raise AnalysisError("no .index( permutation construction found in the per-shell routine")
    pm = prog.parents(sf)

    def stmt_of(node):
        cur = node
        while id(cur) in pm and not isinstance(cur, ast.stmt):
            cur = pm[id(cur)]
        return cur

    index_stmts = {id(stmt_of(n)): stmt_of(n) for n in index_calls}.values()

    # def-use within sf: which params does a name derive from (flow-insensitive but rebinding-aware)
    def roots(expr, depth=6):
        out = set()
        todo = [(expr, depth)]
        seen = set()
        while todo:
            e, d = todo.pop()
            for nm in names_in(e):
                if nm in (p1, p2):
                    out.add(nm)
                if nm in sf.locals and nm not in sf.params and d > 0 and nm not in seen:
                    seen.add(nm)
                    for n in sf.own_nodes():
                        if isinstance(n, ast.Assign) and any(isinstance(t, ast.Name) and t.id == nm for t in n.targets):
                            todo.append((n.value, d - 1))
        return out

    def funcs_in(expr):
        return {n.func.id for n in ast.walk(expr) if isinstance(n, ast.Call) and isinstance(n.func, ast.Name)}

    guards = {"length": None, "dup1": None, "dup2": None, "sets": None}
    for st in walk_stmts(sf.body):
        if isinstance(st, ast.If) and any(isinstance(s, ast.Raise) and raises_class(s) == "ValueError" for s in st.body):
            r = roots(st.test)
            fs = funcs_in(st.test)
            if r == {p1, p2} and fs <= {"len"} and "len" in fs:
                guards["length"] = st
            elif r == {p1} and ({"len", "set"} <= fs or "Counter" in fs):
                guards["dup1"] = st
            elif r == {p2} and ({"len", "set"} <= fs or "Counter" in fs):
                guards["dup2"] = st
            elif r == {p1, p2} and (("set" in fs) or ("sorted" in fs) or ("frozenset" in fs)):
                guards["sets"] = st
    for gname, st in guards.items():
        if st is None:
            ctx.violate("R2", f"rejection guard '{gname}' (raise ValueError) not found in {sf.name}", sf, sf.node, construct=f"guard {gname}")
            continue
        alldom = all(cfg.dominates(st, ist) for ist in index_stmts)
        # the raise must be the whole true-branch (no fall-through that continues)
        falls = [s for s in st.body if not isinstance(s, ast.Raise)]
        if alldom and not st.orelse and isinstance(st.body[-1], ast.Raise):
            ctx.ok("R2", f"guard '{gname}' raises ValueError and dominates the permutation construction", f"{sf.module.relpath}:{st.lineno}")
        else:
            ctx.violate("R2", f"guard '{gname}' does not dominate the permutation construction", sf, st)
    # duplicates / set comparison must be applied to the *stripped* labels: the guards dominate after the strip assignments
    strip_assigns = [n for n in sf.own_nodes() if isinstance(n, ast.Assign) and any(isinstance(c, ast.Call) and isinstance(c.func, ast.Attribute) and c.func.attr in ("lstrip", "removeprefix", "strip") for c in ast.walk(n.value))]
    for gname in ("dup1", "dup2", "sets"):
        st = guards[gname]
        if st is None:
            continue
        if strip_assigns and all(cfg.dominates(sa, st) for sa in strip_assigns if names_in(sa.value) & roots(st.test) or True):
            ctx.ok("R2", f"guard '{gname}' is evaluated on sign-stripped labels", f"{sf.module.relpath}:{st.lineno}")
        else:
            ctx.violate("R2", f"guard '{gname}' is evaluated before the sign prefixes are stripped", sf, st)

    ctx.rule("R3", "permutation by .index on stripped lists; sign = product of both label signs", "a dropped sign factor or an index on unstripped labels flips or mis-places functions")
    # sign lists: assignments whose value is a comprehension over p1 / p2 using startswith("-")
    sign_of = {}
    for n in sf.own_nodes():
        if isinstance(n, ast.Assign) and len(n.targets) == 1 and isinstance(n.targets[0], ast.Name):
            if any(isinstance(c, ast.Call) and isinstance(c.func, ast.Attribute) and c.func.attr == "startswith" for c in ast.walk(n.value)):
                r = roots(n.value)
                if len(r) == 1:
                    sign_of[n.targets[0].id] = next(iter(r))
    if set(sign_of.values()) != {p1, p2}:
        ctx.violate("R3", "could not find one sign list per convention argument", sf, sf.node, construct="sign lists")
    # sign lists must be computed before stripping
    for nm, root in sign_of.items():
        sa_root = [sa for sa in strip_assigns if any(isinstance(t, ast.Name) and t.id == root for t in sa.targets)]
        defn = [n for n in sf.own_nodes() if isinstance(n, ast.Assign) and any(isinstance(t, ast.Name) and t.id == nm for t in n.targets)][0]
        if all(cfg.dominates(defn, sa) for sa in sa_root):
            ctx.ok("R3", f"sign list {nm} is taken from {root} before the prefixes are stripped", f"{sf.module.relpath}:{defn.lineno}")
        else:
            ctx.violate("R3", f"sign list {nm} is computed after the '-' prefixes were stripped (all signs +1)", sf, defn)
    # branches on reverse
    rev_if = [st for st in walk_stmts(sf.body) if isinstance(st, ast.If) and revp and revp in names_in(st.test)]
    if len(rev_if) != 1:
        ctx.violate("R3", "expected exactly one branch on the reverse flag", sf, sf.node, construct="reverse branch")
    else:
        st = rev_if[0]
        neg = isinstance(st.test, ast.UnaryOp) and isinstance(st.test.op, ast.Not)
        for branch, is_rev in ((st.body, not neg), (st.orelse, neg)):
            perm_assign = sign_assign = None
            for s in branch:
                if isinstance(s, ast.Assign) and len(s.targets) == 1 and isinstance(s.targets[0], ast.Name):
                    if any(isinstance(c, ast.Call) and isinstance(c.func, ast.Attribute) and c.func.attr == "index" for c in ast.walk(s.value)):
                        perm_assign = s
                    elif any(isinstance(c, ast.BinOp) and isinstance(c.op, ast.Mult) for c in ast.walk(s.value)):
                        sign_assign = s
            tag = "reverse" if is_rev else "forward"
            if perm_assign is None or sign_assign is None:
                ctx.violate("R3", f"{tag} branch lacks the permutation or the sign assignment", sf, st, construct=f"{tag} branch")
                continue
            # permutation = [SRC.index(el) for el in DST]: forward SRC=p1,DST=p2; reverse SRC=p2,DST=p1
            comp = perm_assign.value
            okp = False
            if isinstance(comp, (ast.ListComp, ast.GeneratorExp)) and len(comp.generators) == 1:
                call = comp.elt
                it = comp.generators[0].iter
                if isinstance(call, ast.Call) and isinstance(call.func, ast.Attribute) and isinstance(call.func.value, ast.Name) and isinstance(it, ast.Name):
                    src, dst = call.func.value.id, it.id
                    want = (p2, p1) if is_rev else (p1, p2)
                    okp = (src, dst) == want and isinstance(call.args[0], ast.Name) and call.args[0].id == getattr(comp.generators[0].target, "id", None)
            if okp:
                ctx.ok("R3", f"{tag}: permutation = [{src}.index(el) for el in {dst}]", f"{sf.module.relpath}:{perm_assign.lineno}")
            else:
                ctx.violate("R3", f"{tag} branch: permutation is not built as [source.index(el) for el in target] with the expected roles", sf, perm_assign)
            # signs = [sX[i] * sY for i, sY in zip(permutation, signsY)]
            mults = [c for c in ast.walk(sign_assign.value) if isinstance(c, ast.BinOp) and isinstance(c.op, ast.Mult)]
            oks = False
            comp = sign_assign.value
            if len(mults) == 1 and isinstance(comp, (ast.ListComp, ast.GeneratorExp)) and len(comp.generators) == 1:
                m = mults[0]
                g = comp.generators[0]
                sub = m.left if isinstance(m.left, ast.Subscript) else (m.right if isinstance(m.right, ast.Subscript) else None)
                other = m.right if sub is m.left else m.left
                if sub is not None and isinstance(sub.value, ast.Name) and isinstance(other, ast.Name) and isinstance(g.iter, ast.Call) and getattr(g.iter.func, "id", "") == "zip" and isinstance(g.target, ast.Tuple):
                    zargs = [getattr(a, "id", None) for a in g.iter.args]
                    tnames = [getattr(e, "id", None) for e in g.target.elts]
                    perm_name = perm_assign.targets[0].id
                    # subscripted sign list indexed by the permutation element; the other iterates its own list directly
                    if len(zargs) == 2 and len(tnames) == 2 and perm_name in zargs:
                        ip = zargs.index(perm_name)
                        idxvar, othervar = tnames[ip], tnames[1 - ip]
                        direct_list = zargs[1 - ip]
                        indexed_list = sub.value.id
                        src_root = p2 if is_rev else p1
                        dst_root = p1 if is_rev else p2
                        oks = (
                            getattr(sub.slice, "id", None) == idxvar
                            and other.id == othervar
                            and sign_of.get(indexed_list) == src_root
                            and sign_of.get(direct_list) == dst_root
                        )
            if oks:
                ctx.ok("R3", f"{tag}: sign = source_sign[perm[i]] * target_sign[i]", f"{sf.module.relpath}:{sign_assign.lineno}")
            else:
                ctx.violate("R3", f"{tag} branch: signs are not the product of the permuted source sign and the target sign", sf, sign_assign)
    # index is applied to stripped lists: every .index statement is dominated by both strip assignments
    for ist in index_stmts:
        if len(strip_assigns) >= 2 and all(cfg.dominates(sa, ist) for sa in strip_assigns):
            ctx.ok("R3", ".index applied after both lists are stripped", f"{sf.module.relpath}:{ist.lineno}")
        else:
            ctx.violate("R3", ".index is applied to labels that still carry sign prefixes", sf, ist)
    # returns both
    rets = [n for n in sf.own_nodes() if isinstance(n, ast.Return)]
    if not (len(rets) == 1 and isinstance(rets[0].value, ast.Tuple) and len(rets[0].value.elts) == 2):
        ctx.violate("R3", "per-shell routine does not return a (permutation, signs) pair from a single return", sf, sf.node, construct="return shape")

    # ------------------------------------------------------------------ R4
    ctx.rule("R4", "concatenation over shells with running offset", "a wrong offset or table maps functions across shell boundaries")
    mb, newc = cc.posparams[0], cc.posparams[1]
    revc = cc.posparams[2] if len(cc.posparams) > 2 else None
    bound, extra, okb = bind_call(shell_cs.node, sf)
    c1 = deref(cc, bound.get(p1)) if bound.get(p1) is not None else None
    c2 = deref(cc, bound.get(p2)) if bound.get(p2) is not None else None

    def is_table_lookup(e, base_pred):
        return isinstance(e, ast.Subscript) and base_pred(e.value)

    ok1 = is_table_lookup(c1, lambda b: isinstance(b, ast.Attribute) and b.attr == "conventions" and isinstance(b.value, ast.Name) and b.value.id == mb)
    ok2 = is_table_lookup(c2, lambda b: isinstance(b, ast.Name) and b.id == newc)
    if ok1 and ok2:
        k1, k2 = deref(cc, c1.slice), deref(cc, c2.slice)
        if ast.dump(k1) == ast.dump(k2):
            ctx.ok("R4", "source = molbasis.conventions[key], target = new_conventions[key], same key", f"{cc.module.relpath}:{shell_cs.node.lineno}")
        else:
            ctx.violate("R4", "source and target tables are looked up with different keys", cc, shell_cs.node)
    else:
        ctx.violate("R4", "per-shell routine is not called with (basis' own conventions[key], new_conventions[key])", cc, shell_cs.node)
    if revc:
        e = bound.get(revp)
        if isinstance(e, ast.Name) and e.id == revc:
            ctx.ok("R4", "reverse flag passed through", cc.where)
        else:
            ctx.violate("R4", "reverse flag is not passed through to the per-shell routine", cc, shell_cs.node)
    # loops: for shell in molbasis.shells: for angmom, kind in zip(shell.angmoms, shell.kinds)
    loops = [n for n in cc.own_nodes() if isinstance(n, ast.For)]
    outer = [l for l in loops if isinstance(l.iter, ast.Attribute) and l.iter.attr == "shells" and isinstance(l.iter.value, ast.Name) and l.iter.value.id == mb]
    if len(outer) == 1 and len(loops) == 2:
        sh = outer[0].target.id if isinstance(outer[0].target, ast.Name) else None
        innerl = [l for l in loops if l is not outer[0]][0]
        it = innerl.iter
        good = (
            isinstance(it, ast.Call) and getattr(it.func, "id", "") == "zip" and len(it.args) == 2
            and all(isinstance(a, ast.Attribute) and isinstance(a.value, ast.Name) and a.value.id == sh for a in it.args)
            and [a.attr for a in it.args] == ["angmoms", "kinds"]
            and innerl in list(walk_stmts(outer[0].body))
        )
        # key = (angmom, kind) in the loop-target order
        key = deref(cc, c1.slice) if ok1 else None
        tn = [getattr(e, "id", None) for e in innerl.target.elts] if isinstance(innerl.target, ast.Tuple) else []
        goodkey = isinstance(key, ast.Tuple) and [getattr(e, "id", None) for e in key.elts] == tn and len(tn) == 2
        if good and goodkey:
            ctx.ok("R4", "shells and their (angmom, kind) pairs traversed in order", f"{cc.module.relpath}:{outer[0].lineno}")
        else:
            ctx.violate("R4", "shell/contraction traversal is not `for shell in molbasis.shells: for angmom, kind in zip(shell.angmoms, shell.kinds)` with key (angmom, kind)", cc, innerl)
    else:
        ctx.violate("R4", "convert_conventions does not iterate molbasis.shells directly (re-ordered / filtered?)", cc, cc.node, construct="shell loop")
    # offset discipline
    ret = [n for n in cc.own_nodes() if isinstance(n, ast.Return)]
    perm_name = sign_name = None
    if len(ret) == 1 and isinstance(ret[0].value, ast.Tuple) and len(ret[0].value.elts) == 2:
        def base_list(e):
            e2 = e
            if isinstance(e2, ast.Call) and e2.args:
                e2 = e2.args[0]
            return e2.id if isinstance(e2, ast.Name) else None
        perm_name, sign_name = base_list(ret[0].value.elts[0]), base_list(ret[0].value.elts[1])
    par = prog.parents(cc).get(id(shell_cs.node))
    res_names = [getattr(e, "id", None) for e in par.targets[0].elts] if isinstance(par, ast.Assign) and isinstance(par.targets[0], ast.Tuple) else []
    ext = {}
    for n in cc.own_nodes():
        if isinstance(n, ast.Call) and isinstance(n.func, ast.Attribute) and n.func.attr in ("extend", "append") and isinstance(n.func.value, ast.Name):
            ext.setdefault(n.func.value.id, []).append(n)
        if isinstance(n, ast.AugAssign) and isinstance(n.target, ast.Name) and isinstance(n.op, ast.Add):
            ext.setdefault(n.target.id, []).append(n)
    okoff = False
    if perm_name and len(res_names) == 2 and len(ext.get(perm_name, [])) == 1 and len(ext.get(sign_name, [])) == 1:
        pe = ext[perm_name][0]
        arg = pe.args[0] if isinstance(pe, ast.Call) else pe.value
        # i + offset for i in shell_permutation
        if isinstance(arg, (ast.GeneratorExp, ast.ListComp)) and isinstance(arg.elt, ast.BinOp) and isinstance(arg.elt.op, ast.Add):
            g = arg.generators[0]
            parts = {getattr(arg.elt.left, "id", None), getattr(arg.elt.right, "id", None)}
            off = (parts - {getattr(g.target, "id", None)})
            if getattr(g.iter, "id", None) == res_names[0] and len(off) == 1:
                offname = next(iter(off))
                cfgc = cfg_of(cc)
                offdefs = [n for n in cc.own_nodes() if isinstance(n, ast.Assign) and any(isinstance(t, ast.Name) and t.id == offname for t in n.targets)]
                if len(offdefs) == 1:
                    v = offdefs[0].value
                    isl = isinstance(v, ast.Call) and getattr(v.func, "id", "") == "len" and getattr(v.args[0], "id", None) == perm_name
                    pm_cc = prog.parents(cc)
                    pst = pe
                    while not isinstance(pst, ast.stmt):
                        pst = pm_cc[id(pst)]
                    samebody = pm_cc.get(id(offdefs[0])) is pm_cc.get(id(pst))
                    okoff = isl and samebody and cfgc.dominates(offdefs[0], pst) and offdefs[0].lineno < pst.lineno
        se = ext[sign_name][0]
        sarg = se.args[0] if isinstance(se, ast.Call) else se.value
        oksign = getattr(sarg, "id", None) == res_names[1]
        if okoff and oksign:
            ctx.ok("R4", "offset = len(permutation) taken before the extend of the same iteration; signs extended with the shell signs", f"{cc.module.relpath}:{pe.lineno}")
        else:
            ctx.violate("R4", "offset/extend discipline broken (offset not the length accumulated so far, or signs not extended with the shell's signs)", cc, pe if isinstance(pe, ast.stmt) else cc.node, construct="offset discipline" if not isinstance(pe, ast.stmt) else "")
    else:
        ctx.violate("R4", "cannot match the accumulate-with-offset idiom in convert_conventions", cc, cc.node, construct="accumulation idiom")

    # ------------------------------------------------------------------ R5
    ctx.rule("R5", "call sites bind both results; permutation only indexes, signs only multiply", "a call site that drops or swaps a result writes unconverted data")
    nsites = 0
    for f in prog.package_funcs():
        for cs in f.calls:
            if cc in cs.callees:
                nsites += 1
                par = prog.parents(f).get(id(cs.node))
                if not (isinstance(par, ast.Assign) and isinstance(par.targets[0], ast.Tuple) and len(par.targets[0].elts) == 2 and all(isinstance(e, ast.Name) for e in par.targets[0].elts)):
                    ctx.violate("R5", "result of convert_conventions is not unpacked into (permutation, signs)", f, cs.node)
                    continue
                pn, sn = (e.id for e in par.targets[0].elts)
                # aliases: `permutation1, signs1 = permutation0, signs0`
                alias_p, alias_s = {pn}, {sn}
                for n in f.own_nodes():
                    if isinstance(n, ast.Assign) and isinstance(n.targets[0], ast.Tuple) and isinstance(n.value, ast.Tuple):
                        for t, v in zip(n.targets[0].elts, n.value.elts):
                            if isinstance(v, ast.Name) and isinstance(t, ast.Name):
                                if v.id in alias_p:
                                    alias_p.add(t.id)
                                if v.id in alias_s:
                                    alias_s.add(t.id)
                    elif isinstance(n, ast.Assign) and len(n.targets) == 1 and isinstance(n.targets[0], ast.Name) and isinstance(n.value, ast.Name):
                        if n.value.id in alias_p:
                            alias_p.add(n.targets[0].id)
                        if n.value.id in alias_s:
                            alias_s.add(n.targets[0].id)
                pmf = prog.parents(f)
                puse = suse = 0
                bad = False
                for n in f.own_nodes():
                    if isinstance(n, ast.Name) and isinstance(n.ctx, ast.Load) and n.id in (alias_p | alias_s):
                        p = pmf.get(id(n))
                        # skip the alias assignments themselves
                        if isinstance(p, ast.Tuple) and isinstance(pmf.get(id(p)), ast.Assign) and pmf[id(p)].value is p:
                            continue
                        if isinstance(p, ast.Assign) and p.value is n:
                            continue
                        if n.id in alias_p:
                            # must be (part of) a subscript index
                            q, c = p, n
                            isidx = False
                            while q is not None:
                                if isinstance(q, ast.Subscript) and q.slice is c:
                                    isidx = True
                                    break
                                if isinstance(q, (ast.Tuple, ast.Slice)):
                                    c, q = q, pmf.get(id(q))
                                    continue
                                break
                            if isidx:
                                puse += 1
                            else:
                                bad = True
                                ctx.violate("R5", f"permutation `{n.id}` is used other than as a subscript index", f, p if isinstance(p, ast.AST) else n)
                        else:
                            # must be an operand of a multiplication (possibly via .reshape(-1,1))
                            q, c = p, n
                            while isinstance(q, (ast.Attribute, ast.Call)) and (getattr(q, "attr", "") in ("reshape",) or (isinstance(q, ast.Call) and isinstance(q.func, ast.Attribute) and q.func.attr == "reshape")):
                                c, q = q, pmf.get(id(q))
                            if isinstance(q, ast.Subscript) and q.value is c:
                                # signs[:, None] style broadcasting
                                c, q = q, pmf.get(id(q))
                            if (isinstance(q, ast.BinOp) and isinstance(q.op, ast.Mult)) or (isinstance(q, ast.AugAssign) and isinstance(q.op, ast.Mult) and q.value is c):
                                suse += 1
                            else:
                                bad = True
                                ctx.violate("R5", f"sign vector `{n.id}` is used other than as a multiplicative factor", f, q if isinstance(q, ast.AST) else n)
                if not bad:
                    if puse >= 1 and suse >= 1:
                        ctx.ok("R5", f"{f.qualname}: permutation indexes ({puse}x), signs multiply ({suse}x)", f"{f.module.relpath}:{cs.node.lineno}")
                    else:
                        ctx.violate("R5", f"a result of convert_conventions is never applied (permutation uses {puse}, sign uses {suse})", f, cs.node)
    ctx.floor("R5", nsites, 6, "convert_conventions call sites")

    # ------------------------------------------------------------------ R7
    ctx.rule("R7", "positions looked up in a convention table are not cached under a coarser key", "the component order found for the first shell of an angular momentum is silently reused for later shells listed in another order")
    from .memo import check_local_memos

    users = []
    for f in prog.package_funcs():
        if any(isinstance(n, ast.Name) and ("CONVENTIONS" in n.id or n.id == "convert_conventions") for n in f.own_nodes()):
            users.append(f)
    check_local_memos(ctx, "R7", users, "functions that use convention tables")
    ctx.floor("R7", len(users), 12, "functions using convention tables")
