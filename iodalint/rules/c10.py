"""C10 -- convention conversion is an exact signed permutation (structural clauses)."""

from __future__ import annotations

import ast

from .. import AnalysisError
from ..astutil import unpacked_pair, bind_call, deref, names_in, raises_class, walk_stmts
from ..cfg import cfg_of
from ..consteval import ConstEval, NotConstant
from ..model import src_of
from ..tables import cart_labels, check_entry, discover_convention_tables

PROP = "C10"
LEVEL = "other"
TECHNIQUE = "static analysis: exhaustive table algebra on convention tables evaluated from the AST; dominance and def-use rules on the conversion routines and their call sites"
EXPLANATION = (
    "Static decision of the structural clauses of C10: (R1) every convention table in the package "
    "(module-level literals, the HORTON2/CCA initialiser results evaluated by constant propagation, "
    "function-local vendor tables, wfn.PRIMITIVE_NAMES) lists each function of each shell type exactly "
    "once -- exhaustive over all entries and labels; (R2) in the per-shell conversion routine the four "
    "rejections (length mismatch, duplicates on either side, different label sets) raise ValueError and "
    "dominate the permutation construction; (R3) permutation built by .index on the stripped lists, sign "
    "= product of one source and one target sign, in both the forward and the reverse branch; (R4) "
    "convert_conventions concatenates per-shell results with offset = length so far, source table = the "
    "basis' own conventions, target = the argument, shells in order; (R5) at every call site both results "
    "are bound, the first used only as an index, the second only as a factor.  Declined: the algebraic "
    "laws (inverse, composition) as statements about outputs on arbitrary inputs -- they follow from "
    "R1-R4 by a paper argument; the tool does not execute the function."
)
TECHNIQUE += '; key-completeness dataflow rule for local memo tables'
EXPLANATION += ' Added: (R7) in functions that use convention tables, a value cached in a local dict under a key depends on no loop-variant variable that the key does not determine (positive control built in).'
TECHNIQUE += "; evaluation of _convert_convention_shell / convert_conventions on the repository's tables, synthetic signed re-orderings and an abstract basis"
EXPLANATION += ' R2-R4 no longer match statement templates: _convert_convention_shell is interpreted on every pair of repository convention tables that share a key (both directions), on 864 synthetic signed re-orderings of three labels and on 12 ill-formed pairs; convert_conventions on an abstract 5-shell basis; results are compared with the definition in the docstring (independent oracle in the rule).'
TRUSTED = ["CPython ast parser", "list.index returns the first position of an element", "numpy fancy indexing a[p] places a[p[i]] at position i"]
EXPLANATION += " (R6) order and signs of every format's convention table equal the frozen specification (spec/conventions.json)."
# --- metadata added for batch 7
TECHNIQUE += '; evaluated coefficient path and overlap tail borrowed from C01 / C06'
EXPLANATION += ' Added: (R8, R9) the evaluated clauses C01-R4 / C01-R9 (written coefficient rows are signs[r] x rows[permutation[r]]); (R10) the tail of compute_overlap evaluated on a symbolic matrix (C06-R3): returned[i, j] = s_row[i] s_col[j] internal[p_row[i], p_col[j]], signs applied after the rows were moved. R5 accepts an index built from the permutation (np.ix_, take); R1 / R3 evaluate PRIMITIVE_NAMES, ANGMOM_CHARS, angmom_sti / angmom_its and the default of `reverse`.'
# --- end metadata batch 7
# --- metadata added for batch 8
EXPLANATION += ' R3 evaluates the shell conversion with every true / false flag value (`np.True_`, `np.False_`, 1, 0), not only the two singletons.'
# --- end metadata batch 8
# --- metadata added for batch 9
EXPLANATION += " R2 / R4 rows added: single-label shells are compared like any other; a shell type missing from the basis's own conventions raises instead of falling back to another table."
# --- end metadata batch 9
# --- metadata added after the round-5 refactoring twins
EXPLANATION += ' R5: the (reshaped) sign vector may be kept in a local whose every use is a multiplication.'
# --- end metadata round-5 twins


def run(ctx):
    prog = ctx.prog
    ce = ConstEval(prog)
    ctx.clauses_decided = ["R1 tables complete and duplicate-free", "R2 rejection guards dominate", "R3 sign product / index on stripped lists", "R4 concatenation over shells", "R5 call sites use both results correctly"]
    ctx.clauses_declined = ["inverse / composition laws on arbitrary run-time inputs (follow from R1-R4 on paper)"]

    # ------------------------------------------------------------------ R1
    ctx.rule("R1", "convention tables list each function exactly once", "a missing/duplicate/misspelt label mis-maps or rejects every shell of that type")
    tabs = discover_convention_tables(prog, ce)
    nentries = nlabels = 0
    names = []
    for label, relpath, lineno, table, f in tabs:
        names.append(label)
        for key in sorted(table):
            labels = list(table[key])
            nentries += 1
            nlabels += len(labels)
            probs = check_entry(key, labels)
            if probs:
                ctx.violate("R1", f"table {label} entry {key}: " + "; ".join(probs), func=f, relpath=relpath, function=label, construct=f"{key}: {labels}"[:280])
                ctx.findings[-1].line = lineno
            else:
                ctx.ok("R1", f"{label}[{key}] complete ({len(labels)} labels)", f"{relpath}:{lineno}", sample=(key[0] in (2, 3)))
    # wfn.PRIMITIVE_NAMES
    wm = prog.modules.get("iodata.formats.wfn")
    if wm and "PRIMITIVE_NAMES" in wm.bindings:
        try:
            pn = ce.global_value(wm, "PRIMITIVE_NAMES")
        except NotConstant as exc:
            raise AnalysisError(f"wfn.PRIMITIVE_NAMES not constant: {exc}") from exc
        want = [x for l in range(6) for x in cart_labels(l)]
        nlabels += len(pn)
        if sorted(pn) == sorted(want) and len(set(pn)) == len(pn):
            ctx.ok("R1", f"wfn.PRIMITIVE_NAMES: {len(pn)} distinct monomials of degree 0..5", wm.relpath)
        else:
            ctx.violate("R1", f"wfn.PRIMITIVE_NAMES is not the duplicate-free set of monomials of degree 0..5 (missing {sorted(set(want) - set(pn))}, extra/duplicate {sorted(x for x in pn if x not in want or list(pn).count(x) > 1)})", relpath=wm.relpath, function="iodata.formats.wfn.PRIMITIVE_NAMES", construct="PRIMITIVE_NAMES")
        # its *order* is the TYPE ASSIGNMENTS numbering of the format: the concatenation of the module's (frozen, R6)
        # Cartesian conventions for l = 0..5
        try:
            conv = ce.global_value(wm, "CONVENTIONS")
        except NotConstant as exc:
            raise AnalysisError(f"wfn.CONVENTIONS not constant: {exc}") from exc
        want_order = [x for l in range(6) for x in conv[(l, "c")]]
        if list(pn) == want_order:
            ctx.ok("R1", "wfn.PRIMITIVE_NAMES lists the monomials in the order of the WFN conventions for l = 0..5 (type number = position + 1)", wm.relpath)
        else:
            k = next(i for i, (a, b) in enumerate(zip(list(pn) + [None] * len(want_order), want_order)) if a != b)
            ctx.violate("R1", f"wfn.PRIMITIVE_NAMES[{k}] is `{list(pn)[k] if k < len(pn) else None}`, the WFN type number {k + 1} is `{want_order[k]}`: primitive types are mis-assigned on reading and writing", relpath=wm.relpath, function="iodata.formats.wfn.PRIMITIVE_NAMES", construct=f"PRIMITIVE_NAMES order at {k}")
    # angular-momentum letters (used by the Molden, Molekel and CP2K readers / writers): frozen spectroscopic sequence
    bm = prog.module("iodata.basis")
    try:
        chars = ce.global_value(bm, "ANGMOM_CHARS")
    except NotConstant as exc:
        raise AnalysisError(f"basis.ANGMOM_CHARS not constant: {exc}") from exc
    if isinstance(chars, str) and chars.startswith("spdfghiklmnoqrtuvwxyz") and len(set(chars)) == len(chars):
        ctx.ok("R1", "basis.ANGMOM_CHARS is the spectroscopic sequence s p d f g h i k l m n o q r t u v w x y z (no j) without repeats", bm.relpath)
    else:
        ctx.violate("R1", f"basis.ANGMOM_CHARS is `{chars}`: the spectroscopic sequence is spdfghiklmnoqrtuvwxyz (no j, no repeats); shells are read with another angular momentum", relpath=bm.relpath, function="iodata.basis.ANGMOM_CHARS", construct="ANGMOM_CHARS")
    from ..accessors import AccessorEval, Raised as _Raised
    from ..symarr import NotSymbolic as _NS

    sti, its = prog.funcs.get("iodata.basis.angmom_sti"), prog.funcs.get("iodata.basis.angmom_its")
    if sti is None or its is None:
        raise AnalysisError("basis.angmom_sti / angmom_its not found")
    badc = None
    try:
        for l, ch in enumerate("spdfghik"):
            for spelled in (ch, ch.upper()):
                got = AccessorEval(prog, None).run_free(sti, [spelled], {})
                if got != l:
                    badc = badc or f"angmom_sti({spelled!r}) = {got!r}, expected {l}"
            got = AccessorEval(prog, None).run_free(its, [l], {})
            if got != ch:
                badc = badc or f"angmom_its({l}) = {got!r}, expected {ch!r}"
        try:
            got = AccessorEval(prog, None).run_free(its, [-1], {})
            badc = badc or f"angmom_its(-1) = {got!r} instead of ValueError"
        except _Raised:
            pass
    except _Raised as exc:
        badc = f"raises {exc.args[0]} for a valid argument"
    except _NS as exc:
        raise AnalysisError(f"angmom_sti / angmom_its are outside the evaluation whitelist: {exc}") from exc
    if badc:
        ctx.violate("R1", f"angular-momentum letters: {badc}", sti, sti.node, construct=f"angmom letters: {badc}"[:150])
    else:
        ctx.ok("R1", "angmom_sti / angmom_its evaluated for l = 0..7 (lower and upper case): letter <-> number as in the spectroscopic sequence", sti.where)
    # R6: order and signs of every format table equal the frozen specification
    import json, os
    from ..tables import spec_label
    from ..report import VERIF

    ctx.rule("R6", "format convention tables (order and signs) equal the frozen format specification", "a swapped label or flipped sign mis-reads every real file of that program while IOData's own round trip stays consistent")
    with open(os.path.join(VERIF, "spec", "conventions.json")) as fh:
        spec = json.load(fh)
    seen_spec = set()
    for label, relpath, lineno, table, f in tabs:
        lab = spec_label(label)
        if lab not in spec:
            if not lab.startswith("iodata.convert._get_default_conventions"):
                ctx.note(f"convention table {lab} ({relpath}:{lineno}) has no frozen specification entry (new table?)")
            continue
        seen_spec.add(lab)
        for ks, want in spec[lab]["entries"].items():
            key = (int(ks[:-1]), ks[-1])
            got = list(table.get(key, [])) if key in table else None
            if got == want:
                ctx.ok("R6", f"{lab}[{key}] = specification", f"{relpath}:{lineno}", sample=(key == (3, "p")))
            else:
                diff = [f"{i}:{a}->{b}" for i, (a, b) in enumerate(zip(want, got or [])) if a != b][:4]
                ctx.violate("R6", f"table {lab} entry {key} is {got}, the format specification (spec/conventions.json) says {want} (differences {diff})", func=f, relpath=relpath, function=lab, construct=f"{key}: {got}"[:280])
                ctx.findings[-1].line = lineno
        extra = [k for k in table if f"{k[0]}{k[1]}" not in spec[lab]["entries"] and not lab.startswith("iodata.convert.")]
        for k in extra:
            ctx.note(f"{lab} has entry {k} that the frozen specification does not list")
    for lab in spec:
        if lab not in seen_spec:
            ctx.violate("R6", f"convention table {lab} of the frozen specification no longer exists in the package", relpath=spec[lab]["source"].split(" ")[0], function=lab, construct="table missing")
    ctx.extra["convention_tables"] = names
    ctx.extra["table_entries"] = nentries
    ctx.extra["labels_checked"] = nlabels
    ctx.floor("R1", len(tabs), 8, "convention tables")
    ctx.floor("R1", nentries, 130, "table entries")

    # ------------------------------------------------------------------ R2 / R3 / R4
    # decided by evaluating _convert_convention_shell and convert_conventions themselves (iodalint.accessors) on the
    # repository's own tables, on synthetic signed re-orderings and on an abstract basis -- no statement template
    ctx.rule("R2", "lists that are not signed re-orderings of each other are rejected", "duplicates / foreign labels silently map two positions to one function")
    ctx.rule("R3", "permutation and signs follow the definition (sign = product of both label signs)", "a dropped sign factor, a wrong direction or an index on unstripped labels flips or mis-places functions")
    ctx.rule("R4", "concatenation over shells and contractions with running offset", "a wrong offset or table maps functions across shell boundaries")
    from .c10_semantics import check_conversion_semantics

    check_conversion_semantics(ctx, "R3", "R4", {lab: tab for lab, relpath, lineno, tab, fn in tabs}, rid_reject="R2")
    cc = prog.func("iodata.convert.convert_conventions")

    # ------------------------------------------------------------------ R5
    ctx.rule("R5", "call sites bind both results; permutation only indexes, signs only multiply", "a call site that drops or swaps a result writes unconverted data")
    nsites = 0
    for f in prog.package_funcs():
        for cs in f.calls:
            if cc in cs.callees:
                nsites += 1
                pair = unpacked_pair(f, cs.node, prog.parents(f))
                if pair is None:
                    ctx.violate("R5", "result of convert_conventions is not unpacked into (permutation, signs)", f, cs.node)
                    continue
                pn, sn = pair
                # aliases: `permutation1, signs1 = permutation0, signs0`
                alias_p, alias_s = {pn}, {sn}
                for n in f.own_nodes():
                    if isinstance(n, ast.Assign) and isinstance(n.targets[0], ast.Tuple) and isinstance(n.value, ast.Tuple):
                        for t, v in zip(n.targets[0].elts, n.value.elts):
                            if isinstance(v, ast.Name) and isinstance(t, ast.Name):
                                if v.id in alias_p:
                                    alias_p.add(t.id)
                                if v.id in alias_s:
                                    alias_s.add(t.id)
                    elif isinstance(n, ast.Assign) and len(n.targets) == 1 and isinstance(n.targets[0], ast.Name) and isinstance(n.value, ast.Name):
                        if n.value.id in alias_p:
                            alias_p.add(n.targets[0].id)
                        if n.value.id in alias_s:
                            alias_s.add(n.targets[0].id)
                pmf = prog.parents(f)
                puse = suse = 0
                bad = False
                for n in f.own_nodes():
                    if isinstance(n, ast.Name) and isinstance(n.ctx, ast.Load) and n.id in (alias_p | alias_s):
                        p = pmf.get(id(n))
                        # skip the alias assignments themselves
                        if isinstance(p, ast.Tuple) and isinstance(pmf.get(id(p)), ast.Assign) and pmf[id(p)].value is p:
                            continue
                        if isinstance(p, ast.Assign) and p.value is n:
                            continue
                        if n.id in alias_p:
                            # must be (part of) a subscript index
                            q, c = p, n
                            isidx = False
                            while q is not None:
                                if isinstance(q, ast.Subscript) and q.slice is c:
                                    isidx = True
                                    break
                                if isinstance(q, (ast.Tuple, ast.Slice)):
                                    c, q = q, pmf.get(id(q))
                                    continue
                                if isinstance(q, ast.Call) and isinstance(q.func, ast.Attribute) and q.func.attr in ("ix_", "take", "asarray", "array"):
                                    if q.func.attr == "take":
                                        isidx = True  # array.take(permutation, axis=...) / np.take(array, permutation)
                                        break
                                    c, q = q, pmf.get(id(q))  # an index built from the permutation (np.ix_(p, p))
                                    continue
                                break
                            if isidx:
                                puse += 1
                            else:
                                bad = True
                                ctx.violate("R5", f"permutation `{n.id}` is used other than as a subscript index", f, p if isinstance(p, ast.AST) else n)
                        else:
                            # must be an operand of a multiplication (possibly via .reshape(-1,1))
                            q, c = p, n
                            while isinstance(q, (ast.Attribute, ast.Call)) and (getattr(q, "attr", "") in ("reshape",) or (isinstance(q, ast.Call) and isinstance(q.func, ast.Attribute) and q.func.attr == "reshape")):
                                c, q = q, pmf.get(id(q))
                            if isinstance(q, ast.Subscript) and q.value is c:
                                # signs[:, None] style broadcasting
                                c, q = q, pmf.get(id(q))
                            if isinstance(q, ast.Assign) and q.value is c and len(q.targets) == 1 and isinstance(q.targets[0], ast.Name):
                                # the (reshaped) signs kept in a local: every use of that local is a multiplication
                                alias = q.targets[0].id
                                auses = [x for x in f.own_nodes() if isinstance(x, ast.Name) and x.id == alias and isinstance(x.ctx, ast.Load)]
                                okalias = bool(auses) and all((isinstance(pmf.get(id(x)), ast.BinOp) and isinstance(pmf[id(x)].op, ast.Mult)) or (isinstance(pmf.get(id(x)), ast.AugAssign) and isinstance(pmf[id(x)].op, ast.Mult) and pmf[id(x)].value is x) for x in auses)
                                if okalias:
                                    suse += len(auses)
                                    continue
                            if (isinstance(q, ast.BinOp) and isinstance(q.op, ast.Mult)) or (isinstance(q, ast.AugAssign) and isinstance(q.op, ast.Mult) and q.value is c):
                                suse += 1
                            else:
                                bad = True
                                ctx.violate("R5", f"sign vector `{n.id}` is used other than as a multiplicative factor", f, q if isinstance(q, ast.AST) else n)
                if not bad:
                    if puse >= 1 and suse >= 1:
                        ctx.ok("R5", f"{f.qualname}: permutation indexes ({puse}x), signs multiply ({suse}x)", f"{f.module.relpath}:{cs.node.lineno}")
                    else:
                        ctx.violate("R5", f"a result of convert_conventions is never applied (permutation uses {puse}, sign uses {suse})", f, cs.node)
    # the permutation gathers (x[permutation]); used as a store index it scatters, i.e. applies the inverse permutation
    for f in prog.package_funcs():
        pnames = set()
        for n in f.own_nodes():
            if isinstance(n, ast.Assign) and isinstance(n.value, ast.Call) and len(n.targets) == 1 and isinstance(n.targets[0], ast.Tuple) and len(n.targets[0].elts) == 2:
                cs_ = next((c for c in f.calls if c.node is n.value), None)
                if cs_ is not None and cc in cs_.callees and isinstance(n.targets[0].elts[0], ast.Name):
                    pnames.add(n.targets[0].elts[0].id)
        for n in f.own_nodes():
            if isinstance(n, ast.Subscript) and isinstance(n.ctx, ast.Store) and any(isinstance(x, ast.Name) and x.id in pnames for x in ast.walk(n.slice)):
                ctx.violate("R5", f"the permutation `{src_of(n.slice)}` is used as a *store* index (`{src_of(n)} = ...`): that scatters instead of gathers, i.e. applies the inverse permutation", f, n)
    ctx.floor("R5", nsites, 6, "convert_conventions call sites")

    # ------------------------------------------------------------------ R7
    ctx.rule("R7", "positions looked up in a convention table are not cached under a coarser key", "the component order found for the first shell of an angular momentum is silently reused for later shells listed in another order")
    from .memo import check_local_memos

    users = []
    for f in prog.package_funcs():
        if any(isinstance(n, ast.Name) and ("CONVENTIONS" in n.id or n.id == "convert_conventions") for n in f.own_nodes()):
            users.append(f)
    check_local_memos(ctx, "R7", users, "functions that use convention tables")
    ctx.floor("R7", len(users), 12, "functions using convention tables")
    # every writer and reader calls the converters without `reverse`: the documented default (False: object -> target
    # direction) is part of their meaning
    for q in ("iodata.convert.convert_conventions", "iodata.convert._convert_convention_shell"):
        g = prog.funcs.get(q)
        if g is None:
            raise AnalysisError(f"{q} not found")
        d = g.default_of("reverse")
        if isinstance(d, ast.Constant) and d.value is False:
            ctx.ok("R3", f"{g.name}: `reverse` defaults to False", g.where)
        else:
            ctx.violate("R3", f"{g.name}: `reverse` defaults to `{src_of(d) if d is not None else '<no default>'}`: every call site that omits it (all writers and readers) converts in the opposite direction", g, g.node, construct=f"{g.name} reverse default")
    # the factors that multiply converted rows must be in the converted order too (shared with C01-R4): otherwise the
    # written block is not a signed permutation of the stored one
    ctx.borrow("c01", {"R4": "R8", "R9": "R9"})
    # the overlap matrix is computed in the internal order and converted to the basis' own conventions at the end of
    # compute_overlap: the evaluated clause of C06 (returned[i, j] = s[i] s[j] internal[p[i], p[j]])
    ctx.borrow("c06", {"R3": "R10"})
